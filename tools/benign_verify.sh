#!/bin/sh
# tools/benign_verify.sh <PROP> <dir with patch.diff> [check ids...]
# A behaviour-PRESERVING change written by an independent agent: pinned suite must pass with it, and our checks must not raise an alarm
# (exit 1 = false alarm; exit 2/3 = the proof no longer goes through / code left the supported subset: undecided, recorded).
# Stores patch.diff and meta.json under /verif/benign/<PROP>/.
set -u
PROP="$1"; SRC="$2"; shift 2
CHECKS="${*:-$PROP}"
HERE="$(cd "$(dirname "$0")/.." && pwd)"
WT="$(mktemp -d /tmp/benignv.XXXXXX)"; rmdir "$WT"
git -C /repo worktree add -q --detach "$WT" HEAD || exit 3
if ! git -C "$WT" apply "$SRC/patch.diff"; then echo "PATCH-DOES-NOT-APPLY"; git -C /repo worktree remove --force "$WT"; exit 3; fi
SUITE="$(VERIF_REPO="$WT" "$HERE/tools/baseline.sh" | head -1)"
echo "$PROP: $SUITE"
OUTD="$(mktemp -d /tmp/benignv-out.XXXXXX)"
RES=""
for P in $CHECKS; do
  OUT="$(VERIF_REPO="$WT" VERIF_OUT="$OUTD" "$HERE/check" "$P" 2>&1)"
  echo "$OUT" | grep -E "^(VIOLATION|FAILED-OBLIGATION|UNDECIDED|CHECKER-ERROR)" | head -6 | cut -c1-300
  LINE="$(echo "$OUT" | grep "^SUMMARY")"
  echo "$LINE"
  RES="$RES $P: $(echo "$LINE" | sed 's/.*undecided=\([0-9]*\) violations=\([0-9]*\).*exit=\([0-9]*\).*/undecided=\1 violations=\2 exit=\3/')"
done
B="${DEST:-benign}"; D="$HERE/$B/$PROP"; N=1; while [ -e "$D" ]; do N=$((N+1)); D="$HERE/$B/$PROP-$N"; done
mkdir -p "$D"; cp "$SRC/patch.diff" "$D/patch.diff"
/venv/bin/python - "$D" "$PROP" "$SUITE" "$RES" <<'PY'
import json, sys
d, prop, suite, res = sys.argv[1:5]
json.dump({"property": prop, "kind": "behaviour-preserving refactoring (independent sub-agent; demo digest identical before/after)", "pinned_suite_with_change": suite,
           "our_checks_against_change": res.strip(), "outcome": "TODO",
           "repo_head": __import__("subprocess").run(["git", "-C", "/repo", "log", "--format=%h", "-1"], capture_output=True, text=True).stdout.strip()},
          open(d + "/meta.json", "w"), indent=1)
PY
git -C /repo worktree remove --force "$WT"; rm -rf "$OUTD"
echo "stored in $D"
