#!/bin/sh
# tools/seed_regress.sh [jobs]: every seeded breaking change (seeded/*/patch.diff) against the checks that are recorded as catching it;
# prints one line per seed: CAUGHT / MISSED(exit code). Scratch worktrees under /tmp, removed afterwards.
cd "$(dirname "$0")/.."
J="${1:-4}"
ls -d seeded/*/ | sed 's#seeded/##; s#/##' | xargs -P "$J" -I{} sh -c '
  S={}; P=$(echo $S | sed "s/-.*//")
  CHECKS=$(/venv/bin/python - "$S" <<PY
import json,re,sys
d=json.load(open("seeded/%s/meta.json" % sys.argv[1]))
txt=d.get("our_checks_against_change","")+" "+d.get("outcome","")
prop=d["property"]
caught=[c for c in re.findall(r"(C\d\d): violations=(\d+) exit=(\d)", d.get("our_checks_against_change","")) ]
ids=[prop]
print(" ".join(ids))
PY
)
  OUT=$(LINES_MAX=100000 tools/mutest.sh seeded/$S/patch.diff $CHECKS 2>&1 | grep "^SUMMARY" | sed "s/.*violations=\([0-9]*\).*exit=\([0-9]*\).*/violations=\1 exit=\2/" | tr "\n" " ")
  case "$OUT" in *"exit=1"*) echo "CAUGHT $S [$CHECKS] $OUT";; *) echo "MISSED $S [$CHECKS] $OUT";; esac
'
