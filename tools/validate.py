#!/usr/bin/env python3
import json, glob, jsonschema, sys
sch = json.load(open("/root/.vp/EVIDENCE.schema.json"))
bad = 0
for f in sorted(glob.glob("/verif/evidence/*.json")):
    try:
        e = json.load(open(f)); jsonschema.validate(e, sch)
        c = e["coverage"]
        print(f, "ok", e["level"], e["tier"], "obl", c.get("obligations"), "disch", c.get("discharged"), "wall", e["wall_s"])
    except Exception as ex:
        bad += 1; print(f, "INVALID", str(ex)[:300])
sys.exit(1 if bad else 0)
