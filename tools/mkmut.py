#!/usr/bin/env python3
"""tools/mkmut.py <out.diff> <repo-relative-file> <old> <new> [count]  -- make a unified diff replacing old by new."""
import subprocess, sys, os, tempfile
out, rel, old, new = sys.argv[1:5]
cnt = int(sys.argv[5]) if len(sys.argv) > 5 else 1
src = open(os.path.join("/repo", rel)).read()
assert src.count(old) >= 1, "pattern not found"
d = tempfile.mkdtemp()
for side, text in (("a", src), ("b", src.replace(old, new, cnt))):
    path = os.path.join(d, side, rel); os.makedirs(os.path.dirname(path), exist_ok=True); open(path, "w").write(text)
diff = subprocess.run(["diff", "-u", f"a/{rel}", f"b/{rel}"], cwd=d, capture_output=True, text=True).stdout
open(out, "w").write(diff)
subprocess.run(["rm", "-rf", d])
print(out, len(diff.splitlines()), "lines")
