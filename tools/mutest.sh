#!/bin/sh
# tools/mutest.sh <patch.diff> <property-id>...   -- self-test: run checks against a scratch worktree of /repo
# with the patch applied. Writes evidence/replays under a scratch dir; removes everything afterwards.
set -u
PATCH="$(realpath "$1")"; shift
WT="$(mktemp -d /tmp/mutest.XXXXXX)"
rmdir "$WT"
git -C /repo worktree add -q --detach "$WT" HEAD || exit 3
if ! git -C "$WT" apply "$PATCH"; then echo "PATCH-DOES-NOT-APPLY"; git -C /repo worktree remove --force "$WT"; exit 3; fi
OUTD="$(mktemp -d /tmp/mutest-out.XXXXXX)"
for P in "$@"; do
  VERIF_REPO="$WT" VERIF_OUT="$OUTD" "$(dirname "$0")/../check" "$P" ${TIER:+--tier $TIER} 2>&1 | grep -E "^(VIOLATION|FAILED-OBLIGATION|SUMMARY|UNDECIDED|CHECKER-ERROR|KNOWN-FINDING)" | head -${LINES_MAX:-12}
done
git -C /repo worktree remove --force "$WT"
rm -rf "$OUTD"
