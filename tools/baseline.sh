#!/bin/sh
# tools/baseline.sh -- run the repository's pinned baseline suite with the guard OFF and compare with
# /root/.vp/BASELINE.json: every stable_pass test must pass. Exit 0 iff so.
unset COMPWA_AMPFORM_VERIF
OUT="$(mktemp /tmp/baseline.XXXXXX.xml)"
cd "${VERIF_REPO:-/repo}" || exit 3
if [ -n "${VERIF_REPO:-}" ] && [ "$VERIF_REPO" != "/repo" ]; then export PYTHONPATH="$VERIF_REPO/src"; fi
/venv/bin/python -m pytest -ra -q -p no:cacheprovider --timeout=900 --continue-on-collection-errors --junitxml="$OUT" >/tmp/baseline.$$.log 2>&1
/venv/bin/python - "$OUT" <<'PY'
import json, sys
sys.path.insert(0, "/w/lib")
import xml.etree.ElementTree as ET
base = json.load(open("/root/.vp/BASELINE.json"))
want = set(base["stable_pass"])
passed = set()
for tc in ET.parse(sys.argv[1]).getroot().iter("testcase"):
    ok = not any(ch.tag in ("failure", "error", "skipped") for ch in tc)
    name = f"{tc.get('classname')}::{tc.get('name')}"
    if ok:
        passed.add(name)
missing = sorted(want - passed)
print(f"baseline: {len(want & passed)}/{len(want)} stable tests pass; {len(missing)} missing")
for m in missing[:20]:
    print("  NOT PASSING:", m)
sys.exit(1 if missing else 0)
PY
RC=$?
rm -f "$OUT" /tmp/baseline.$$.log
exit $RC
