#!/bin/sh
# tools/seed_verify.sh <PROP> <dir with patch.diff and demo_break.py> [check ids...]
# Confirms an independently written property-breaking change in a fresh scratch worktree of /repo:
#   demo passes without the patch, fails with it, the pinned suite still passes with it; then runs our check(s) against it.
# Stores patch.diff, demo_break.py and meta.json under /verif/seeded/<PROP>/ (or <PROP>-N if taken).
set -u
PROP="$1"; SRC="$2"; shift 2
CHECKS="${*:-$PROP}"
HERE="$(cd "$(dirname "$0")/.." && pwd)"
WT="$(mktemp -d /tmp/seedv.XXXXXX)"; rmdir "$WT"
git -C /repo worktree add -q --detach "$WT" HEAD || exit 3
cp "$SRC/demo_break.py" "$WT/demo_break.py"
( cd "$WT" && PYTHONPATH="$WT/src" TQDM_DISABLE=1 /venv/bin/python demo_break.py >/tmp/seedv.$$.a 2>&1 ); A=$?
if ! git -C "$WT" apply "$SRC/patch.diff"; then echo "PATCH-DOES-NOT-APPLY"; git -C /repo worktree remove --force "$WT"; exit 3; fi
( cd "$WT" && PYTHONPATH="$WT/src" TQDM_DISABLE=1 /venv/bin/python demo_break.py >/tmp/seedv.$$.b 2>&1 ); B=$?
SUITE="$(VERIF_REPO="$WT" "$HERE/tools/baseline.sh" | head -1)"
echo "demo unchanged: exit $A | demo changed: exit $B | $SUITE"
OUTD="$(mktemp -d /tmp/seedv-out.XXXXXX)"
RES=""
for P in $CHECKS; do
  LINE="$(VERIF_REPO="$WT" VERIF_OUT="$OUTD" "$HERE/check" "$P" 2>&1 | grep -E "^(VIOLATION|SUMMARY)" | tail -3)"
  echo "$LINE"
  RES="$RES $P: $(echo "$LINE" | grep SUMMARY | sed 's/.*violations=\([0-9]*\).*exit=\([0-9]*\).*/violations=\1 exit=\2/')"
  FIRST="$(VERIF_REPO="$WT" true; echo "$LINE" | grep -c VIOLATION)"
done
D="$HERE/seeded/$PROP"; N=1; while [ -e "$D" ]; do N=$((N+1)); D="$HERE/seeded/$PROP-$N"; done
mkdir -p "$D"; cp "$SRC/patch.diff" "$D/patch.diff"; cp "$SRC/demo_break.py" "$D/demo_break.py"
/venv/bin/python - "$D" "$PROP" "$A" "$B" "$SUITE" "$RES" <<'PY'
import json, sys
d, prop, a, b, suite, res = sys.argv[1:7]
json.dump({"property": prop, "demo_exit_unchanged_tree": int(a), "demo_exit_changed_tree": int(b), "pinned_suite_with_change": suite,
           "our_checks_against_change": res.strip(), "needs_to_manifest": "TODO", "what_was_run": "tools/seed_verify.sh (fresh scratch worktree of /repo HEAD; demo before/after patch; tools/baseline.sh; ./check with VERIF_REPO=worktree)",
           "repo_head": __import__("subprocess").run(["git", "-C", "/repo", "log", "--format=%h", "-1"], capture_output=True, text=True).stdout.strip()},
          open(d + "/meta.json", "w"), indent=1)
PY
git -C /repo worktree remove --force "$WT"; rm -rf "$OUTD" /tmp/seedv.$$.a /tmp/seedv.$$.b
echo "stored in $D"
