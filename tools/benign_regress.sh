#!/bin/sh
# tools/benign_regress.sh [jobs]: every stored behaviour-preserving change (benign/*/patch.diff) against the check of its property;
# one line per change: QUIET(exit 0) / UNDECIDED(exit 2|3) / ALARM(exit 1 = a false alarm). Scratch worktrees under /tmp, removed afterwards.
cd "$(dirname "$0")/.."
J="${1:-4}"
ls -d benign/*/ | sed 's#benign/##; s#/##' | xargs -P "$J" -I{} sh -c '
  S={}; P=$(echo $S | sed "s/-.*//")
  OUT=$(LINES_MAX=100000 tools/mutest.sh benign/$S/patch.diff $P 2>&1 | grep "^SUMMARY" | sed "s/.*undecided=\([0-9]*\) violations=\([0-9]*\).*exit=\([0-9]*\).*/undecided=\1 violations=\2 exit=\3/" | tr "\n" " ")
  case "$OUT" in *"exit=1"*) echo "ALARM $S $OUT";; *"exit=0"*) echo "QUIET $S $OUT";; *) echo "UNDECIDED $S $OUT";; esac
'
