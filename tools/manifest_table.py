"""Source of MANIFEST.json (tools/mkmanifest.py)."""

PROOF_NOTE = ("Trusted: z3 5.1 / cvc5 1.0.3 'unsat' answers; the SymPy-node -> SMT translation table (vlib/tr.py), cross-checked "
              "on every run at each cover model against numpy evaluation of the real tree; floats treated as exact reals (A-arith); "
              "per-event semantics of array expressions (A-batch). ")

CHECKS = {
    "C08": {
        "engine": "E1 exprvc + E2 npvc",
        "level": "proof",
        "technique": "contract-based deductive verification: SMT-discharged postconditions on the SymPy trees returned by the real functions and on the generated numpy source",
        "text": "Every equation of the statement (L^T eta L = eta, det 1, L00>=1, rest frame, inverse = boost of negated momentum, z-boost = general boost along z, "
                "additive composition, generated code = explicit matrix for cse on/off) is an SMT obligation over all real momenta with E>0, E^2>|p|^2, |p|>0 and all angles, "
                "generated from the current source on every run; discrete structure (4 classes, cse flag, einsum chain lengths 1..18) is enumerated exhaustively.",
        "note": PROOF_NOTE + "requires |p|>0 for the general boost (0/0 at rest). Floating-point conditioning over orders of magnitude of beta*gamma is not decided.",
    },
    "C20": {
        "engine": "E1 exprvc",
        "level": "proof",
        "technique": "contract-based deductive verification: SMT-discharged postconditions and lemma chain on the SymPy trees returned by the real functions",
        "text": "Third Mandelstam = actual invariant mass squared, Kibble <= 0 and indicator = 1 on every physical event (Gram + Lagrange identities), indicator = 1 iff sigma2 within the "
                "PDG limits on the bounding box else the caller's outside value (factorisation over sqrt(sigma1) + sign lemma), Kallen totally symmetric and factorised: all as SMT "
                "obligations over all real values, no bound.",
        "note": PROOF_NOTE + "Lemma obligations (body meets spec, Gram/Lagrange/factor identities) are internal proof steps; a refuted lemma is reported as a violation only when the "
                "property-level replay on the real code reproduces a failure.",
    },
}

_PENDING = "check not built yet in this round (planned in DESIGN.md section 3); not claimed until its machinery exists"
NOT_APPLICABLE = {
    "C04": "rotation invariance relates values on two different events through SU(2) representation theory composed with acos/atan2 of boosted momenta; "
           "no per-function contract implies it and the single-formula form is far outside nlsat/cvc5 (DESIGN.md section 6)",
    **{f"C{i:02d}": _PENDING for i in range(1, 21) if i not in (4, 8, 20)},
}

NOTES = ("Technique family: contract-based deductive verification of the real code. Contracts are sidecar files (contracts/*.py) keyed by the qualified names of "
         "the real functions; every run re-reads /repo's working tree, regenerates all obligations and discharges them with z3/cvc5. Exit codes: 0 held, 1 violation "
         "(VIOLATION line), 2 undecided, 3 checker error. known_findings.txt lists genuine defects (open/fixed). obligations.baseline.json is the ledger of obligation "
         "names discharged on the reference tree (a refuted ledger obligation without a concrete input is reported with no-failing-input-found).")
