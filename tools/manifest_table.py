"""Source of MANIFEST.json (tools/mkmanifest.py)."""

PROOF_NOTE = ("Trusted: z3 5.1 / cvc5 1.0.3 'unsat' answers; the SymPy-node -> SMT translation table (vlib/tr.py), cross-checked "
              "on every run at each cover model against numpy evaluation of the real tree; floats treated as exact reals (A-arith); "
              "per-event semantics of array expressions (A-batch). ")

_PENDING = "check not built yet in this round (planned in DESIGN.md section 3); not claimed until its machinery exists"
NOT_APPLICABLE = {
    "C04": "rotation invariance relates values on two different events through SU(2) representation theory composed with acos/atan2 of boosted momenta; "
           "no per-function contract implies it and the single-formula form is far outside nlsat/cvc5 (DESIGN.md section 6)",
    **{f"C{i:02d}": _PENDING for i in range(1, 21) if i != 4},
}

NOTES = ("Technique family: contract-based deductive verification of the real code. Contracts are sidecar files (contracts/*.py) keyed by the qualified names of "
         "the real functions; every run re-reads /repo's working tree, regenerates all obligations and discharges them with z3/cvc5. Exit codes: 0 held, 1 violation "
         "(VIOLATION line), 2 undecided, 3 checker error. known_findings.txt lists genuine defects (open/fixed). obligations.baseline.json is the ledger of obligation "
         "names discharged on the reference tree (a refuted ledger obligation without a concrete input is reported with no-failing-input-found).")
