#!/bin/sh
# tools/engine_selftest.sh: differential test of the E3 symbolic executor against CPython (vlib/selftest.py, cases in vlib/selftest_cases.py); exit 0 = agree, 3 = engine defect
HERE="$(cd "$(dirname "$0")/.." && pwd)"
cd "$HERE" || exit 3
[ -x .venv/bin/python ] || ./setup.sh >/dev/null 2>&1
PYTHONPATH="${VERIF_REPO:-/repo}/src:$HERE" PYTHONDONTWRITEBYTECODE=1 exec .venv/bin/python -m vlib.selftest
