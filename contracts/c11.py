"""C11 — all phase-space-factor variants agree where they must.

Under contract (dynamics/phasespace.py, sympy/math.py): BreakupMomentumSquared.evaluate, PhaseSpaceFactor.evaluate,
PhaseSpaceFactorAbs.evaluate, PhaseSpaceFactorComplex.evaluate, PhaseSpaceFactorSWave.evaluate,
chew_mandelstam_s_wave, EqualMassPhaseSpaceFactor.evaluate, _analytic_continuation, ComplexSqrt.get_definition.

The real classes are called on the symbols s (real), m1, m2 (positive). Every obligation is over all real values
of (s, m1, m2) in a region of the s axis (s < 0 | 0 < s < (m1-m2)^2 | (m1-m2)^2 < s < (m1+m2)^2 | s > (m1+m2)^2):
  * body meets spec (one level of evaluate(), nested classes by their contracts in specs_dyn.py) per class and region;
  * the clauses of the statement, each once on the contracts ("[spec]") and once on the fully unfolded doit() tree
    ("[doit]"): q^2 symmetric / zero at (m1+-m2)^2; Re rho_X = 2 sqrt(q^2)/sqrt(s) above threshold for the five
    classes; rho_Complex = i rho_Abs in the window; EqualMass(s,m,m) = SWave(s,m,m) in the three regions of s;
    continuity at threshold as squeeze obligations |rho_X(s)| <= g with g explicit and g -> 0.
log / atan are uninterpreted atoms; the transcendental axioms of DESIGN section 4 are used only as instantiated
implications (specs_dyn.ax_*), and the premise of every instance is a separate obligation ("axiom-premise").

Roles: where a clause exists in both forms, the "[doit]" obligation (the real unfolded tree) is the property-level one;
its "[spec]" twin is the modular proof of the same clause from the contracts and has the lemma role, because it
rests on the body-meets-spec lemmas (if one of those breaks, the twin is a broken proof step, not a violation, unless its
replay on the real code reproduces the failure). All replays evaluate the real classes through doit() + lambdify, with
complex dtype everywhere and with real dtype in addition for s > 0.

Genuine defect found on the reference tree (see evidence): EqualMassPhaseSpaceFactor(s,m,m) = 0 for s < 0 while
PhaseSpaceFactorSWave(s,m,m) = i r/pi log((r+1)/(r-1)), r = sqrt(1 - 4m^2/s) (e.g. s = -3, m = 0.5: 0 vs 0.968i),
because PhaseSpaceFactorAbs divides by sqrt(s) = i sqrt(-s). Candidate repair: patches/C11-PhaseSpaceFactorAbs.diff.
"""

from __future__ import annotations

import functools
import math

import numpy as np
import sympy as sp
import z3

from ampform.dynamics import phasespace as PSP
from ampform.sympy.math import ComplexSqrt
from contracts import specs_dyn as S
from vlib import e1
from vlib.core import Check
from vlib.tr import CI, CZERO, Cx, R

LEVEL = "proof"
ENGINE = "E1 exprvc"
CLAIM = (
    "For all real s and all positive m1, m2 (no bound; the four open regions of the s axis cut at 0, (m1-m2)^2, (m1+m2)^2): q^2 is symmetric in the masses, vanishes at (m1+-m2)^2 and is positive above threshold; Re rho_X = 2 sqrt(q^2)/sqrt(s) above threshold for the five classes; rho_Complex = i rho_Abs between pseudo-threshold and threshold; EqualMassPhaseSpaceFactor(s,m,m) = PhaseSpaceFactorSWave(s,m,m) separately for s > 4m^2, 0 < s < 4m^2 and s < 0; |rho_X(s)| <= g(s) with explicit g -> 0 on both sides of the threshold and SWave(s_thr) = 0. Each clause is an SMT obligation on the contracts of the classes (body-meets-spec proved per class and region) and again on the unfolded doit() tree."
)
NOTE = (
    "Trusted: z3 5.1 / cvc5 1.4 'unsat'; the SymPy-node -> SMT translation (vlib/tr.py + specs_dyn.DynTr), cross-checked at every cover model against numpy evaluation of the real tree with the log/atan atoms set to their true values; floats as exact reals, principal branches, signed zeros not modelled (A-arith, A-principal). Transcendental axioms, only as instantiated implications with proved premises: log x real for x>0; log x = log|x| + i pi for x<0; log(1/x) = -log x; log z = i Arg z for |z|=1; Arg(c+is) = 2 atan(s/(1+c)); |atan x| <= pi/2; log(1+x) <= x; functional congruence of log/atan; 3.14 < pi < 3.15. The points s in {0, (m1-m2)^2, (m1+m2)^2} are excluded from the regions (EqualMassPhaseSpaceFactor is 0 * atan(1/0) there: defined only in IEEE arithmetic, checked as a bounded instance); continuity at threshold is the limit statement. PhaseSpaceFactorAbs has the contract 2 sqrt|q^2|/sqrt(s) for s > 0 only; for s < 0 it is inlined (transparent) so that the equal-mass clause decides what it must be there."
)
TECHNIQUE = (
    "contract-based deductive verification: E1 denotational VCs on the SymPy trees returned by the real evaluate() "
    "methods (nested classes replaced by their contracts) and on the doit() trees; region-specialised translation with "
    "proved sign facts; log/atan as uninterpreted atoms with instantiated axioms; z3 / nlsat / cvc5"
)
F = "ampform.dynamics.phasespace."
FM = "ampform.sympy.math."

CLASSES = S.PHSP_CLASSES
Q2SIGN = {"neg": -1, "sub": 1, "win": -1, "above": 1}
REGION_TEXT = {"neg": "s<0", "sub": "0<s<(m1-m2)^2", "win": "(m1-m2)^2<s<(m1+m2)^2", "above": "s>(m1+m2)^2", "mid": "0<s<4m^2"}

# =====================================================================================================
# numeric layer: the REAL code, doit() + lambdify("numpy"), used by every replay
# =====================================================================================================
_S = sp.Symbol("s", real=True)
_M1, _M2, _M = sp.symbols("m1 m2 m", positive=True)
TOL = 1e-8


_MODE = {"cse": False, "scalars": False}  # how the real code is evaluated: lambdify(cse=...) and one-element arrays vs Python scalars


@functools.lru_cache(maxsize=None)
def _fn(name: str, equal: bool, cse: bool = False):
    cls = getattr(PSP, name)
    if equal:
        return sp.lambdify([_S, _M], cls(_S, _M, _M).doit(), "numpy", cse=cse)
    return sp.lambdify([_S, _M1, _M2], cls(_S, _M1, _M2).doit(), "numpy", cse=cse)


def real_value(cls, s, *masses, dtype=complex) -> complex:
    """Value of the real class at a point: cls(s, m1, m2) (two masses) or cls(s, m, m) (one mass)."""
    f = _fn(cls.__name__, len(masses) == 1, _MODE["cse"])
    if _MODE["scalars"]:
        args = [dtype(x) for x in (s, *masses)]
    else:
        args = [np.array([x], dtype=dtype) for x in (s, *masses)]
    with np.errstate(all="ignore"):
        out = np.asarray(f(*args), dtype=complex).reshape(-1)
    return complex(out[0])


def _dtypes(s):
    """complex dtype everywhere; real dtype in addition where the real code is meant to work with it (s > 0)."""
    return (complex, float) if s > 0 else (complex,)


def q2_ref(s, m1, m2):
    return (s - (m1 + m2) ** 2) * (s - (m1 - m2) ** 2) / (4 * s)


def _bad(obs, exp, tol=TOL) -> bool:
    return (not np.isfinite(obs)) or (not np.isfinite(exp)) or abs(obs - exp) > tol * (1 + abs(exp))


def check_q2(s, m1, m2):
    if s == 0:
        return None
    for dt in _dtypes(s):
        v, w = real_value(PSP.BreakupMomentumSquared, s, m1, m2, dtype=dt), real_value(PSP.BreakupMomentumSquared, s, m2, m1, dtype=dt)
        if _bad(v, w) or _bad(v, q2_ref(s, m1, m2)):
            return {"what": "q^2 symmetric in the masses and equal to (s-(m1+m2)^2)(s-(m1-m2)^2)/(4s)", "expected": str(q2_ref(s, m1, m2)),
                    "observed": f"q2(s;m1;m2)={v} q2(s;m2;m1)={w}", "dtype": dt.__name__}
    return None


def check_q2_zero(m1, m2):
    for s in ((m1 + m2) ** 2, (m1 - m2) ** 2):
        if s == 0:
            continue
        v = real_value(PSP.BreakupMomentumSquared, s, m1, m2, dtype=float)
        if _bad(v, 0.0, 1e-12):
            return {"what": "q^2 = 0 at s = (m1+-m2)^2", "input": {"s": s, "m1": m1, "m2": m2}, "expected": 0, "observed": str(v)}
    return None


def check_above(cls, s, m1, m2):
    if not (m1 > 0 and m2 > 0 and s > (m1 + m2) ** 2):
        return None
    exp = 2 * math.sqrt(q2_ref(s, m1, m2)) / math.sqrt(s)
    for dt in _dtypes(s):
        v = real_value(cls, s, m1, m2, dtype=dt)
        if _bad(v.real, exp) or not np.isfinite(v):
            return {"what": f"Re {cls.__name__} = 2 sqrt(q^2)/sqrt(s) above threshold", "expected": exp, "observed": str(v), "dtype": dt.__name__}
    return None


def check_window(s, m1, m2):
    if not (m1 > 0 and m2 > 0 and (m1 - m2) ** 2 < s < (m1 + m2) ** 2):
        return None
    for dt in _dtypes(s):
        c, a = real_value(PSP.PhaseSpaceFactorComplex, s, m1, m2, dtype=dt), real_value(PSP.PhaseSpaceFactorAbs, s, m1, m2, dtype=dt)
        if _bad(c, 1j * a):
            return {"what": "rho_Complex = i rho_Abs between pseudo-threshold and threshold", "expected": str(1j * a), "observed": str(c), "dtype": dt.__name__}
    return None


def check_equal(s, m):
    if not (m > 0 and s != 0 and s != 4 * m * m):
        return None
    for dt in _dtypes(s):
        e, w = real_value(PSP.EqualMassPhaseSpaceFactor, s, m, dtype=dt), real_value(PSP.PhaseSpaceFactorSWave, s, m, dtype=dt)
        if _bad(e, w, 1e-7):
            return {"what": "EqualMassPhaseSpaceFactor(s;m;m) = PhaseSpaceFactorSWave(s;m;m)", "expected": f"SWave={w}", "observed": f"EqualMass={e}", "dtype": dt.__name__}
    return None


def squeeze_bound(cls, s, m1, m2):
    """The explicit g(s) of the squeeze obligations (computed independently of the code)."""
    thr, pth = (m1 + m2) ** 2, (m1 - m2) ** 2
    rho = math.sqrt(abs(s - thr) * (s - pth)) / s
    lm = abs(math.log(m1 / m2))
    tail = abs(m1 * m1 - m2 * m2) * abs(s - thr) / (s * thr) * lm / math.pi
    if cls is PSP.EqualMassPhaseSpaceFactor:
        return rho * (1 + 2 * rho / (math.pi * (1 - rho))) if s > thr else rho
    if s > thr:
        return rho + (rho * (s - thr + s * rho) / (2 * m1 * m2)) / math.pi + tail
    return rho + tail


def check_cont(cls, m1, m2):
    thr = (m1 + m2) ** 2
    for dt in (float, complex):
        v0 = real_value(cls, thr, m1, m2, dtype=dt)
        if _bad(v0, 0.0, 1e-12):
            return {"what": f"{cls.__name__}(s_thr) = 0", "input": {"s": thr, "m1": m1, "m2": m2}, "expected": 0, "observed": str(v0), "dtype": dt.__name__}
        for eps in (1e-3, 1e-5, 1e-7, 1e-9):
            for s in (thr * (1 + eps), thr * (1 - eps)):
                if s <= (m1 - m2) ** 2:
                    continue
                v = real_value(cls, s, m1, m2, dtype=dt)
                g = squeeze_bound(cls, s, m1, m2)
                if not np.isfinite(v) or abs(v) > g * (1 + 1e-6) + 1e-7:
                    return {"what": f"|{cls.__name__}(s)| <= g(s) -> 0 near threshold", "input": {"s": s, "m1": m1, "m2": m2}, "expected": f"<= {g}", "observed": str(v),
                            "dtype": dt.__name__}
    return None


def check_csqrt(x):
    xs = sp.Symbol("x", real=True)
    f = sp.lambdify([xs], ComplexSqrt(xs), "numpy")
    exp = complex(math.sqrt(x)) if x >= 0 else 1j * math.sqrt(-x)
    for dt in (float, complex):
        with np.errstate(all="ignore"):
            v = complex(np.asarray(f(np.array([x], dtype=dt)), dtype=complex).reshape(-1)[0])
        if _bad(v, exp):
            return {"what": "ComplexSqrt(x) = sqrt(x) for x >= 0 and i sqrt(-x) for x < 0", "input": {"x": x}, "expected": str(exp), "observed": str(v), "dtype": dt.__name__}
    return None


MASSES = [(0.5, 0.5), (0.13957, 0.13957), (0.13957, 0.49368), (0.49368, 0.13957), (0.938, 0.135), (1.0, 0.01), (0.01, 1.0), (3.0, 3.1)]


def _grid(m1, m2, region):
    thr, pth = (m1 + m2) ** 2, (m1 - m2) ** 2
    if region == "above":
        return [thr * (1 + e) for e in (1e-6, 1e-3, 0.1, 0.5, 1.0, 3.0, 30.0, 1e4)]
    if region in ("win", "mid"):
        return [pth + t * (thr - pth) for t in (1e-6, 0.01, 0.3, 0.5, 0.9, 1 - 1e-6)] if pth < thr else []
    if region == "sub":
        return [pth * t for t in (1e-3, 0.3, 0.9)] if pth > 0 else []
    return [-thr * t for t in (1e-3, 0.5, 2.0, 12.0, 1e3)]


def search(clauses=("q2", "csqrt", "above", "window", "equal", "cont"), classes=CLASSES, regions=("above", "mid", "neg"), model=None):
    """Property-level replay for lemma obligations: evaluate the REAL classes (doit + lambdify, real and complex
    dtype) on a deterministic grid and report the first point where a clause of C11 itself fails."""
    n = 0
    for m1, m2 in MASSES:
        if "q2" in clauses:
            r = check_q2_zero(m1, m2)
            if r:
                return {"reproduced": True, **r}
            for reg_ in ("neg", "sub", "win", "above"):
                for s in _grid(m1, m2, reg_):
                    n += 1
                    r = check_q2(s, m1, m2)
                    if r:
                        return {"reproduced": True, "input": {"s": s, "m1": m1, "m2": m2}, **r}
        if "above" in clauses:
            for cls in classes:
                for s in _grid(m1, m2, "above"):
                    n += 1
                    r = check_above(cls, s, m1, m2)
                    if r:
                        return {"reproduced": True, "input": {"s": s, "m1": m1, "m2": m2}, **r}
        if "window" in clauses:
            for s in _grid(m1, m2, "win"):
                n += 1
                r = check_window(s, m1, m2)
                if r:
                    return {"reproduced": True, "input": {"s": s, "m1": m1, "m2": m2}, **r}
        if "cont" in clauses:
            for cls in classes:
                if cls in (PSP.EqualMassPhaseSpaceFactor, PSP.PhaseSpaceFactorSWave):
                    n += 1
                    r = check_cont(cls, m1, m2)
                    if r:
                        return {"reproduced": True, **r}
    if "equal" in clauses:
        for m in (0.5, 0.13957, 1.5, 0.01):
            for reg_ in regions:
                for s in _grid(m, m, "win" if reg_ == "mid" else reg_):
                    n += 1
                    r = check_equal(s, m)
                    if r:
                        return {"reproduced": True, "input": {"s": s, "m": m}, **r}
    if "csqrt" in clauses:
        for x in (-1e6, -2.0, -1e-9, 0.0, 1e-9, 0.25, 7.0):
            n += 1
            r = check_csqrt(x)
            if r:
                return {"reproduced": True, **r}
    return {"reproduced": False, "note": f"no property-level failure at {n} grid points (clauses {list(clauses)})"}


def _searcher(*clauses, classes=CLASSES, regions=("above", "mid", "neg")):
    return functools.partial(search, tuple(clauses), tuple(classes), tuple(regions))


def _f(model, name):
    v = model.get(name)
    if v is None or isinstance(v, bool):
        return None
    return float(v)


def _replay(check, names, fallback):
    """Replay at the counter-model's point on the real code; when the point does not exhibit the failure (the
    counter-model may live in auxiliary variables only) fall back to the deterministic search over the clause."""

    def rep(model):
        vals = [_f(model, n) for n in names]
        if all(v is not None for v in vals):
            try:
                r = check(*vals)
            except (ZeroDivisionError, ValueError, OverflowError):
                r = None
            if r:
                return {"reproduced": True, "input": dict(zip(names, vals)), **r}
        out = fallback(model)
        out.setdefault("model_point", dict(zip(names, vals)))
        return out

    return rep


# =====================================================================================================
# SMT layer
# =====================================================================================================
class Gen:
    def __init__(self, chk: Check, variant: str):
        self.chk = chk
        self.variant = variant  # "" (positive mass symbols) | "real" (real symbols + explicit m > 0)
        kw = {"positive": True} if variant == "" else {"real": True}
        self.s = sp.Symbol("s", real=True)
        self.m1, self.m2, self.m = sp.Symbol("m1", **kw), sp.Symbol("m2", **kw), sp.Symbol("m", **kw)
        self.sfx = "" if variant == "" else "|real-symbols"
        self.emitted: set[str] = set()

    def name(self, n: str) -> str:
        return n + self.sfx

    def masses_req(self, t, syms):
        return [] if self.variant == "" else [t.val(x).re > 0 for x in dict.fromkeys(syms[1:])]

    def regions(self, t, syms):
        sv, a, b = (t.val(x).re for x in syms)
        thr, pth = (a + b) * (a + b), (a - b) * (a - b)
        if syms[1] is syms[2]:
            return {"neg": [sv < 0], "mid": [sv > 0, sv < thr], "win": [sv > 0, sv < thr], "above": [sv > thr]}
        return {"neg": [sv < 0], "sub": [sv > 0, sv < pth], "win": [sv > pth, sv < thr], "above": [sv > thr]}

    def region_tr(self, tag: str, region: str, syms, transparent_abs: bool = False):
        """Translator specialised to a region: sign of s and of q^2 (both forms) are proved, then declared."""
        chk = self.chk
        t = S.DynTr(tag)
        if transparent_abs:
            S.transparent(t, PSP.PhaseSpaceFactorAbs)
        sv = t.val(syms[0]).re
        req = self.masses_req(t, syms) + self.regions(t, syms)[region]
        mt = "m.m" if syms[1] is syms[2] else "m1.m2"
        ssign = -1 if region == "neg" else 1
        nm = self.name(f"region[{region}|{mt}].sign(s)")
        if nm not in self.emitted:
            self.emitted.add(nm)
            chk.smt(nm, t.hyps() + req, sv > 0 if ssign > 0 else sv < 0, function=F + "BreakupMomentumSquared.evaluate", lemma=True, replay=_searcher("q2"))
        S.declare_sign(t, sv, ssign)
        qn = PSP.BreakupMomentumSquared(*syms)
        qs = Q2SIGN["win" if region == "mid" else region]
        for form, expr in (("spec", qn), ("doit", qn.doit())):
            term = t.scalar(expr).re
            nm = self.name(f"region[{region}|{mt}].sign(q2)[{form}]")
            if nm not in self.emitted:
                self.emitted.add(nm)
                chk.smt(nm, t.hyps() + req, term > 0 if qs > 0 else term < 0, function=F + "BreakupMomentumSquared.evaluate", lemma=True, replay=_searcher("q2"))
            S.declare_sign(t, term, qs)
        return t, req

    def axioms(self, prefix: str, t, req, axs, function: str, replay) -> list:
        """Record the axiom instances, emit one obligation per premise, return the implications as hypotheses."""
        hyps = []
        for k, ax in enumerate(axs):
            self.chk.assume(f"axiom {ax.name}: {ax.text} (instantiated; premise proved as '<clause>.axiom-premise...')")
            self.chk.smt(self.name(f"{prefix}.axiom-premise{k + 1}[{ax.name}]"), t.hyps() + req, ax.premise, function=function, lemma=True, replay=replay)
            hyps.append(ax.hyp)
        return hyps


def _q2_term(t, syms, form: str):
    """q^2 as a z3 term: the contract's formula ("spec") or the unfolded BreakupMomentumSquared ("doit"); the two
    are proved equal in `BreakupMomentumSquared.doit==spec`, and their roots are shared when they coincide."""
    qn = PSP.BreakupMomentumSquared(*syms)
    return t.scalar(qn if form == "spec" else qn.doit()).re


def _forms(node):
    return (("spec", lambda: node), ("doit", lambda: node.doit()))


def _log_axioms_real_nonzero(t, logs):
    """For log atoms whose argument is a non-zero real: both instances (positive / negative argument)."""
    axs = []
    for a in logs:
        g = S.log_atom(t, Cx(-a.arg.re), label="ghost log|x|")
        axs += [S.ax_log_pos(a), S.ax_log_neg(t, a, g)]
    return axs


def build(chk: Check) -> None:
    chk.assume("A-arith: floats treated as exact reals; signed zeros and rounding are not modelled")
    chk.assume("A-principal: sqrt, log, atan are the principal branches (numpy's conventions for complex dtype)")
    chk.assume("A-denote: translation table (vlib/tr.py, specs_dyn.DynTr), cross-checked at cover models")
    chk.assume(S.ASSUME_PI)
    chk.assume(S.ASSUME_PURE)
    chk.trust("z3 5.1.0 / cvc5 1.4.0 unsat answers")
    chk.extra["structural_enumeration"] = {
        "classes": [c.__name__ for c in CLASSES], "regions": REGION_TEXT, "forms": ["spec (one level of evaluate + contracts)", "doit (fully unfolded)"],
        "symbol_variants": ["positive masses"] + (["real masses with explicit m > 0"] if chk.tier == "thorough" else []), "exhaustive": True,
    }
    for variant in ("", "real") if chk.tier == "thorough" else ("",):
        g = Gen(chk, variant)
        if variant == "":
            _complex_sqrt(g)
        _q2_group(g)
        _body_meets_spec(g)
        _above(g)
        _window(g)
        _equal_mass(g)
        _continuity(g)
    _selftests(Gen(chk, ""))
    _numeric_instances(chk)


def _numeric_instances(chk: Check) -> None:
    """Bounded, the way the classes are USED: doit() + lambdify, evaluated on the deterministic grid of `search` with real (float)
    dtype where s > 0 and complex dtype everywhere, as one-element arrays and as Python scalars, cse off and on. The E1 obligations are
    about the SymPy trees; the generated NumPy code (ComplexSqrt's printer, dtype promotion in sqrt/log) is only reached here."""
    fmap = {"q2": F + "BreakupMomentumSquared.evaluate", "csqrt": "ampform.sympy.math.ComplexSqrt._numpycode", "above": F + "PhaseSpaceFactorProtocol", "window": F + "PhaseSpaceFactorSWave.evaluate",
            "equal": F + "EqualMassPhaseSpaceFactor.evaluate", "cont": F + "chew_mandelstam_s_wave"}
    for cse, scalars in ((False, False), (True, False), (False, True)):
        for clause in ("q2", "csqrt", "above", "window", "equal", "cont"):
            def rep(_m=None, clause=clause, cse=cse, scalars=scalars):
                old = dict(_MODE)
                _MODE.update(cse=cse, scalars=scalars)
                try:
                    r = search(clauses=(clause,))
                finally:
                    _MODE.update(old)
                if r.get("reproduced"):
                    r["evaluation"] = f"lambdify(cse={cse}), {'Python scalars' if scalars else 'one-element arrays'}"
                return r

            r = rep()
            chk.struct(f"numeric_instances.{clause}[cse={int(cse)};{'scalars' if scalars else 'arrays'}]", not r["reproduced"], fmap[clause], witness=r, replay=rep, bounded=True)


# ---- ComplexSqrt ------------------------------------------------------------------------------------
def _complex_sqrt(g: Gen) -> None:
    chk = g.chk
    t = S.DynTr("cs")
    x = sp.Symbol("x", real=True)
    node = ComplexSqrt(x)
    body = chk.guarded("ComplexSqrt.get_definition", lambda: t.val(node.get_definition()), FM + "ComplexSqrt.get_definition", replay=_searcher("csqrt"))
    if body is None:
        return
    sv = S.csqrt_value(t, t.val(x))
    xv = t.val(x).re
    chk.smt("ComplexSqrt.get_definition==spec", t.hyps(), body.eq(sv), function=FM + "ComplexSqrt.get_definition", lemma=True, replay=_searcher("csqrt"))
    # real-dtype evaluation (numpy float input): every sqrt of the definition sees a non-negative argument on its path
    tr_ = S.DynTr("csr", sqrt_mode="real")
    n0 = len(tr_.wd)
    tr_.val(node.get_definition())
    parts = [c for _, c, _ in tr_.wd[n0:]]
    rep_cs = _replay(check_csqrt, ("x",), _searcher("csqrt"))
    chk.smt("ComplexSqrt.get_definition.sqrt_arguments_nonnegative_on_their_path", tr_.hyps(), z3.And(*parts) if parts else z3.BoolVal(True),
            function=FM + "ComplexSqrt.get_definition", replay=rep_cs)
    chk.smt("ComplexSqrt.spec.principal_root", t.hyps(),
            z3.And((sv * sv).eq(Cx(xv)), sv.re >= 0, sv.imz >= 0, z3.Implies(xv >= 0, sv.imz == 0), z3.Implies(xv < 0, sv.re == 0)),
            function=FM + "ComplexSqrt", lemma=True, replay=_searcher("csqrt"))


# ---- q^2 ----------------------------------------------------------------------------------------------
def _q2_group(g: Gen) -> None:
    chk, fn = g.chk, F + "BreakupMomentumSquared.evaluate"
    syms = (g.s, g.m1, g.m2)
    t = S.DynTr("q2")
    sv, a, b = (t.val(x).re for x in syms)
    req = g.masses_req(t, syms)
    node = PSP.BreakupMomentumSquared(*syms)
    body = chk.guarded(g.name("BreakupMomentumSquared.evaluate"), lambda: t.scalar(node.evaluate()), fn, replay=_searcher("q2"))
    if body is None:
        return
    S.add_wd(chk, g.name("BreakupMomentumSquared.evaluate"), t, req + [sv != 0], fn, replay=_searcher("q2"))
    spec = S.q2_value(t, t.val(g.s), t.val(g.m1), t.val(g.m2))
    chk.smt(g.name("BreakupMomentumSquared.evaluate==spec"), t.hyps() + req + [sv != 0], body.eq(spec), function=fn, lemma=True, replay=_searcher("q2"))
    chk.smt(g.name("BreakupMomentumSquared.doit==spec"), t.hyps() + req + [sv != 0], t.scalar(node.doit()).eq(spec), function=fn, lemma=True, replay=_searcher("q2"))
    swapped = t.scalar(PSP.BreakupMomentumSquared(g.s, g.m2, g.m1).evaluate())
    rep = _replay(check_q2, ("s", "m1", "m2"), _searcher("q2"))
    chk.smt(g.name("BreakupMomentumSquared.symmetric_in_masses"), t.hyps() + req + [sv != 0], body.eq(swapped), function=fn, replay=rep)
    thr, pth = (a + b) * (a + b), (a - b) * (a - b)
    rep0 = _replay(lambda m1, m2: check_q2_zero(m1, m2), ("m1", "m2"), _searcher("q2"))
    chk.smt(g.name("BreakupMomentumSquared.zero_at_threshold"), t.hyps() + req + [sv == thr], body.eq(CZERO), function=fn, replay=rep0)
    chk.smt(g.name("BreakupMomentumSquared.zero_at_pseudo_threshold"), t.hyps() + req + [sv == pth, sv != 0], body.eq(CZERO), function=fn, replay=rep0)
    chk.smt(g.name("BreakupMomentumSquared.positive_above_threshold"), t.hyps() + req + [sv > thr], z3.And(body.re > 0, body.imz == 0), function=fn, replay=rep)
    chk.smt(g.name("BreakupMomentumSquared.negative_in_window"), t.hyps() + req + [sv > pth, sv < thr], z3.And(body.re < 0, body.imz == 0), function=fn, replay=rep)
    chk.cover(g.name("BreakupMomentumSquared.cover"), t.hyps() + req + [sv > thr, a != b], fn, model_check=e1.cover_check(t, body, node))


# ---- body meets spec, per class and region -------------------------------------------------------------
def _body_meets_spec(g: Gen) -> None:
    chk = g.chk
    syms = (g.s, g.m1, g.m2)
    for region in ("neg", "sub", "win", "above"):
        for cls in CLASSES:
            nm = cls.__name__
            if cls is PSP.PhaseSpaceFactorAbs and region == "neg":
                continue  # contract requires s > 0; transparent for s < 0
            fn = F + nm + ".evaluate"
            rep = _searcher("above", "window", "equal", "cont", classes=(cls,), regions=("above", "mid") if region != "neg" else ("neg",))

            def gen(cls=cls, nm=nm, fn=fn, rep=rep, region=region):
                t, req = g.region_tr(f"bs{region}", region, syms, transparent_abs=(region == "neg"))
                node = cls(*syms)
                n0 = len(t.wd)
                body = t.scalar(node.evaluate())
                S.add_wd(chk, g.name(f"{nm}.evaluate[{region}]"), t, req, fn, start=n0, replay=rep)
                spec = t.specs[cls](t, node)
                chk.smt(g.name(f"{nm}.evaluate==spec[{region}]"), t.hyps() + S.congruence(t) + req, body.eq(spec), function=fn, lemma=True, replay=rep)

            chk.guarded(g.name(f"{nm}.evaluate[{region}]"), gen, fn, replay=rep)


# ---- above threshold: Re rho_X = 2 sqrt(q^2)/sqrt(s) ------------------------------------------------------
def _above(g: Gen) -> None:
    chk = g.chk
    syms = (g.s, g.m1, g.m2)
    for cls in CLASSES:
        nm = cls.__name__
        fn = F + nm + ".evaluate"
        rep = _replay(functools.partial(check_above, cls), ("s", "m1", "m2"), _searcher("above", classes=(cls,)))
        for form, mk in _forms(cls(*syms)):

            def gen(cls=cls, nm=nm, fn=fn, rep=rep, form=form, mk=mk):
                t, req = g.region_tr(f"ab{form}", "above", syms)
                n0, a0 = len(t.wd), len(S.atoms(t))
                val = t.scalar(mk())
                S.add_wd(chk, g.name(f"{nm}.above_threshold[{form}]"), t, req, fn, start=n0, replay=_searcher("above", classes=(cls,)))
                logs = [a for a in S.atoms(t)[a0:] if a.kind == "log"]
                axs = _log_axioms_real_nonzero(t, logs)
                for k, a in enumerate(logs):
                    chk.smt(g.name(f"{nm}.above_threshold[{form}].log{k + 1}.argument_real_nonzero"), t.hyps() + req, z3.And(a.arg.imz == 0, a.arg.re != 0),
                            function=fn, lemma=True, replay=_searcher("above", classes=(cls,)))
                for ax in axs:
                    chk.assume(f"axiom {ax.name}: {ax.text} (instantiated; premise: the argument is a non-zero real)")
                rq, rs = S.root_abs(t, _q2_term(t, syms, form)), S.root_abs(t, t.val(g.s).re)
                hy = t.hyps() + S.congruence(t) + [ax.hyp for ax in axs] + req
                chk.smt(g.name(f"{nm}.above_threshold.Re==2sqrt(q2)/sqrt(s)[{form}]"), hy, val.re == 2 * rq / rs, function=fn, replay=rep, lemma=(form == "spec"))
                if form == "spec":
                    mc = e1.cover_check(t, val, cls(*syms)) if not logs else S.cover_check_complex(t, val, cls(*syms))
                    sv, a, b = (t.val(x).re for x in syms)
                    chk.cover(g.name(f"{nm}.above_threshold.cover"), t.hyps() + req + [a != b], fn, model_check=mc)

            chk.guarded(g.name(f"{nm}.above_threshold[{form}]"), gen, fn, replay=_searcher("above", classes=(cls,)))


# ---- window: rho_Complex = i rho_Abs -------------------------------------------------------------------------
def _window(g: Gen) -> None:
    chk = g.chk
    syms = (g.s, g.m1, g.m2)
    fn = F + "PhaseSpaceFactorComplex.evaluate"
    rep = _replay(check_window, ("s", "m1", "m2"), _searcher("window"))
    nc, na = PSP.PhaseSpaceFactorComplex(*syms), PSP.PhaseSpaceFactorAbs(*syms)
    for form in ("spec", "doit"):

        def gen(form=form):
            t, req = g.region_tr(f"win{form}", "win", syms)
            n0 = len(t.wd)
            vc = t.scalar(nc if form == "spec" else nc.doit())
            va = t.scalar(na if form == "spec" else na.doit())
            S.add_wd(chk, g.name(f"window[{form}]"), t, req, fn, start=n0, replay=_searcher("window"))
            chk.smt(g.name(f"window.rho_Complex==i*rho_Abs[{form}]"), t.hyps() + req, vc.eq(CI * va), function=fn, replay=rep, lemma=(form == "spec"))
            if form == "spec":
                chk.smt(g.name("window.rho_Abs>0"), t.hyps() + req, z3.And(va.re > 0, va.imz == 0), function=F + "PhaseSpaceFactorAbs.evaluate", replay=rep)

                def mc(model, t=t, vc=vc, va=va):
                    return S.cover_check_complex(t, vc, nc)(model) or S.cover_check_complex(t, va, na, dtype=float)(model)

                chk.cover(g.name("window.cover"), t.hyps() + req, fn, model_check=mc)

        chk.guarded(g.name(f"window[{form}]"), gen, fn, replay=_searcher("window"))


# ---- equal masses: EqualMass(s,m,m) = SWave(s,m,m) in three regions ---------------------------------------------
def _equal_mass(g: Gen) -> None:
    chk = g.chk
    syms = (g.s, g.m, g.m)
    fn = F + "EqualMassPhaseSpaceFactor.evaluate"
    ne, nw = PSP.EqualMassPhaseSpaceFactor(*syms), PSP.PhaseSpaceFactorSWave(*syms)
    for region in ("above", "mid", "neg"):
        srch = _searcher("equal", regions=(region,))
        rep = _replay(check_equal, ("s", "m"), srch)
        for form in ("spec", "doit"):

            def gen(region=region, form=form, srch=srch, rep=rep):
                t, req = g.region_tr(f"eq{region}{form}", region, syms, transparent_abs=(region == "neg"))
                n0, a0 = len(t.wd), len(S.atoms(t))
                ve = t.scalar(ne if form == "spec" else ne.doit())
                a1 = len(S.atoms(t))
                vw = t.scalar(nw if form == "spec" else nw.doit())
                pre = g.name(f"equal_mass[{region}][{form}]")
                S.add_wd(chk, pre, t, req, fn, start=n0, replay=srch)
                # log(m/m) of the S-wave formula is multiplied by m^2 - m^2: no axiom needed for it
                eq_logs = [a for a in S.atoms(t)[a0:a1] if a.kind == "log" and not _only_masses(a.arg)]
                sw_logs = [a for a in S.atoms(t)[a1:] if a.kind == "log" and not _only_masses(a.arg)]
                axs = []
                if region == "above":
                    for A in sw_logs:
                        C = S.log_atom(t, Cx(-A.arg.re), label="ghost log|x|")
                        axs.append(S.ax_log_neg(t, A, C))
                        axs += [S.ax_log_recip(C, B) for B in eq_logs]
                elif region == "mid":
                    for A in sw_logs:
                        th = S.arg_atom(t, "ghost Arg")
                        T = S.atan_atom(t, Cx(A.arg.imz / (1 + A.arg.re)), label="ghost atan(sin/(1+cos))")
                        axs += [S.ax_log_unit(A, th), S.ax_arg_atan(th, A.arg, T)]
                else:
                    axs += [S.ax_log_recip(A, B) for A in sw_logs for B in eq_logs]
                hy = g.axioms(pre, t, req, axs, fn, srch)
                chk.smt(g.name(f"equal_mass[{region}].EqualMass==SWave[{form}]"), t.hyps() + S.congruence(t) + hy + req, ve.eq(vw), function=fn, replay=rep, lemma=(form == "spec"))
                if form == "spec":

                    def mc(model, t=t, ve=ve, vw=vw):
                        return S.cover_check_complex(t, ve, ne)(model) or S.cover_check_complex(t, vw, nw)(model)

                    chk.cover(g.name(f"equal_mass[{region}].cover"), t.hyps() + req, fn, model_check=mc)

            chk.guarded(g.name(f"equal_mass[{region}][{form}]"), gen, fn, replay=srch)


# ---- continuity at threshold: squeeze ---------------------------------------------------------------------------
def _continuity(g: Gen) -> None:
    chk = g.chk
    syms = (g.s, g.m1, g.m2)
    fa, fe, fw = F + "PhaseSpaceFactorAbs.evaluate", F + "EqualMassPhaseSpaceFactor.evaluate", F + "PhaseSpaceFactorSWave.evaluate"
    se = _searcher("cont", classes=(PSP.EqualMassPhaseSpaceFactor,))
    sw = _searcher("cont", classes=(PSP.PhaseSpaceFactorSWave,))

    # (i) rho-hat near threshold: rho-hat^2 = |s - s_thr| (s - (m1-m2)^2)/s^2  and an explicit modulus of continuity
    def gen_rho():
        t = S.DynTr("rh")
        sv, a, b = (t.val(x).re for x in syms)
        thr, pth = (a + b) * (a + b), (a - b) * (a - b)
        req = g.masses_req(t, syms) + [sv > pth, sv > 0]
        S.declare_sign(t, sv, 1)
        rho = t.scalar(PSP.PhaseSpaceFactorAbs(*syms))
        d = z3.If(sv >= thr, sv - thr, thr - sv)
        chk.smt(g.name("continuity.rho_hat^2==|s-s_thr|(s-s_pth)/s^2"), t.hyps() + req, z3.And(rho.imz == 0, rho.re >= 0, rho.re * rho.re * sv * sv == d * (sv - pth)),
                function=fa, lemma=True, replay=se)
        chk.smt(g.name("continuity.rho_hat^2<=2|s-s_thr|/s_thr"), t.hyps() + req + [2 * sv >= thr], rho.re * rho.re * thr <= 2 * d, function=fa, lemma=True, replay=se)
        chk.smt(g.name("continuity.0<rho_hat<1_above_threshold"), t.hyps() + req + [sv > thr], z3.And(rho.re > 0, rho.re < 1), function=fa, lemma=True, replay=se)

    chk.guarded(g.name("continuity.rho_hat"), gen_rho, fa, replay=se)

    # (ii) EqualMassPhaseSpaceFactor.evaluate() with rho-hat bound to a free variable
    def gen_eq(side):
        t = S.DynTr(f"ce{side}")
        sv, a, b = (t.val(x).re for x in syms)
        thr = (a + b) * (a + b)
        rho = z3.Real("rho_hat")
        t.bind(PSP.PhaseSpaceFactorAbs(*syms), Cx(rho))
        pi = S.pi_value(t).re
        val = t.scalar(PSP.EqualMassPhaseSpaceFactor(*syms).evaluate())
        rep = _replay(lambda m1, m2: check_cont(PSP.EqualMassPhaseSpaceFactor, m1, m2), ("m1", "m2"), se)
        if side == "below":
            req = g.masses_req(t, syms) + [sv > 0, sv < thr, rho > 0]
            axs = [S.ax_atan_bound(t, x) for x in S.atoms(t, "atan")]
            hy = g.axioms(g.name("continuity.EqualMass.below"), t, req, axs, fe, se)
            chk.smt(g.name("continuity.EqualMass.below:|rho_eq|<=rho_hat"), t.hyps() + hy + req, z3.And(val.re == 0, val.imz <= rho, val.imz >= -rho), function=fe, replay=rep)
        else:
            req = g.masses_req(t, syms) + [sv > thr, rho > 0, rho < 1]
            axs = []
            for B in S.atoms(t, "log"):
                G = S.log_atom(t, Cx(1 / B.arg.re), label="ghost log(1/x)")
                axs += [S.ax_log_le(B), S.ax_log_le(G), S.ax_log_recip(G, B)]
            hy = g.axioms(g.name("continuity.EqualMass.above"), t, req, axs, fe, se)
            chk.smt(g.name("continuity.EqualMass.above:Re==rho_hat;0<=Im<=2rho_hat^2/(pi(1-rho_hat))"), t.hyps() + hy + req,
                    z3.And(val.re == rho, val.imz >= 0, val.imz * pi * (1 - rho) <= 2 * rho * rho), function=fe, replay=rep)
            chk.smt(g.name("continuity.EqualMass.above:g<=2rho_hat_for_rho_hat<=1/2"), list(t.assm) + [rho > 0, 2 * rho <= 1],
                    rho + 2 * rho * rho / (pi * (1 - rho)) <= 2 * rho, function=fe, lemma=True, replay=se)
        chk.cover(g.name(f"continuity.EqualMass.{side}.cover"), t.hyps() + req, fe)

    for side in ("below", "above"):
        chk.guarded(g.name(f"continuity.EqualMass.{side}"), functools.partial(gen_eq, side), fe, replay=se)

    # (iii) PhaseSpaceFactorSWave, general masses
    node = PSP.PhaseSpaceFactorSWave(*syms)
    repw = _replay(lambda m1, m2: check_cont(PSP.PhaseSpaceFactorSWave, m1, m2), ("m1", "m2"), sw)

    def gen_sw(side, form):
        region = "above" if side == "above" else "win"
        t, req = g.region_tr(f"cw{side}{form}", region, syms)
        sv, a, b = (t.val(x).re for x in syms)
        thr = (a + b) * (a + b)
        pi = S.pi_value(t).re
        a0 = len(S.atoms(t))
        val = t.scalar(node if form == "spec" else node.doit())
        logs = [x for x in S.atoms(t)[a0:] if x.kind == "log"]
        rq, rs = S.root_abs(t, _q2_term(t, syms, form)), S.root_abs(t, sv)
        rho = 2 * rq / rs
        # the mass-ratio logarithm is the atom with a positive real argument; the others are Chew-Mandelstam logs
        pre = g.name(f"continuity.SWave.{side}[{form}]")
        axs, bounds, lm_abs = [], [], []
        for k, L in enumerate(logs):
            if _only_masses(L.arg):  # log(m1/m2): independent of s
                axs.append(S.ax_log_pos(L))
                lm_abs.append(z3.If(L.val.re >= 0, L.val.re, -L.val.re))
            elif side == "above":
                Cg = S.log_atom(t, Cx(-L.arg.re), label="ghost log|x|")
                Cr = S.log_atom(t, Cx(-1 / L.arg.re), label="ghost log(1/|x|)")
                axs += [S.ax_log_neg(t, L, Cg), S.ax_log_recip(Cg, Cr), S.ax_log_le(Cg), S.ax_log_le(Cr)]
                bounds.append(-1 / L.arg.re - 1)
            else:
                th = S.arg_atom(t, "ghost Arg")
                T = S.atan_atom(t, Cx(L.arg.imz / (1 + L.arg.re)), label="ghost atan(sin/(1+cos))")
                axs += [S.ax_log_unit(L, th), S.ax_arg_atan(th, L.arg, T), S.ax_atan_bound(t, T)]
        hy = g.axioms(pre, t, req, axs, fw, sw)
        lm = sum(lm_abs) if lm_abs else R(0)
        d = sv - thr if side == "above" else thr - sv
        tail = z3.If(a * a - b * b >= 0, a * a - b * b, b * b - a * a) * d / (sv * thr) * lm
        H = t.hyps() + S.congruence(t) + hy + req
        absim = z3.If(val.imz >= 0, val.imz, -val.imz)
        if side == "above":
            e = sum(bounds) if bounds else R(0)
            chk.smt(g.name(f"continuity.SWave.above:Re==rho_hat;pi|Im|<=rho_hat(1/|arg|-1)+tail[{form}]"), H, z3.And(val.re == rho, absim * pi <= rho * e + tail), function=fw, replay=repw, lemma=(form == "spec"))
            if form == "spec" and bounds:
                chk.smt(g.name("continuity.SWave.above:1/|arg|-1==(s-s_thr+2sqrt(s)q)/(2m1m2)"), t.hyps() + req, e * (2 * a * b) == sv - thr + 2 * rs * rq, function=fw, lemma=True, replay=sw)
                chk.smt(g.name("continuity.SWave.above:2sqrt(s)q<=s"), t.hyps() + req, 2 * rs * rq <= sv, function=fw, lemma=True, replay=sw)
                W, ro, x, y, ab = z3.Reals("W rho_ s_ thr_ ab_")
                chk.smt(g.name("continuity.SWave.above:g_vanishes"), [ro > 0, ro < 1, y > 0, x > y, x <= 2 * y, W >= 0, W <= x, ab > 0],
                        z3.And(ro * (x - y + W) / (2 * ab) <= ro * 3 * y / (2 * ab), (x - y) / (x * y) <= (x - y) / (y * y)), function=fw, lemma=True, replay=sw)
        else:
            chk.smt(g.name(f"continuity.SWave.below:Re==0;pi|Im|<=pi*rho_hat+tail[{form}]"), H, z3.And(val.re == 0, absim * pi <= rho * pi + tail), function=fw, replay=repw, lemma=(form == "spec"))
        if form == "spec":
            chk.cover(g.name(f"continuity.SWave.{side}.cover"), t.hyps() + req + [a != b], fw, model_check=S.cover_check_complex(t, val, node))

    for side in ("below", "above"):
        for form in ("spec", "doit"):
            chk.guarded(g.name(f"continuity.SWave.{side}[{form}]"), functools.partial(gen_sw, side, form), fw, replay=sw)

    def gen_thr():
        t = S.DynTr("thr")
        sv, a, b = (t.val(x).re for x in syms)
        req = g.masses_req(t, syms) + [sv == (a + b) * (a + b)]
        for form in ("spec", "doit"):
            val = t.scalar(node if form == "spec" else node.doit())
            chk.smt(g.name(f"continuity.SWave(s_thr)==0[{form}]"), t.hyps() + req, val.eq(CZERO), function=fw, replay=repw, lemma=(form == "spec"))

    chk.guarded(g.name("continuity.SWave.at_threshold"), gen_thr, fw, replay=sw)
    if g.variant == "":
        bad = None
        for m1, m2 in MASSES:
            for dt in (float, complex):
                v = real_value(PSP.EqualMassPhaseSpaceFactor, (m1 + m2) ** 2, m1, m2, dtype=dt)
                if _bad(v, 0.0, 1e-12):
                    bad = {"s": (m1 + m2) ** 2, "m1": m1, "m2": m2, "observed": str(v), "dtype": dt.__name__}
        chk.struct("continuity.EqualMass(s_thr)==0[IEEE instance]", bad is None, fe, witness=bad, bounded=True, replay=lambda model: {"reproduced": bad is not None, "input": bad, "expected": 0})


def _only_masses(arg: Cx) -> bool:
    """Is the atom's argument a function of the masses alone (log(m1/m2))? Generator-side classification only
    (which axiom schema to instantiate for an atom); every instance's premise is still a proof obligation, so a
    wrong classification can only lose a proof, never gain one."""
    seen, todo, names = set(), [arg.re, arg.imz], set()
    while todo:
        x = todo.pop()
        if x.get_id() in seen:
            continue
        seen.add(x.get_id())
        if z3.is_const(x) and x.decl().kind() == z3.Z3_OP_UNINTERPRETED:
            names.add(x.decl().name())
        todo.extend(x.children())
    return names <= {"m", "m1", "m2"}


# ---- engine self-tests ---------------------------------------------------------------------------------------------
def _selftests(g: Gen) -> None:
    chk = g.chk
    syms = (g.s, g.m1, g.m2)
    t, req = _plain_region(g, "win")
    vc, va = t.scalar(PSP.PhaseSpaceFactorComplex(*syms)), t.scalar(PSP.PhaseSpaceFactorAbs(*syms))
    chk.mustfail("selftest.window.rho_Complex==rho_Abs(without_i)", t.hyps() + req, vc.eq(va), function=F + "PhaseSpaceFactorComplex.evaluate")
    t, req = _plain_region(g, "above")
    v = t.scalar(PSP.PhaseSpaceFactor(*syms))
    q2 = S.q2_value(t, t.val(g.s), t.val(g.m1), t.val(g.m2))
    chk.mustfail("selftest.above.Re==sqrt(q2)/sqrt(s)(factor_2_missing)", t.hyps() + req, v.re == S.root_abs(t, q2.re) / S.root_abs(t, t.val(g.s).re), function=F + "PhaseSpaceFactor.evaluate")
    # without the log axioms the S-wave clause must not be provable (the atoms are really uninterpreted)
    v = t.scalar(PSP.PhaseSpaceFactorSWave(*syms))
    chk.mustfail("selftest.above.SWave_without_log_axioms", t.hyps() + req, v.re == 2 * S.root_abs(t, q2.re) / S.root_abs(t, t.val(g.s).re), function=F + "PhaseSpaceFactorSWave.evaluate")


def _plain_region(g: Gen, region: str):
    syms = (g.s, g.m1, g.m2)
    t = S.DynTr("st" + region)
    return t, g.regions(t, syms)[region]
