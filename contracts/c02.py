"""C02 — model intensity equals the helicity formula evaluated on the transitions.

Spec function (written from the property statement, using only qrules' data model and the *naming* functions):
  I_spec = sum over outer spin projections of | sum over transitions t with those projections, over the identical-particle
           permutations of t, of  coeff(t) * parity_sign(t) * prod over nodes n of
           conj D^J_{m, l1-l2}(phi_n, theta_n) * [CG(L,0;S,d|J,d) CG(s1,l1;s2,-l2|S,d) if canonical] * lineshape_n |^2
  with (l1, l2) = (helicity state, opposite-helicity state) of node n, the helicity state being the child whose tuple of
  attached final-state ids is the smaller one, (phi_n, theta_n) the angle symbols named after that child,
  parity_sign(t) = product of eta over the flipped nodes (C03's contract), lineshape_n = B(node's own variables) for an
  opaque builder B, coeff(t) the coefficient symbol named by the name generator (or the product of helicity couplings).
Obligations per zoo model (bounded=True): the model's intensity has the documented shape (PoolSum over the observed
projections of |sum over topologies of A_top[indices]|^2); every amplitude definition equals the spec's coherent partial sum
(tree equality after AC-normalisation; otherwise decided by z3 as a polynomial identity over the WignerD / CG / lineshape
atoms); amplitudes of projection tuples without transitions are 0; every named component equals the spec's partial sum.
Unbounded lemmas (E1): WignerD(j,m,m',-phi,theta,0) = conj D^j_{m m'}(phi,theta,0) = exp(+i m phi) d^j_{m m'}(theta) for
all angles, j <= 3/2 (quick) / 3 (thorough).
"""

from __future__ import annotations

import itertools
import random
from fractions import Fraction

import sympy as sp
import z3
from sympy.physics.quantum.cg import CG
from sympy.physics.quantum.spin import Rotation, WignerD

from contracts.c03 import expected_prefactor
from vlib import models, zoo
from vlib.core import Check
from vlib.tr import Cx, Tr

LEVEL = "other"
ENGINE = "E5 harness + E1 exprvc"
TECHNIQUE = "postcondition of formulate() against a spec function written from the statement: tree equality / z3 polynomial identity per zoo model; WignerD conjugation lemmas by z3"
CLAIM = (
    "For every zoo reaction (both formalisms) x {coefficients, helicity couplings} x naming flags x {no dynamics, opaque builder}, each amplitude definition, each named "
    "component and the shape of the intensity of the real formulate() output equal the spec function built from the qrules transitions (exact symbolic comparison, valid "
    "for all angles / parameter values); the conj-Wigner-D lemma is proved for all angles. Bounded in the space of reactions (level 'other')."
)
NOTE = (
    "Bound: the reaction zoo (vlib/zoo.py). The spec takes symbol NAMES from ampform's naming functions (what the angles/masses must denote is C07; which chains share a "
    "coefficient and the parity sign are C03). SymPy's automatic flattening/ordering of Add and Mul is trusted as semantics-preserving; qrules' "
    "perform_external_edge_identical_particle_combinatorics is compared with the spec's own enumeration of identical-particle permutations."
)
F = "ampform.helicity.HelicityAmplitudeBuilder.formulate"


# --------------------------------------------------------------------------------------------------- spec function
class OpaqueBuilder:
    """A lineshape builder that cannot be inspected: B(tag, s, m_a, m_b, L) with a default per resonance."""

    def __call__(self, resonance, variable_pool):
        tag = sp.Symbol(f"tag_{resonance.name}")
        L = variable_pool.angular_momentum
        expr = sp.Function("B")(tag, variable_pool.incoming_state_mass, variable_pool.outgoing_state_mass1, variable_pool.outgoing_state_mass2,
                                sp.Integer(L) if L is not None else sp.Symbol("L_undefined"))
        return expr, {tag: 1.0}


def attached(topology, edge_id) -> tuple[int, ...]:
    """Final-state ids reachable from an edge (independent re-implementation)."""
    if edge_id in topology.outgoing_edge_ids:
        return (edge_id,)
    node = topology.edges[edge_id].ending_node_id
    out: list[int] = []
    for e in sorted(topology.get_edge_ids_outgoing_from_node(node)):
        out += attached(topology, e)
    return tuple(sorted(out))


def node_info(t, node):
    top = t.topology
    (parent,) = top.get_edge_ids_ingoing_to_node(node)
    c = sorted(top.get_edge_ids_outgoing_from_node(node), key=lambda e: attached(top, e))
    return parent, c[0], c[1]  # parent, helicity state, opposite-helicity state


def mass_symbol(top, edge_id):
    return sp.Symbol("m_" + "".join(map(str, attached(top, edge_id))), nonnegative=True)


def spec_node(t, node, canonical: bool, opaque: bool):
    from ampform.helicity.naming import get_helicity_angle_symbols

    top = t.topology
    parent, c1, c2 = node_info(t, node)
    sp_, s1, s2 = t.states[parent], t.states[c1], t.states[c2]
    phi, theta = get_helicity_angle_symbols(top, c1)
    lam = sp.Rational(s1.spin_projection) - sp.Rational(s2.spin_projection)
    J = sp.Rational(sp_.particle.spin)
    out = Rotation.D(J, sp.Rational(sp_.spin_projection), lam, -phi, theta, 0)  # = conj D^J_{m,lam}(phi, theta, 0), lemma below
    inter = t.interactions[node]
    if canonical:
        L, S = sp.Rational(inter.l_magnitude), sp.Rational(inter.s_magnitude)
        cg = sp.Mul(CG(L, 0, S, lam, J, lam), CG(sp.Rational(s1.particle.spin), sp.Rational(s1.spin_projection), sp.Rational(s2.particle.spin),
                                                  -sp.Rational(s2.spin_projection), S, lam), evaluate=False)
        out = cg * out
    if opaque and parent not in top.incoming_edge_ids:
        Lv = inter.l_magnitude
        if Lv is None and float(sp_.particle.spin).is_integer():
            Lv = int(sp_.particle.spin)
        out = out * sp.Function("B")(sp.Symbol(f"tag_{sp_.particle.name}"), mass_symbol(top, parent), mass_symbol(top, c1), mass_symbol(top, c2),
                                     sp.Integer(Lv) if Lv is not None else sp.Symbol("L_undefined"))
    return out


def spec_chain(builder, t, canonical: bool, opaque: bool, couplings: bool):
    factors = [spec_node(t, n, canonical, opaque) for n in t.topology.nodes]
    expr = sp.Mul(*factors)
    if couplings:
        for n in t.topology.nodes:
            expr = sp.Symbol(f"H_{{{builder.naming.generate_two_body_decay_suffix(t, n)}}}") * expr
    else:
        expr = sp.Symbol(f"C_{{{builder.naming.generate_sequential_amplitude_suffix(t)}}}") * expr
    pf, _ = expected_prefactor(builder, t)
    if pf != 1:
        expr = expr * sp.Rational(pf)
    return expr


def identical_permutations(t):
    """Symmetrisation over identical final-state particles: every exchange of the POSITIONS of identical particles in the decay
    tree, i.e. every relabelling of final-state edge ids among edges that carry the same particle (the states move with their
    edges); graphs that coincide (same topology and same states) are counted once."""
    import attrs

    fs = sorted(t.topology.outgoing_edge_ids)
    by_name: dict[str, list[int]] = {}
    for i in fs:
        by_name.setdefault(t.states[i].particle.name, []).append(i)
    groups = list(by_name.values())
    seen, out = set(), []

    def origin(i):
        return next(n for n in t.topology.nodes if i in t.topology.get_edge_ids_outgoing_from_node(n))

    def placements(ids):
        # an exchange of identical particles is a NEW term only if it changes which node each of them comes from: two particles that
        # leave the same node are the two daughters of one decay, and the graph with their projections exchanged is simply another
        # helicity transition of the reaction (qrules: "only identical particles which do not exit the same node allow for combinatorics")
        kept, keys = [], set()
        for perm in itertools.permutations(ids):
            k = tuple(sorted(zip(perm, [origin(i) for i in ids])))
            if k not in keys:
                keys.add(k)
                kept.append(perm)
        return kept

    for perms in itertools.product(*[placements(ids) for ids in groups]):
        mapping = {}
        for ids, perm in zip(groups, perms):
            mapping.update(dict(zip(ids, perm)))
        top = t.topology.relabel_edges(mapping) if any(k != v for k, v in mapping.items()) else t.topology
        states = {mapping.get(i, i): s for i, s in t.states.items()}
        key = (top, tuple((i, states[i].particle.name, float(states[i].spin_projection)) for i in sorted(states)))
        if key in seen:
            continue
        seen.add(key)
        out.append(attrs.evolve(t, topology=top, states=states))
    return out


def outer_ids(t):
    return list(t.topology.incoming_edge_ids) + sorted(t.topology.outgoing_edge_ids)


def group_key(t):
    ini = tuple(sorted((t.states[i].particle.name, float(t.states[i].spin_projection)) for i in t.topology.incoming_edge_ids))
    fin = tuple(sorted((t.states[i].particle.name, float(t.states[i].spin_projection)) for i in t.topology.outgoing_edge_ids))
    return ini, fin


def outer_projections(g, ids) -> tuple:
    """The outer spin projections a (permuted) graph really carries, per state id -- the index tuple of the amplitude it belongs to."""
    return tuple(sp.Rational(g.states[i].spin_projection) for i in ids)


def spec_model(builder, reaction, canonical, opaque, couplings):
    """(amplitudes: {(topology, outer projections per state id): Add}, chain terms, pools).
    The statement: for every choice of outer projections, the COHERENT sum over all (symmetrised) chains with THOSE outer projections;
    different outer projections are summed incoherently. The key is therefore the tuple of projections per final/initial-state ID of
    the graph itself -- not the sorted multiset (name, projection) that `group_by_spin_projection` uses, which merges
    (gamma_0: -1, gamma_2: +1) with (gamma_0: +1, gamma_2: -1) when two identical particles carry different projections."""
    amps: dict = {}
    chains = []
    pools: dict[int, set] = {}
    ids = outer_ids(reaction.transitions[0])
    for t in reaction.transitions:
        for i in outer_ids(t):
            pools.setdefault(i, set()).add(sp.Rational(t.states[i].spin_projection))
        for g in identical_permutations(t):
            term = spec_chain(builder, g, canonical, opaque, couplings)
            amps.setdefault((t.topology, outer_projections(g, ids)), []).append(term)
            chains.append((g, term))
    return {k: sp.Add(*v) for k, v in amps.items()}, chains, pools


# --------------------------------------------------------------------------------------------------- comparison
def canon(e):
    """AC-normalise: rebuild every Add/Mul with evaluation on (flattens unevaluated products)."""
    return e.replace(lambda x: x.is_Mul or x.is_Add, lambda x: x.func(*x.args))


def same(a, b) -> bool:
    return a == b or canon(a) == canon(b)


def smt_identity(chk, name, a, b, replay):
    """a == b as a polynomial identity with every WignerD / CG / function atom an independent complex variable."""
    tr = Tr("c02")
    for atom in (a.atoms(WignerD) | b.atoms(WignerD) | a.atoms(CG) | b.atoms(CG) | a.atoms(sp.core.function.AppliedUndef) | b.atoms(sp.core.function.AppliedUndef)):
        tr.bind(atom, tr.opaque_atom(atom))
    try:
        va, vb = tr.scalar(a), tr.scalar(b)
    except Exception as e:  # noqa: BLE001
        chk.struct(name + ".translatable", False, F, witness=str(e)[:200], replay=replay, bounded=True, lemma=True)
        return
    chk.smt(name, tr.hyps(), va.eq(vb), function=F, replay=replay, bounded=True)


def numeric_probe(a, b, seed=1):
    """Evaluate both trees at a random point (angles, coefficients, B-values random): used by replays."""
    rnd = random.Random(seed)
    syms = sorted((a.free_symbols | b.free_symbols), key=str)
    subs = {s: (sp.Float(rnd.uniform(0.2, 2.5)) if s.name.startswith(("theta", "phi", "m_", "tag")) else sp.Float(rnd.uniform(-1, 1)) + sp.I * sp.Float(rnd.uniform(-1, 1))) for s in syms}
    fa = {f: sp.Float(rnd.uniform(0.5, 1.5)) + sp.I * sp.Float(rnd.uniform(-1, 1)) for f in (a.atoms(sp.core.function.AppliedUndef) | b.atoms(sp.core.function.AppliedUndef))}
    va = complex(sp.N(a.xreplace(fa).xreplace(subs).doit()))
    vb = complex(sp.N(b.xreplace(fa).xreplace(subs).doit()))
    return va, vb, {str(k): str(v) for k, v in list(subs.items())[:12]}


CONFIGS_QUICK = [
    dict(), dict(couplings=True), dict(opaque=True), dict(parent_hel=True), dict(child_hel=False, parent_hel=True), dict(opaque=True, couplings=True, parent_hel=True),
]


def check_model(chk: Check, name: str, formalism: str, couplings=False, opaque=False, parent_hel=False, child_hel=True) -> None:
    import ampform
    from ampform.helicity.naming import create_amplitude_base, create_spin_projection_symbol
    from ampform.sympy import PoolSum

    models.quiet()
    canonical = formalism != "helicity"
    tag = f"{name}/{'can' if canonical else 'hel'}/couplings={int(couplings)}/opaque_dyn={int(opaque)}/parent_hel={int(parent_hel)}/child_hel={int(child_hel)}"

    def make():
        r = zoo.reaction(name, formalism)
        b = ampform.get_builder(r)
        b.naming.insert_parent_helicities = parent_hel
        b.naming.insert_child_helicities = child_hel
        b.config.use_helicity_couplings = couplings
        if opaque:
            for pname in r.get_intermediate_particles().names:
                b.dynamics.assign(pname, OpaqueBuilder())
        return r, b, b.formulate()

    def replay(_m=None):
        r, b, model = make()
        spec, chains, pools = spec_model(b, r, canonical, opaque, couplings)
        ids = outer_ids(r.transitions[0])
        for (top, idx_), want in spec.items():
            sym = create_amplitude_base(top)[idx_]
            got = model.amplitudes.get(sym)
            if got is None:
                return {"reproduced": True, "input": tag, "observed": f"amplitude {sym} not defined", "expected": str(want)[:300]}
            if not same(got, want):
                va, vb, point = numeric_probe(got, want)
                if abs(va - vb) > 1e-9 * (1 + abs(vb)):
                    return {"reproduced": True, "input": {"model": tag, "amplitude": str(sym), "point": point}, "observed": str(va), "expected": str(vb),
                            "model_definition": str(got)[:400], "spec": str(want)[:400]}
        by_name: dict = {}
        for g, term in chains:
            by_name.setdefault(f"A_{{{b.naming.generate_amplitude_name(g)}}}", []).append(term)
        for cname, terms in by_name.items():
            term = sp.Add(*terms)
            got = model.components.get(cname)
            if got is None or not same(got, term):
                if got is None:
                    return {"reproduced": True, "input": tag, "observed": f"component {cname} missing"}
                va, vb, point = numeric_probe(got, term)
                if abs(va - vb) > 1e-9 * (1 + abs(vb)):
                    return {"reproduced": True, "input": {"model": tag, "component": cname, "point": point}, "observed": str(va), "expected": str(vb)}
        return {"reproduced": False}

    try:
        r, b, model = make()
    except Exception as e:  # noqa: BLE001
        chk.struct(f"formulate.succeeds[{tag}]", False, F, witness=f"{type(e).__name__}: {e}"[:300], bounded=True, replay=replay)
        return
    spec, chains, pools = spec_model(b, r, canonical, opaque, couplings)
    ids = outer_ids(r.transitions[0])
    # (1) shape of the intensity
    tops = list(dict.fromkeys(t.topology for t in r.transitions))
    idx = [create_spin_projection_symbol(i) for i in ids]
    want_summand = sp.Abs(sp.Add(*[create_amplitude_base(top)[idx] for top in tops])) ** 2
    inten = model.intensity
    shape_ok = isinstance(inten, PoolSum) and inten.expression == want_summand
    chk.struct(f"intensity.summand_is_abs2_of_sum_over_topologies[{tag}]", shape_ok, F, witness=str(getattr(inten, 'expression', inten))[:200], bounded=True, replay=replay)
    got_pools = {str(s): sorted(v) for s, v in inten.indices} if isinstance(inten, PoolSum) else {}
    want_pools = {str(create_spin_projection_symbol(i)): sorted(pools[i]) for i in ids}
    chk.struct(f"intensity.pools_are_the_observed_projections[{tag}]", got_pools == want_pools, F, witness={"got": str(got_pools), "want": str(want_pools)}, bounded=True, replay=replay)
    # (2) amplitude definitions
    used = set()
    n_smt = 0
    for (top, idx_), want in spec.items():
        sym = create_amplitude_base(top)[idx_]
        # the transitions of this topology that carry exactly these outer projections (possibly none: only symmetrised graphs do)
        group = [t for t in r.transitions if t.topology == top and outer_projections(t, ids) == idx_]
        used.add(sym)
        got = model.amplitudes.get(sym)
        key = f"{sym}".replace(",", ";")
        if got is None:
            chk.struct(f"amplitude.defined[{tag}]:{key}", False, F, witness="missing", bounded=True, replay=replay)
            continue
        if same(got, want):
            chk.struct(f"amplitude==spec[{tag}]:{key}", True, F, bounded=True, replay=replay)
        else:
            n_smt += 1
            smt_identity(chk, f"amplitude==spec[{tag}]:{key}", got, want, replay)
        # every transition of the coherent group carries the same index tuple as the registered symbol
        # ... are registered by ampform under the very symbol the spec uses (its own naming function applied to the transition)
        from ampform.helicity.naming import create_amplitude_symbol

        same_idx = all(create_amplitude_symbol(t) == sym for t in group)
        chk.struct(f"amplitude.group_has_one_index_tuple[{tag}]:{key}", same_idx, F, bounded=True, replay=replay,
                   witness="a transition with these outer projections is named by another amplitude symbol")
    extra = {a: v for a, v in model.amplitudes.items() if a not in used}
    chk.struct(f"amplitude.without_transition_is_zero[{tag}]", all(v == 0 for v in extra.values()), F, witness={str(a): str(v)[:80] for a, v in extra.items() if v != 0},
               bounded=True, replay=replay)
    # (3) components
    bad = []
    names = set()
    by_name: dict = {}
    for g, term in chains:  # symmetrised chains of identical particles share one name: the component is their sum
        by_name.setdefault(f"A_{{{b.naming.generate_amplitude_name(g)}}}", []).append(term)
    for cname, terms in by_name.items():
        term = sp.Add(*terms)
        names.add(cname)
        got = model.components.get(cname)
        if got is None or not same(got, term):
            if got is not None:
                va, vb, _ = numeric_probe(got, term)
                if abs(va - vb) <= 1e-9 * (1 + abs(vb)):
                    continue
            bad.append(cname)
    chk.struct(f"components.chain_amplitudes==spec[{tag}]", not bad, F, witness=bad[:4], bounded=True, replay=replay)
    # (3b) the names the spec above takes from ampform's name generator belong to the chain they are generated for: every particle of
    # the transition (by its LaTeX/name) occurs in the chain's amplitude name and coefficient suffix. (qrules transitions that differ in
    # particle NAMES only compare equal; anything memoised on the transition would hand one chain the names of another.)
    foreign = []
    for t in r.transitions:
        for what, text in (("amplitude name", b.naming.generate_amplitude_name(t)), ("coefficient suffix", b.naming.generate_sequential_amplitude_suffix(t))):
            missing = [st.particle.name for st in t.states.values() if (st.particle.latex or st.particle.name) not in text]
            if missing:
                foreign.append({"chain": str({i: st.particle.name for i, st in t.states.items()}), "which": what, "generated": text[:160], "particles_not_named": missing})
    chk.struct(f"names.every_chain_is_named_after_its_own_particles[{tag}]", not foreign, "ampform.helicity.naming.HelicityAmplitudeNameGenerator.generate_amplitude_name",
               witness=foreign[:3], bounded=True,
               replay=lambda _m=None: {"reproduced": bool(foreign), "input": tag, "observed": foreign[:2], "expected": "each chain's name mentions its own particles"})
    a_comps = {k for k in model.components if k.startswith("A_")}
    chk.struct(f"components.no_unexpected_chain[{tag}]", a_comps <= names, F, witness=sorted(a_comps - names)[:4], bounded=True, replay=replay)
    # intensity components: |sum over topologies of the group's amplitudes|^2
    from ampform.helicity.naming import generate_transition_label

    badI = []
    groups: dict = {}
    for (top, idx_), want in spec.items():
        groups.setdefault(idx_, []).append(want)
    for idx_, parts in groups.items():
        # a representative with these outer projections: a transition of the reaction, or (projections that only an exchanged graph
        # carries) a symmetrised graph -- the label names the outer states only
        t0 = next((t for t in r.transitions if outer_projections(t, ids) == idx_), None) or next((g for g, _ in chains if outer_projections(g, ids) == idx_), None)
        if t0 is None:
            badI.append(f"nothing carries the outer projections {idx_}")
            continue
        cname = f"I_{{{generate_transition_label(t0)}}}"
        got = model.components.get(cname)
        want = sp.Abs(sp.Add(*parts)) ** 2
        if got is None or not same(got, want):
            if got is not None:
                va, vb, _ = numeric_probe(got, want)
                if abs(va - vb) <= 1e-9 * (1 + abs(vb)):
                    continue
            badI.append(cname)
    chk.struct(f"components.intensities==spec[{tag}]", not badI, F, witness=badI[:4], bounded=True, replay=replay)
    # identical-particle symmetrisation: qrules' combinatorics agrees with the spec's enumeration (count per transition)
    from ampform.helicity import _perform_combinatorics

    diff = [k for k, t in enumerate(r.transitions) if len(_perform_combinatorics(t)) != len(identical_permutations(t))]
    chk.struct(f"symmetrisation.count_matches_spec_enumeration[{tag}]", not diff, F, witness=diff[:5], bounded=True, lemma=True, replay=replay)
    chk.extra.setdefault("models", []).append({"model": tag, "transitions": len(r.transitions), "chains": len(chains), "amplitudes": len(spec), "decided_by_smt": n_smt})


def wigner_lemmas(chk: Check) -> None:
    """WignerD(j,m,mp,-phi,theta,0) = conj(D^j_{m mp}(phi,theta,0)) = exp(+i m phi) d^j_{m mp}(theta), all angles."""
    phi, theta = sp.Symbol("phi", real=True), sp.Symbol("theta", real=True)
    jmax = sp.Rational(3, 2) if chk.tier == "quick" else 3
    j = sp.Integer(0)
    FW = "ampform.helicity.formulate_isobar_wigner_d"
    while j <= jmax:
        ms = [-j + k for k in range(int(2 * j) + 1)]
        for m, mp in itertools.product(ms, ms):
            tr = Tr("wd")
            tr.declare_angle(theta, 2)
            tr.declare_angle(phi, 2)
            lhs = tr.scalar(Rotation.D(j, m, mp, -phi, theta, 0))
            d = tr.scalar(Rotation.d(j, m, mp, theta).doit())
            a = tr.angle(m * phi) if m != 0 else None
            rhs = (Cx(a.c, a.s) if a is not None else Cx(1)) * d
            rhs2 = tr.scalar(Rotation.D(j, m, mp, phi, theta, 0)).conj()
            nm = f"j={j}/m={m}/mp={mp}".replace(",", ";")
            chk.smt(f"L-wigner.conj[{nm}]: D(-phi)==conj D(phi)", tr.hyps(), lhs.eq(rhs2), function=FW, lemma=True, tactics=("default", "nlsat"))
            chk.smt(f"L-wigner.explicit[{nm}]: D(-phi)==exp(i m phi) d(theta)", tr.hyps(), lhs.eq(rhs), function=FW, lemma=True, tactics=("default", "nlsat"))
        j += sp.Rational(1, 2)


def build(chk: Check) -> None:
    models.quiet()
    chk.assume("bounded in the space of reactions (zoo); exact in angles / parameters (symbolic comparison)")
    chk.assume("SymPy's automatic flattening and ordering of Add/Mul preserves values (AC-normalisation)")
    chk.assume("symbol names come from ampform's naming functions; their meaning is C07's, coefficient sharing / parity sign C03's")
    chk.trust("z3 5.1.0 / cvc5 unsat answers; SymPy Rotation.d(...).doit() (its orthogonality is checked in C05)")
    names = ["jpsi_gamma_pi0_pi0", "jpsi_pi0_pip_pim", "d1_k_k_k0", "jpsi_sigmabar_sigma", "etac_lambda_lambdabar", "jpsi_p_pbar", "jpsi_k0_sigma_pbar_N", "lambdac_p_k_pi", "jpsi_kk_pipi", "d0_k_3pi_cascade", "jpsi_gamma_pi0_pi0_f2", "d0_k_pi_pi0",
             "chic2_gamma_gamma",  # two identical spin-1 particles from one node (no combinatorics), projections (+1,-1) and (-1,+1) are different final states
             "psi2s_gamma_gamma_jpsi",  # identical spin-1 particles from different nodes, no other identical pair
             "chic0_omega_omega",  # the same resonance twice with the same daughters (two symmetrised gamma pi0 pairs, both nodes parity-flippable)
             "jpsi_gamma_pi0_pi0_twin"]  # resonances with an equal-but-renamed twin: transitions that compare equal and must still get their own names/coefficients
    if chk.tier == "quick":
        plan = [(n, f, c) for n in names for f in ("helicity", "canonical-helicity") for c in (CONFIGS_QUICK if n in names[:4] else CONFIGS_QUICK[:3])]
    else:
        full = [dict(couplings=c, opaque=o, parent_hel=p, child_hel=ch) for c in (False, True) for o in (False, True) for p, ch in ((False, True), (True, True), (True, False))]
        plan = [(n, f, c) for n in names for f in ("helicity", "canonical-helicity") for c in full]
    for n, f, c in plan:
        check_model(chk, n, f, **c)
    wigner_lemmas(chk)
    from contracts.c02_e3 import build_node_contracts

    def search(_m=None):
        """Property-level replay for the node-level contracts: re-run the zoo comparison on two reactions."""
        from vlib.core import Check as _C

        probe = _C("C02", "quick", LEVEL, TECHNIQUE)
        for n_, f_ in (("jpsi_gamma_pi0_pi0", "canonical-helicity"), ("jpsi_sigmabar_sigma", "helicity"), ("lambdac_p_k_pi", "canonical-helicity")):
            check_model(probe, n_, f_)
        for ob in probe.obligations:
            if ob.kind == "struct" and not ob.holds and ob.replay is not None:
                r = ob.replay({})
                if r.get("reproduced"):
                    return r
        return {"reproduced": False, "note": "models of three zoo reactions still equal the spec"}

    build_node_contracts(chk, search)
    from contracts.c02_e3 import build_chain_contract

    build_chain_contract(chk, search)
    # engine self-test: a swapped D index must be refuted
    tr = Tr("st")
    phi, theta = sp.Symbol("phi", real=True), sp.Symbol("theta", real=True)
    tr.declare_angle(theta, 2)
    chk.mustfail("selftest.swapped_wigner_indices", tr.hyps(), tr.scalar(Rotation.D(1, 1, 0, -phi, theta, 0)).eq(tr.scalar(Rotation.D(1, 0, 1, -phi, theta, 0))), function=F)
