"""C13 — dynamics attach to the right decay with the right variables and defaults.

Layer (i), E3 (contracts/c13_e3.py): the real `DynamicsSelector.assign` overloads (picked through the REAL singledispatch
registry), `__getitem__`, `__init__`, `_generate_kinematic_variable_set` (+ `_generate_kinematic_variables`) and
`HelicityAmplitudeBuilder.__formulate_dynamics` are executed symbolically over abstract decays / transitions:
  assign(str|Particle)   ens  choices' = { d: builder if d.parent.particle.name = name else choices[d] }   (whole map; k = 1..4 decays,
                              equality of parent names symbolic; warns iff no decay matches; never raises)
  assign(TwoBodyDecay)   ens  choices' = choices[decay := builder]                                      (symbolic map of any size)
  assign((t, n))         ens  choices' = choices[decay_of(t, n) := builder]; NotImplementedError / ValueError exactly as documented
  variable set           ens  (m(parent edge), m(children[0]), m(children[1]), theta, phi of the node, L = l_magnitude, else int(spin) if integral, else None)
  __formulate_dynamics   ens  builder(decay.parent.particle, that node's variable set)[0] for builder = choices[decay]; 1 if unassigned;
                              defaults merged, last value wins, one warning per conflicting value and no other effect.
Every operation's postcondition is a function of the previous map, so a history of assignments is the composition of them.
Layer (ii), bounded (contracts/c13_spec.py): zoo reactions x selections of every kind x re-assignments in different orders with OPAQUE
builders: every chain component = unassigned component x B(expected arguments), expected arguments computed from the qrules
transition alone; unaffected components unchanged (exact tree comparison); real builders: components and m_R / Gamma_R defaults.
Particle table: equal identifier (latex or name) => equal (mass, width), exhaustive over qrules' table.
"""

from __future__ import annotations

from contracts import c13_e3 as E
from contracts import c13_spec as S
from vlib import models, zoo
from vlib.core import Check

LEVEL = "other"
ENGINE = "E3 pyvc + E5 harness"
TECHNIQUE = ("contract-based deductive verification: symbolic execution of the real selector / variable-set / dynamics methods over abstract decays and transitions "
             "(all paths, z3); bounded tree comparison with opaque builders on zoo reactions; exhaustive check of qrules' particle table")
CLAIM = (
    "For every selector map, every builder and every selection of each of the four kinds, assign changes exactly the denoted keys (whole-map postcondition, z3, all "
    "paths; str/Particle for maps of 1..4 decays with arbitrary coincidences of parent names, TwoBodyDecay/(transition,node) for maps of any size); histories are "
    "compositions. For every transition node the variable set consists of the parent edge's mass symbol, the mass symbols of children[0], children[1], the node's "
    "angles and L as specified, for every naming; __formulate_dynamics returns the assigned builder's expression on that node's own variable set and merges the "
    "defaults (last value wins, warning only). On zoo reactions the affected chain components equal base x B(expected arguments) exactly (bounded)."
)
NOTE = (
    "Level 'other': the whole-model statement (which chain component receives which factor) is checked on the enumerated zoo x histories only. E3 bounds: str/Particle "
    "selection unrolled over <= 4 decays (3 in the quick tier); builders returning <= 3 parameters (2 quick). TwoBodyDecay.from_transition, the naming functions, "
    "logging and Mapping.__contains__ are assumed contracts. The particle-table clause is a statement about qrules' data: two identifiers are shared by "
    "particles with different mass/width (N(1535)0 / Delta(1910)0 and the antiparticles) -> named failing obligations (dependency defect, known-finding candidates)."
)
FTAB = "qrules.particle (data) / ampform.dynamics.builder.RelativisticBreitWignerBuilder.__create_symbols"
FFORM = "ampform.helicity.HelicityAmplitudeBuilder.formulate"

QUICK = [("jpsi_pi0_pip_pim", "helicity"), ("jpsi_pi0_pip_pim", "canonical-helicity"), ("jpsi_gamma_pi0_pi0", "canonical-helicity"), ("jpsi_k0_sigma_pbar_N", "canonical-helicity"),
         ("lambdac_p_k_pi", "helicity"), ("d1_k_k_k0", "canonical-helicity")]
THOROUGH = QUICK + [("jpsi_gamma_pi0_pi0", "helicity"), ("jpsi_k0_sigma_pbar_N", "helicity"), ("lambdac_p_k_pi", "canonical-helicity"), ("d1_k_k_k0", "helicity")]


def _f(formalism: str) -> str:
    return "hel" if formalism == "helicity" else "can"


def build(chk: Check) -> None:
    models.quiet()
    chk.trust("z3 5.1.0 unsat answers; SymPy structural equality of expression trees")
    chk.assume("bounded in the space of reactions: zoo reactions of vlib/zoo.py x the histories of contracts/c13_spec.scenarios")
    chk.assume("qrules.generate_transitions output is a well-formed ReactionInfo (dependency)")
    chk.assume("component names come from NameGenerator.generate_amplitude_name (not under contract here); chains with one name must have one expected factor (checked)")
    E.build_e3(chk)
    bounded_layer(chk)
    particle_table(chk)
    symmetrised_selection(chk)
    selector_key_identity(chk)


def selector_key_identity(chk: Check) -> None:
    """The selector is a dict keyed by TwoBodyDecay: 'the selection denotes exactly these nodes' needs key equality to be equality of
    EVERY field (edge ids included). attrs generates __eq__/__hash__ from the fields with eq=True (attrs' contract, assumed), so the
    obligation is structural and holds for all instances: every field of TwoBodyDecay, StateWithID and qrules' State/Particle/Spin takes
    part in equality, and none of the classes overrides __eq__/__hash__ by hand."""
    import attrs
    import qrules.transition as qt
    from ampform.helicity import decay as D

    chk.assume("attrs-generated __eq__/__hash__ compare exactly the fields with eq=True (attrs' contract)")
    chk.assume("qrules' Particle and Spin define their own equality (name/pid/latex are not compared by qrules; quantum numbers, mass and width are): dependency, not under contract")
    for cls in (D.TwoBodyDecay, D.StateWithID, qt.State, qt.InteractionProperties):
        tag = f"{cls.__module__}.{cls.__qualname__}"
        not_compared = [f.name for f in attrs.fields(cls) if not f.eq]

        def rep(_m=None, cls=cls, not_compared=not_compared):
            return {"reproduced": bool(not_compared), "input": f"attrs.fields({cls.__qualname__})", "observed": f"fields left out of ==/hash: {not_compared}",
                    "expected": "every field compared: two decays that differ in an edge id (identical final-state particles) are different selector keys"}

        chk.struct(f"selector_key.eq_compares_every_field[{tag}]", not not_compared, "ampform.helicity.DynamicsSelector.assign", witness=not_compared, replay=rep)
        own = [m for m in ("__eq__", "__hash__") if m in cls.__dict__ and not getattr(cls.__dict__[m], "__module__", "").startswith("attr") and "attrs" not in (getattr(cls.__dict__[m], "__qualname__", "") or "")
               and "generated" not in (getattr(getattr(cls.__dict__[m], "__code__", None), "co_filename", "") or "")]
        chk.struct(f"selector_key.eq_is_attrs_generated[{tag}]", not own, "ampform.helicity.DynamicsSelector.assign", witness=own, lemma=True)


def bounded_layer(chk: Check) -> None:
    from ampform.helicity.decay import TwoBodyDecay

    n_models = n_affected = 0
    for name, formalism in THOROUGH if chk.tier == "thorough" else QUICK:
        r = zoo.reaction(name, formalism)
        rt = f"{name}/{_f(formalism)}"
        # the contract's reading of from_transition (assumed in layer (i)): same parent edge and order of children on every node
        bad = []
        for ti, t, n in S.nodes_of(r):
            d = TwoBodyDecay.from_transition(t, n)
            sp_ = S.node_spec(t, n)
            if (d.parent.id, d.children[0].id, d.children[1].id) != (sp_["parent_edge"], *sp_["children"]):
                bad.append({"transition": ti, "node": n, "from_transition": (d.parent.id, d.children[0].id, d.children[1].id), "spec": (sp_["parent_edge"], *sp_["children"])})
        chk.struct(f"from_transition.parent_and_children_order[{rt}]", not bad, "ampform.helicity.decay.TwoBodyDecay.from_transition", witness=bad[:3], lemma=True, bounded=True,
                   replay=S.search_model)
        base = S.base_model(r)
        for ops in S.scenarios(r, chk.tier):
            tag = f"{rt}/{S.ops_text(ops)}"

            def rep_sel(_m, name=name, formalism=formalism, ops=ops):
                bad_ = S.check_selector(zoo.reaction(name, formalism), ops)
                return {"reproduced": bool(bad_), "input": {"reaction": name, "formalism": formalism, "assignments": S.ops_text(ops)}, "observed": bad_[:4],
                        "expected": "choices' = builder if selected(d) else choices[d] for every decay d"}

            def rep_model(_m, name=name, formalism=formalism, ops=ops):
                try:
                    bad_, _ = S.check_model(zoo.reaction(name, formalism), ops)
                except Exception as e:  # noqa: BLE001
                    bad_ = [{"raised": f"{type(e).__name__}: {e}"}]
                return {"reproduced": bool(bad_), "input": {"reaction": name, "formalism": formalism, "assignments": S.ops_text(ops), "builder": "opaque B(particle; s; m_a; m_b; L)"},
                        "observed": bad_[:4], "expected": "affected chain component = unassigned component x B(expected arguments); others unchanged"}

            try:
                bs = S.check_selector(r, ops)
            except Exception as e:  # noqa: BLE001
                bs = [{"raised": f"{type(e).__name__}: {e}"}]
            chk.struct(f"selector.whole_map[{tag}]", not bs, E.FSEL, witness=bs[:3], replay=rep_sel, bounded=True)
            try:
                bm, info = S.check_model(r, ops, base)
            except Exception as e:  # noqa: BLE001
                bm, info = [{"raised": f"{type(e).__name__}: {e}"}], {}
            n_models += 1
            n_affected += info.get("affected_components", 0)
            chk.struct(f"model.components_are_base_x_B_of_expected_arguments[{tag}]", not bm, FFORM, witness={"mismatches": bm[:3], **info}, replay=rep_model, bounded=True)

        def rep_conf(_m, name=name, formalism=formalism):
            bad_ = [b for b in S.check_conflicts(zoo.reaction(name, formalism)) if "vacuous" not in b]
            return {"reproduced": bool(bad_), "input": {"reaction": name, "formalism": formalism, "builder": "opaque builder whose default depends on the node"}, "observed": bad_,
                    "expected": "last value wins; one warning per conflicting re-definition; nothing raised"}

        bc = S.check_conflicts(r)
        chk.struct(f"model.conflicting_defaults.last_value_wins_and_warns[{rt}]", not [b for b in bc if "vacuous" not in b], E.FDYN, witness=bc, replay=rep_conf, bounded=True)
        chk.struct(f"model.conflicting_defaults.occurred[{rt}]", not [b for b in bc if "vacuous" in b], E.FDYN, witness=bc, lemma=True, bounded=True, replay=rep_conf)
        for rb in S.REAL_BUILDERS if chk.tier == "thorough" else S.REAL_BUILDERS[:2]:
            def rep_real(_m, name=name, formalism=formalism, rb=rb):
                try:
                    bad_, _ = S.check_real_builder(zoo.reaction(name, formalism), rb)
                except Exception as e:  # noqa: BLE001
                    bad_ = [{"raised": f"{type(e).__name__}: {e}"}]
                return {"reproduced": bool(bad_), "input": {"reaction": name, "formalism": formalism, "builder": rb, "assigned_to": "every intermediate particle by name"}, "observed": bad_[:4],
                        "expected": "component = base x builder(particle; expected variable set)[0]; defaults of m_R / Gamma_R = tabulated mass / width"}

            try:
                br, info = S.check_real_builder(r, rb, base)
            except Exception as e:  # noqa: BLE001
                br, info = [{"raised": f"{type(e).__name__}: {e}"}], {}
            n_models += 1
            chk.struct(f"model.real_builder.components_and_mass_width_defaults[{rt}/{rb}]", not br, FFORM, witness={"mismatches": br[:3], **info}, replay=rep_real, bounded=True)
    chk.struct("bounded.vacuity.components_were_affected", n_affected > 50, FFORM, witness=n_affected, lemma=True, bounded=True, replay=S.search_model)
    chk.extra["zoo_models_formulated"] = n_models
    chk.extra["affected_components_compared"] = n_affected


def particle_table(chk: Check) -> None:
    """Equal-named parameters carry equal defaults: parameter names are built from `latex or name`, so the identifier must
    determine (mass, width). Exhaustive over qrules' table (load_pdg() united with load_default_particles())."""
    groups = S.identifier_groups()
    n = sum(len(v) for v in groups.values())
    chk.extra["particle_table_entries"] = n
    chk.extra["particle_table_identifiers"] = len(groups)
    chk.struct("particle_table.loaded", n >= 500, FTAB, witness=n, lemma=True, replay=S.search_model)
    shared = {k: v for k, v in groups.items() if len(v) > 1}
    for ident, ps in sorted(shared.items()):
        ok = len({(p.mass, p.width) for p in ps}) == 1
        safe = ident.replace(",", ";")
        chk.struct(f"particle_table.identifier_injective[{safe}]", ok, FTAB, witness=[{"name": p.name, "pid": p.pid, "latex": p.latex, "mass": p.mass, "width": p.width} for p in ps],
                   replay=lambda _m, ident=ident: S.replay_identifier(ident))
    singles = [k for k, v in groups.items() if len(v) == 1]
    chk.struct("particle_table.identifier_injective.all_identifiers_with_one_entry", len(singles) + len(shared) == len(groups), FTAB, witness={"identifiers_with_one_entry": len(singles)},
               replay=S.search_model)
    # the naming code really uses `latex or name`: the real builder's symbols for a particle with and without latex
    import attrs
    import sympy as sp
    from ampform.dynamics.builder import TwoBodyKinematicVariableSet, create_relativistic_breit_wigner_with_ff

    p = next(q for q in S.particle_table() if q.name == "N(1535)0")
    vs = TwoBodyKinematicVariableSet(*sp.symbols("m_12 m_1 m_2 theta phi", nonnegative=True), angular_momentum=1)
    for variant, particle, ident in (("latex", p, p.latex), ("name", attrs.evolve(p, latex=None), p.name)):
        _, defaults = create_relativistic_breit_wigner_with_ff(particle, vs)
        want = {sp.Symbol(f"m_{{{ident}}}", nonnegative=True): p.mass, sp.Symbol(Rf"\Gamma_{{{ident}}}", nonnegative=True): p.width, sp.Symbol(f"d_{{{ident}}}", positive=True): 1}
        chk.struct(f"builder.parameter_names_from_identifier[{variant}]", defaults == want, FTAB, witness={str(k): v for k, v in defaults.items()}, bounded=True, replay=S.search_model)


def symmetrised_selection(chk: Check) -> None:
    """Selection by name reaches the nodes of identical-particle-symmetrised chains too (bounded, real objects): every two-body
    decay of every symmetrised chain (enumerated independently, contracts/c02.identical_permutations) is a key of the selector;
    assign(name, B) maps exactly the decays whose parent particle has that name to B; and in the formulated model no chain of
    that resonance is left without B (the opaque-builder comparison of the whole amplitude is C02's)."""
    import ampform
    import sympy as sp
    from ampform.helicity.decay import TwoBodyDecay

    from contracts.c02 import OpaqueBuilder, identical_permutations
    from vlib import models, zoo

    models.quiet()
    for name, formalism in (("d0_k_3pi_cascade", "helicity"), ("d0_k_3pi_cascade", "canonical-helicity"), ("jpsi_kk_pipi", "helicity"), ("jpsi_gamma_pi0_pi0", "helicity")):
        tag = f"{name}/{_f(formalism)}"

        def run(name=name, formalism=formalism):
            r = zoo.reaction(name, formalism)
            b = ampform.get_builder(r)
            missing = []
            all_decays = set()
            decay_list = []
            for t in r.transitions:
                for g in identical_permutations(t):
                    for n in g.topology.nodes:
                        d = TwoBodyDecay.from_transition(g, n)
                        all_decays.add(d)
                        decay_list.append(d)
                        if d not in b.dynamics:
                            missing.append(f"{d.parent.particle.name} -> ids {d.children[0].id},{d.children[1].id}")
            problems = {"decays_of_symmetrised_chains_missing_from_selector": sorted(set(missing))[:6]}
            B = OpaqueBuilder()
            wrong, assigned = [], []
            for pname in r.get_intermediate_particles().names:
                b.dynamics.assign(pname, B)
                assigned.append(pname)
                for d in all_decays:
                    if d in b.dynamics and ((b.dynamics[d] is B) != (d.parent.particle.name in assigned)):
                        wrong.append(f"after assign({pname}): {d.parent.particle.name} ids {d.children[0].id},{d.children[1].id} -> {'B' if b.dynamics[d] is B else 'not B'}")
            problems["assign_by_name_maps_exactly_the_named_parents"] = wrong[:6]

            # selection of ONE decay object: exactly the decays with the same content (states WITH their edge ids, helicities, interaction)
            # get B. The identity is computed here from the fields, not with TwoBodyDecay.__eq__ (an equality that forgets the edge id
            # would make the decay of the other identical particle carry B as well).
            def ident(d):
                st = lambda x: (x.id, x.particle.name, x.spin_projection)  # noqa: E731
                return (st(d.parent), st(d.children[0]), st(d.children[1]), repr(d.interaction))

            ordered = sorted({ident(d): d for d in decay_list}.values(), key=ident)
            step = max(1, len(ordered) // 10)
            wrong_one = []
            for d in ordered[::step]:
                b1 = ampform.get_builder(r)
                B1 = OpaqueBuilder()
                b1.dynamics.assign(d, B1)
                for e in ordered:
                    if e in b1.dynamics and ((b1.dynamics[e] is B1) != (ident(e) == ident(d))):
                        wrong_one.append(f"assign(decay {ident(d)[:3]}): decay {ident(e)[:3]} -> {'B' if b1.dynamics[e] is B1 else 'not B'}")
            problems["assign_one_decay_changes_exactly_that_decay"] = wrong_one[:6]
            model = b.formulate()
            no_b = []
            for cname, expr in model.components.items():
                if cname.startswith("A_"):
                    terms = sp.Add.make_args(sp.expand(expr)) if expr.is_Add else [expr]
                    for term in terms:
                        if not [x for x in term.atoms(sp.core.function.AppliedUndef) if x.func.__name__ == "B"]:
                            no_b.append(cname[:80])
            problems["chain_terms_without_any_lineshape"] = sorted(set(no_b))[:4]
            return problems

        def rep(_m=None, run=run, tag=tag):
            try:
                pr = run()
            except Exception as e:  # noqa: BLE001
                return {"reproduced": True, "input": tag, "observed": f"{type(e).__name__}: {e}"}
            bad = {k: v for k, v in pr.items() if v}
            return {"reproduced": bool(bad), "input": tag + ": assign(name, opaque builder B) for every resonance name, then formulate()", "observed": bad,
                    "expected": "every decay of every symmetrised chain selectable by name and carrying B"}

        try:
            pr = run()
        except Exception as e:  # noqa: BLE001
            chk.struct(f"symmetrised_selection[{tag}].runs", False, "ampform.helicity.DynamicsSelector.__init__", witness=f"{type(e).__name__}: {e}"[:300], replay=rep, bounded=True)
            continue
        for k, v in pr.items():
            chk.struct(f"symmetrised_selection[{tag}].{k}", not v, "ampform.helicity.DynamicsSelector.__init__", witness=v, replay=rep, bounded=True)
