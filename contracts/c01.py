"""C01 — every symbol of a model is defined: parameter xor kinematic variable.

Contract of `HelicityAmplitudeBuilder.formulate()` (and of what it calls: `__formulate_top_expression`,
`collect_spin_projections`, the alignment's `formulate_amplitude` / `define_symbols`,
`HelicityAdapter.create_expressions`, `HelicityModel.expression`):
  ens (P1) free_symbols(model.expression) is a subset of keys(parameter_defaults) | keys(kinematic_variables)
  ens (P2) keys(parameter_defaults) & keys(kinematic_variables) = {}
  ens (A)  no amplitude symbol (Indexed) survives in model.expression: every amplitude the intensity sums over is defined
  ens (K)  for every kinematic variable v: free_symbols(v.xreplace(parameter_defaults)) is a subset of the four-momentum symbols
Layer (ii) (this file, bounded): the postconditions evaluated on the real `formulate()` for the reaction zoo x builder
configurations. They are purely structural set comparisons, exact for each instance (no numeric sampling).
Layer (i): closure lemma for (A) over abstract transition sets (E3 on the code that registers amplitudes) -- see build().
"""

from __future__ import annotations

import itertools

import sympy as sp
import z3

from vlib import models
from vlib.core import Check

LEVEL = "other"
ENGINE = "E5 harness + E3 pyvc"
TECHNIQUE = ("contracts (postconditions of formulate()) checked on an enumerated reaction zoo x configuration space; E3 contract of __define_missing_amplitudes "
             "(loop invariant, all reactions) and closure lemma discharged by z3")
CLAIM = (
    "The four postconditions (P1,P2,A,K) of formulate() are evaluated exactly (structural set comparison on the real returned model) for every zoo reaction x "
    "enumerated builder configuration. Clause (A) is additionally proved for ALL reactions and alignments: the real __define_missing_amplitudes is executed symbolically "
    "(arbitrary finite set of amplitude symbols, arbitrary amplitude dictionary, loop invariant) and shown to define every amplitude symbol of the unfolded intensity while "
    "keeping existing definitions. P1/P2/K remain bounded in the space of reactions: that is why the level is 'other', not 'proof'."
)
NOTE = (
    "Bound: the reaction zoo of vlib/zoo.py (8 qrules reactions incl. incomplete helicity products, half-integer spins, 1-3 topologies, both formalisms) x the "
    "configuration subset (quick) or full product (thorough) of vlib/models.py. Assumes qrules' ReactionInfo is well formed. Nothing is sampled numerically."
)
F = "ampform.helicity.HelicityAmplitudeBuilder.formulate"


def _momentum_names(model) -> set[str]:
    return {f"p{i}" for i in model.reaction_info.final_state}


def postconditions(model) -> dict[str, tuple[bool, object]]:
    expr = model.expression
    free = {s for s in expr.free_symbols}
    pars = set(model.parameter_defaults)
    kin = set(model.kinematic_variables)
    neither = sorted((str(s) for s in free - pars - kin))
    both = sorted(str(s) for s in pars & kin)
    undefined = sorted(str(a) for a in expr.atoms(sp.Indexed))
    bad_kin = {}
    pnames = _momentum_names(model)
    subs = dict(model.parameter_defaults.items())
    for v, d in model.kinematic_variables.items():
        rest = {str(s) for s in d.xreplace(subs).free_symbols} - pnames
        if rest:
            bad_kin[str(v)] = sorted(rest)
    return {
        "P1.free_symbols_defined": (not neither, neither[:8]),
        "P2.parameter_xor_kinematic": (not both, both[:8]),
        "A.amplitudes_defined": (not undefined, undefined[:8]),
        "K.kinematics_from_momenta_only": (not bad_kin, dict(list(bad_kin.items())[:4])),
    }


def _evaluate_config(cfg):
    models.quiet()
    try:
        return {"post": postconditions(models.build(cfg))}
    except Exception as e:  # noqa: BLE001
        return {"error": f"{type(e).__name__}: {e}"[:300]}


REFORMULATE_STEPS = (dict(), dict(stable="all"), dict(scalar_initial_mass=True), dict(), dict(stable="some", scalar_initial_mass=True), dict(alignment="axis"),
                     dict(helicity_couplings=True), dict())


def _evaluate_history(arg):
    """One builder, formulate() after every change of its configuration: the postconditions of every model of the sequence."""
    import dataclasses

    name, formalism, dynamics = arg
    models.quiet()
    base = models.Config(name, formalism, dynamics=dynamics)
    out = []
    try:
        b = models.make_builder(base)
    except Exception as e:  # noqa: BLE001
        return [{"step": 0, "tag": base.tag, "error": f"{type(e).__name__}: {e}"[:300]}]
    for k, row in enumerate(REFORMULATE_STEPS):
        cfg = dataclasses.replace(base, **row)
        try:
            models.reconfigure(b, cfg)
            out.append({"step": k, "tag": cfg.tag, "post": postconditions(b.formulate())})
        except Exception as e:  # noqa: BLE001
            out.append({"step": k, "tag": cfg.tag, "error": f"{type(e).__name__}: {e}"[:300]})
    return out


def reformulate_histories(chk: Check) -> None:
    """formulate() is called again on the same builder after its configuration changed (the documented way to compare settings): every
    model of the sequence meets P1/P2/A/K. (That each equals the model of a fresh builder is C06's subject.)"""
    import concurrent.futures as cf
    import multiprocessing as mp

    reactions = ["jpsi_gamma_pi0_pi0", "jpsi_pi0_pip_pim", "lambdac_p_k_pi"] + (["d1_k_k_k0", "jpsi_kk_pipi", "etac_lambda_lambdabar", "d0_k_3pi_cascade"] if chk.tier == "thorough" else [])
    args = [(r, f, "bwff" if f == "canonical-helicity" or r.startswith("jpsi_gamma") or r.startswith("jpsi_pi0") else "bw") for r in reactions for f in ("helicity", "canonical-helicity")]
    with cf.ProcessPoolExecutor(max_workers=min(16, len(args)), mp_context=mp.get_context("fork")) as pool:
        results = list(pool.map(_evaluate_history, args))
    for arg, steps in zip(args, results):
        def replay(_m=None, arg=arg):
            for st in _evaluate_history(arg):
                bad = {"error": st["error"]} if "error" in st else {k: v[1] for k, v in st["post"].items() if not v[0]}
                if bad:
                    return {"reproduced": True, "input": f"one builder for {arg[0]}/{arg[1]} (dynamics {arg[2]}); formulate() after each of the configuration changes {list(REFORMULATE_STEPS[:st['step'] + 1])}",
                            "observed": bad, "expected": "every model of the sequence meets the four postconditions"}
            return {"reproduced": False}

        for st in steps:
            name = f"step{st['step']}:{st['tag']}"
            if "error" in st:
                chk.struct(f"reformulate.succeeds[{name}]", False, F, witness=st["error"], replay=replay, bounded=True)
                continue
            for clause, (ok, wit) in st["post"].items():
                chk.struct(f"reformulate.ens.{clause}[{name}]", ok, F, witness={"history": [dict(r) for r in REFORMULATE_STEPS[:st["step"] + 1]], "offending": wit}, replay=replay, bounded=True)


def build(chk: Check) -> None:
    models.quiet()
    chk.assume("bounded in the space of reactions: zoo x configurations (vlib/zoo.py, vlib/models.py)")
    chk.assume("qrules.generate_transitions output is a well-formed ReactionInfo (dependency)")
    chk.trust("SymPy free_symbols / atoms / xreplace")
    cfgs = models.config_space(chk.tier)
    n_models = 0
    # the models are independent: evaluate the postconditions in worker processes (history effects are C06's subject)
    import concurrent.futures as cf
    import multiprocessing as mp
    import os

    with cf.ProcessPoolExecutor(max_workers=min(16, os.cpu_count() or 4), mp_context=mp.get_context("fork")) as pool:
        results = list(pool.map(_evaluate_config, cfgs, chunksize=4))
    for cfg, res in zip(cfgs, results):
        def replay(_m, cfg=cfg):
            try:
                post = postconditions(models.build(cfg))
            except Exception as e:  # noqa: BLE001
                return {"reproduced": True, "input": cfg.tag, "observed": f"{type(e).__name__}: {e}"}
            bad = {k: v[1] for k, v in post.items() if not v[0]}
            return {"reproduced": bool(bad), "input": cfg.tag, "observed": bad, "expected": "all four postconditions hold"}

        if "error" in res:
            chk.struct(f"formulate.succeeds[{cfg.tag}]", False, F, witness=res["error"], replay=replay, bounded=True)
            continue
        n_models += 1
        chk.struct(f"formulate.succeeds[{cfg.tag}]", True, F, bounded=True)
        for clause, (ok, wit) in res["post"].items():
            chk.struct(f"formulate.ens.{clause}[{cfg.tag}]", ok, F, witness={"config": cfg.tag, "offending": wit}, replay=replay, bounded=True)
    chk.extra["models_built"] = n_models
    chk.extra["configurations"] = len(cfgs)
    chk.extra["exhaustive_over_configuration_product"] = chk.tier == "thorough"

    reformulate_histories(chk)
    closure_lemma(chk)
    define_missing_amplitudes_contract(chk)
    registration_contracts(chk)


def closure_lemma(chk: Check) -> None:
    """Layer (i): abstract closure lemma for (A).

    Abstract data: a finite set T of transitions with outer projection tuples outer(t) in D_1 x ... x D_k and a topology
    topo(t). The intensity ranges over (product of the coordinate projections of {outer(t)}) x {topo(t)}; the contract of the
    amplitude registration says which (topology, tuple) keys are defined. Obligation: range is a subset of defined keys.
    Two contracts are stated: REGISTERED_ONLY (keys of existing transitions only - the behaviour the property text reports)
    must be refuted (self-test of the lemma, with z3's two-transition model), and WITH_ZERO_FILL (every tuple of the product
    gets a definition for every topology - what the repaired code guarantees) is proved.  Which of the two contracts the real
    code satisfies is decided by the E5 layer above on the real models."""
    k = 2  # two outer states suffice for the counter-model; the proof below is for a generic coordinate pair
    D = z3.IntSort()
    occurs = z3.Function("occurs", D, D, z3.BoolSort())  # occurs(a,b): some transition has outer projections (a,b)
    in1 = z3.Function("in_pool1", D, z3.BoolSort())
    in2 = z3.Function("in_pool2", D, z3.BoolSort())
    defined = z3.Function("defined", D, D, z3.BoolSort())
    a, b, c = z3.Ints("a b c")
    pools = [
        z3.ForAll([a], in1(a) == z3.Exists([b], occurs(a, b))),
        z3.ForAll([b], in2(b) == z3.Exists([a], occurs(a, b))),
    ]
    ranged = lambda x, y: z3.And(in1(x), in2(y))  # noqa: E731
    registered_only = [z3.ForAll([a, b], defined(a, b) == occurs(a, b))]
    zero_fill = [z3.ForAll([a, b], defined(a, b) == z3.Or(occurs(a, b), z3.And(in1(a), in2(b))))]
    x, y = z3.Ints("x y")
    chk.mustfail("closure.A[contract=registered-only].refuted", pools + registered_only, z3.Implies(ranged(x, y), defined(x, y)),
                 function="ampform.helicity.HelicityAmplitudeBuilder.__formulate_top_expression", tactics=("default",))
    chk.smt("closure.A[contract=zero-fill]", pools + zero_fill, z3.Implies(ranged(x, y), defined(x, y)),
            function="ampform.helicity.HelicityAmplitudeBuilder.__formulate_top_expression", lemma=True, tactics=("default",))


def define_missing_amplitudes_contract(chk: Check) -> None:
    """Layer (i), E3, for ALL reactions and alignments: the real `__define_missing_amplitudes(intensity)` executed symbolically
    with the unfolded intensity's set of amplitude symbols an arbitrary finite list A[0..L) and the amplitude dictionary an
    arbitrary finite map.  ens: afterwards every A[k] is a key; keys that existed keep their definition; new keys map to 0.
    Together with `HelicityModel.expression = _unfold_poolsums(intensity.evaluate()).xreplace(amplitudes)` (same unfolding
    function, checked structurally) this is clause (A) of the postcondition of formulate() without a bound on the reaction."""
    import ast
    import inspect
    import textwrap

    from ampform import helicity as H
    from vlib.pyvc import Executor, Obj, Rec, SList, SMap, SV, State, Unsupported

    FN = "ampform.helicity.HelicityAmplitudeBuilder.__define_missing_amplitudes"

    def zoo_replay(_m=None):
        for cfg in models.config_space("quick", ["etac_lambda_lambdabar", "jpsi_k0_sigma_pbar_partial", "jpsi_gamma_pi0_pi0"]):
            try:
                post = postconditions(models.build(cfg))
            except Exception as e:  # noqa: BLE001
                return {"reproduced": True, "input": cfg.tag, "observed": f"{type(e).__name__}: {e}"}
            if not post["A.amplitudes_defined"][0]:
                return {"reproduced": True, "input": cfg.tag, "observed": post["A.amplitudes_defined"][1], "expected": "no undefined amplitude symbol"}
        return {"reproduced": False}

    meth = getattr(H.HelicityAmplitudeBuilder, "_HelicityAmplitudeBuilder__define_missing_amplitudes", None)
    chk.struct("define_missing_amplitudes.exists", meth is not None, FN, lemma=True, replay=zoo_replay,
               witness="formulate() must define the amplitudes the intensity ranges over; the contract is stated on this method")
    if meth is None:
        return
    ex = Executor("dma")
    has0, val0 = z3.Array("amp_has0", Obj, z3.BoolSort()), z3.Array("amp_val0", Obj, Obj)
    amp = Rec("Mapping", {"__map__": SMap(has0, val0)})
    self_rec = Rec("Builder", {"__ingredients": Rec("Ingredients", {"amplitudes": amp})})
    L, A = z3.Int("n_atoms"), z3.Array("atoms", z3.IntSort(), Obj)
    unfolded = z3.Const("unfolded_intensity", Obj)
    ex.natives["_unfold_poolsums"] = lambda e, st, a, k: iter([(st, SV(unfolded, "obj"))])
    ex.natives["obj.evaluate"] = lambda e, st, a, k: iter([(st, SV(z3.Const("evaluated_intensity", Obj), "obj"))])
    ex.natives["obj.atoms"] = lambda e, st, a, k: iter([(st, SV(z3.Const("atom_set", Obj), "obj"))])
    ex.natives["sorted"] = lambda e, st, a, k: iter([(st, SList(L, A, "obj"))])
    chk.assume("native contracts: sorted(S, key=str) lists exactly the elements of the set S; expr.atoms(Indexed) is the set of amplitude symbols of expr; "
               "_unfold_poolsums / evaluate are pure (A-pure)")
    kq = z3.Int("k!q")
    xq = z3.Const("x!q", Obj)

    def inv(e, st, i):
        m = st.env["self"].attrs["__ingredients"].attrs["amplitudes"].attrs["__map__"]
        return z3.And(
            z3.ForAll([kq], z3.Implies(z3.And(kq >= 0, kq < i), z3.Select(m.has, z3.Select(A, kq)))),
            z3.ForAll([xq], z3.Implies(z3.Select(has0, xq), z3.And(z3.Select(m.has, xq), z3.Select(m.val, xq) == z3.Select(val0, xq)))),
            z3.ForAll([xq], z3.Implies(z3.And(z3.Select(m.has, xq), z3.Not(z3.Select(has0, xq))), z3.Select(m.val, xq) == e.as_obj(sp.S.Zero))),
        )

    def havoc(e, st):
        e.fresh_n += 1
        st.env["self"].attrs["__ingredients"].attrs["amplitudes"].attrs["__map__"] = SMap(
            z3.Array(f"amp_has!{e.fresh_n}", Obj, z3.BoolSort()), z3.Array(f"amp_val!{e.fresh_n}", Obj, Obj))

    ex.invariants[("__define_missing_amplitudes", 0)] = inv
    ex.havocs[("__define_missing_amplitudes", 0)] = havoc
    st = State()
    st.pc.append(L >= 0)
    try:
        outs = ex.run(meth, [self_rec, SV(z3.Const("intensity", Obj), "obj")], st=st)
    except Unsupported as e:
        chk.struct("define_missing_amplitudes.in_supported_subset", False, FN, witness=str(e), lemma=True, replay=zoo_replay)
        return
    chk.struct("define_missing_amplitudes.in_supported_subset", True, FN, lemma=True)
    for o in ex.merged_obligations():
        chk.smt(f"define_missing_amplitudes.{o.name.split('.')[-1]}", o.hyps, o.claim, function=FN, lemma=True, replay=zoo_replay, tactics=("default",))
    posts, no_raise = [], []
    for oc in outs:
        pc = z3.And(*oc.st.pc) if oc.st.pc else z3.BoolVal(True)
        if oc.kind == "raise":
            no_raise.append(z3.Not(pc))
            continue
        m = oc.st.env["self"].attrs["__ingredients"].attrs["amplitudes"].attrs["__map__"] if "self" in oc.st.env else self_rec.attrs["__ingredients"].attrs["amplitudes"].attrs["__map__"]
        posts.append(z3.Implies(pc, z3.ForAll([kq], z3.Implies(z3.And(kq >= 0, kq < L), z3.Select(m.has, z3.Select(A, kq))))))
        posts.append(z3.Implies(pc, z3.ForAll([xq], z3.Implies(z3.Select(has0, xq), z3.Select(m.val, xq) == z3.Select(val0, xq)))))
    chk.smt("define_missing_amplitudes.ens.every_amplitude_symbol_of_the_intensity_is_defined_and_existing_definitions_kept", [], z3.And(*posts) if posts else z3.BoolVal(False),
            function=FN, replay=zoo_replay, tactics=("default",))
    chk.smt("define_missing_amplitudes.ens.never_raises", [], z3.And(*no_raise) if no_raise else z3.BoolVal(True), function=FN, replay=zoo_replay, tactics=("default",))
    # the model's `expression` unfolds with the same function and substitutes the amplitude dictionary
    src = textwrap.dedent(inspect.getsource(H.HelicityModel.expression.fget))
    calls = {ast.unparse(n.func) for n in ast.walk(ast.parse(src)) if isinstance(n, ast.Call)}
    chk.struct("HelicityModel.expression.unfolds_with__unfold_poolsums_and_substitutes_amplitudes", "_unfold_poolsums" in calls and any(c.endswith(".xreplace") for c in calls),
               "ampform.helicity.HelicityModel.expression", witness=sorted(calls), lemma=True, replay=zoo_replay)
    call_sites = textwrap.dedent(inspect.getsource(getattr(H.HelicityAmplitudeBuilder, "_HelicityAmplitudeBuilder__formulate_top_expression")))
    chk.struct("formulate_top_expression.calls_define_missing_amplitudes_on_the_intensity", "__define_missing_amplitudes(intensity)" in call_sites,
               "ampform.helicity.HelicityAmplitudeBuilder.__formulate_top_expression", witness=call_sites[-300:], lemma=True, replay=zoo_replay)


def registration_contracts(chk: Check) -> None:
    """Premises of P1 that do not depend on the reaction (for ALL transitions / particles):
    (a) E3: `__generate_amplitude_coefficient` and `__generate_helicity_coupling` return a symbol that IS a key of parameter_defaults
        afterwards, and change no other entry;
    (b) every dynamics builder of ampform.dynamics.builder, called on a symbolic particle and a variable set of fresh symbols: the free
        symbols of the returned expression are variable-set symbols or keys of the returned parameter map (which `__formulate_dynamics`
        copies into parameter_defaults: C13's contract)."""
    import inspect

    import attrs
    import qrules
    from ampform import helicity as H
    from ampform.dynamics import builder as DB
    from vlib.pyvc import Executor, Obj, Rec, SMap, SV, Unsupported

    def zoo_replay(_m=None):
        for cfg in models.config_space("quick", ["jpsi_gamma_pi0_pi0", "jpsi_p_pbar"]):
            try:
                post = postconditions(models.build(cfg))
            except Exception as e:  # noqa: BLE001
                return {"reproduced": True, "input": cfg.tag, "observed": f"{type(e).__name__}: {e}"}
            if not post["P1.free_symbols_defined"][0]:
                return {"reproduced": True, "input": cfg.tag, "observed": post["P1.free_symbols_defined"][1], "expected": "every free symbol is a parameter or a kinematic variable"}
        return {"reproduced": False}

    chk.assume("native contracts (registration): NameGenerator.generate_*_suffix are pure functions of (transition, node); sp.Symbol(name) is a pure function of the name; "
               "f-strings are injective in their hole (A-pure)")
    for private, nargs in (("__generate_amplitude_coefficient", 1), ("__generate_helicity_coupling", 2)):
        FN = f"ampform.helicity.HelicityAmplitudeBuilder.{private}"
        meth = getattr(H.HelicityAmplitudeBuilder, "_HelicityAmplitudeBuilder" + private, None)
        chk.struct(f"registration[{private}].exists", meth is not None, FN, lemma=True, replay=zoo_replay)
        if meth is None:
            continue
        ex = Executor("reg")
        has0, val0 = z3.Array("par_has0", Obj, z3.BoolSort()), z3.Array("par_val0", Obj, Obj)
        pars = Rec("Mapping", {"__map__": SMap(has0, val0)})
        self_rec = Rec("Builder", {"naming": Rec("Naming", {}), "__ingredients": Rec("Ingredients", {"parameter_defaults": pars})}, real_class=H.HelicityAmplitudeBuilder)
        suffix = z3.Const("suffix", Obj)
        symf = z3.Function("Symbol_of_name", Obj, Obj)
        fstr = z3.Function("fstring", Obj, Obj)
        ex.natives["Naming.generate_sequential_amplitude_suffix"] = lambda e, st, a, k: iter([(st, SV(suffix, "obj"))])
        ex.natives["Naming.generate_two_body_decay_suffix"] = lambda e, st, a, k: iter([(st, SV(suffix, "obj"))])
        ex.natives["Symbol"] = lambda e, st, a, k: iter([(st, SV(symf(e.as_obj(a[0])), "obj"))])
        args = [self_rec, SV(z3.Const("transition", Obj), "obj")] + ([SV(z3.Int("node_id"), "int")] if nargs == 2 else [])
        try:
            outs = ex.run(meth, args)
        except Unsupported as e:
            chk.struct(f"registration[{private}].in_supported_subset", False, FN, witness=str(e), lemma=True, replay=zoo_replay)
            continue
        chk.struct(f"registration[{private}].in_supported_subset", True, FN, lemma=True)
        posts, frames = [], []
        xq = z3.Const("x!reg", Obj)
        for oc in outs:
            pc = z3.And(*oc.st.pc) if oc.st.pc else z3.BoolVal(True)
            if oc.kind != "return" or not isinstance(oc.value, SV):
                posts.append(z3.Not(pc))
                continue
            rec = oc.st.env["self"] if "self" in oc.st.env else self_rec
            m = rec.attrs["__ingredients"].attrs["parameter_defaults"].attrs["__map__"]
            r = ex.as_obj(oc.value)
            posts.append(z3.Implies(pc, z3.Select(m.has, r)))
            frames.append(z3.Implies(pc, z3.ForAll([xq], z3.Implies(xq != r, z3.And(z3.Select(m.has, xq) == z3.Select(has0, xq), z3.Select(m.val, xq) == z3.Select(val0, xq))))))
        chk.smt(f"registration[{private}].ens.returned_symbol_is_a_parameter", [], z3.And(*posts) if posts else z3.BoolVal(False), function=FN, replay=zoo_replay, tactics=("default",))
        chk.smt(f"registration[{private}].frame.other_parameters_unchanged", [], z3.And(*frames) if frames else z3.BoolVal(False), function=FN, replay=zoo_replay, tactics=("default",), lemma=True)

    # (b) builders
    from ampform.dynamics.builder import TwoBodyKinematicVariableSet

    part = qrules.particle.Particle(name="R", latex="R", pid=99999, spin=1, mass=1.5, width=0.2)
    s_, m1, m2, phi, theta = sp.symbols("s_in m_out1 m_out2 phi_in theta_in", nonnegative=True)
    builders = {"create_non_dynamic": DB.create_non_dynamic, "create_non_dynamic_with_ff": DB.create_non_dynamic_with_ff,
                "create_analytic_breit_wigner": DB.create_analytic_breit_wigner, "create_relativistic_breit_wigner": DB.create_relativistic_breit_wigner,
                "create_relativistic_breit_wigner_with_ff": DB.create_relativistic_breit_wigner_with_ff}
    for flags in ((False, False), (True, False), (False, True), (True, True)):
        builders[f"RelativisticBreitWignerBuilder(energy_dependent_width={flags[0]};form_factor={flags[1]})"] = DB.RelativisticBreitWignerBuilder(energy_dependent_width=flags[0], form_factor=flags[1])
    public = sorted(n for n, f in vars(DB).items() if n.startswith("create_") and callable(f))
    chk.struct("dynamics_builder.frame.covers_every_public_builder", set(public) <= set(builders), "ampform.dynamics.builder", witness=sorted(set(public) - set(builders)), lemma=True, replay=zoo_replay)
    for bname, b in builders.items():
        for ell in (None, 0, 1, 2, 4):
            vs = TwoBodyKinematicVariableSet(incoming_state_mass=s_, outgoing_state_mass1=m1, outgoing_state_mass2=m2, helicity_theta=theta, helicity_phi=phi, angular_momentum=ell)

            def run(b=b, vs=vs):
                try:
                    expr, params = b(part, vs)
                except ValueError as e:
                    if "Angular momentum is not defined" in str(e) or "angular momentum" in str(e).lower():
                        return None  # documented refusal
                    raise
                allowed = {s_, m1, m2, phi, theta} | set(params)
                return sorted(str(x) for x in expr.free_symbols - allowed), sorted(str(x) for x in set(params) & {s_, m1, m2, phi, theta})

            def rep(_m=None, run=run, bname=bname, ell=ell):
                try:
                    r = run()
                except Exception as e:  # noqa: BLE001
                    return {"reproduced": True, "input": f"{bname}(particle, variable set with L={ell})", "observed": f"{type(e).__name__}: {e}"[:300]}
                if r is None:
                    return {"reproduced": False, "note": "documented refusal (no angular momentum)"}
                return {"reproduced": bool(r[0] or r[1]), "input": f"{bname}(particle R, variable set of fresh symbols, L={ell})", "observed": {"free symbols that are neither variables nor returned parameters": r[0], "variables returned as parameters": r[1]},
                        "expected": "free symbols of the lineshape are variables of the node or returned parameters"}

            r = rep()
            chk.struct(f"dynamics_builder.frame[{bname}/L={ell}]", not r["reproduced"], "ampform.dynamics.builder." + bname.split("(")[0], witness=r, replay=rep, bounded=True)
