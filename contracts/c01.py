"""C01 — every symbol of a model is defined: parameter xor kinematic variable.

Contract of `HelicityAmplitudeBuilder.formulate()` (and of what it calls: `__formulate_top_expression`,
`collect_spin_projections`, the alignment's `formulate_amplitude` / `define_symbols`,
`HelicityAdapter.create_expressions`, `HelicityModel.expression`):
  ens (P1) free_symbols(model.expression) is a subset of keys(parameter_defaults) | keys(kinematic_variables)
  ens (P2) keys(parameter_defaults) & keys(kinematic_variables) = {}
  ens (A)  no amplitude symbol (Indexed) survives in model.expression: every amplitude the intensity sums over is defined
  ens (K)  for every kinematic variable v: free_symbols(v.xreplace(parameter_defaults)) is a subset of the four-momentum symbols
Layer (ii) (this file, bounded): the postconditions evaluated on the real `formulate()` for the reaction zoo x builder
configurations. They are purely structural set comparisons, exact for each instance (no numeric sampling).
Layer (i): closure lemma for (A) over abstract transition sets (E3 on the code that registers amplitudes) -- see build().
"""

from __future__ import annotations

import itertools

import sympy as sp
import z3

from vlib import models
from vlib.core import Check

LEVEL = "other"
ENGINE = "E5 harness + E3 pyvc"
TECHNIQUE = "contracts (postconditions of formulate()) checked on an enumerated reaction zoo x configuration space; closure lemma for amplitude definitions discharged by z3"
CLAIM = (
    "The four postconditions (P1,P2,A,K) of formulate() are evaluated exactly (structural set comparison on the real returned model) for every zoo reaction x "
    "enumerated builder configuration; the closure lemma 'every amplitude symbol the intensity ranges over is registered' is proved for all outer-state "
    "projection sets from the contract of the registration code. Bounded in the space of reactions: that is why the level is 'other', not 'proof'."
)
NOTE = (
    "Bound: the reaction zoo of vlib/zoo.py (8 qrules reactions incl. incomplete helicity products, half-integer spins, 1-3 topologies, both formalisms) x the "
    "configuration subset (quick) or full product (thorough) of vlib/models.py. Assumes qrules' ReactionInfo is well formed. Nothing is sampled numerically."
)
F = "ampform.helicity.HelicityAmplitudeBuilder.formulate"


def _momentum_names(model) -> set[str]:
    return {f"p{i}" for i in model.reaction_info.final_state}


def postconditions(model) -> dict[str, tuple[bool, object]]:
    expr = model.expression
    free = {s for s in expr.free_symbols}
    pars = set(model.parameter_defaults)
    kin = set(model.kinematic_variables)
    neither = sorted((str(s) for s in free - pars - kin))
    both = sorted(str(s) for s in pars & kin)
    undefined = sorted(str(a) for a in expr.atoms(sp.Indexed))
    bad_kin = {}
    pnames = _momentum_names(model)
    subs = dict(model.parameter_defaults.items())
    for v, d in model.kinematic_variables.items():
        rest = {str(s) for s in d.xreplace(subs).free_symbols} - pnames
        if rest:
            bad_kin[str(v)] = sorted(rest)
    return {
        "P1.free_symbols_defined": (not neither, neither[:8]),
        "P2.parameter_xor_kinematic": (not both, both[:8]),
        "A.amplitudes_defined": (not undefined, undefined[:8]),
        "K.kinematics_from_momenta_only": (not bad_kin, dict(list(bad_kin.items())[:4])),
    }


def build(chk: Check) -> None:
    models.quiet()
    chk.assume("bounded in the space of reactions: zoo x configurations (vlib/zoo.py, vlib/models.py)")
    chk.assume("qrules.generate_transitions output is a well-formed ReactionInfo (dependency)")
    chk.trust("SymPy free_symbols / atoms / xreplace")
    cfgs = models.config_space(chk.tier)
    n_models = 0
    for cfg in cfgs:
        def replay(_m, cfg=cfg):
            try:
                post = postconditions(models.build(cfg))
            except Exception as e:  # noqa: BLE001
                return {"reproduced": True, "input": cfg.tag, "observed": f"{type(e).__name__}: {e}"}
            bad = {k: v[1] for k, v in post.items() if not v[0]}
            return {"reproduced": bool(bad), "input": cfg.tag, "observed": bad, "expected": "all four postconditions hold"}

        try:
            model = models.build(cfg)
        except Exception as e:  # noqa: BLE001
            chk.struct(f"formulate.succeeds[{cfg.tag}]", False, F, witness=f"{type(e).__name__}: {e}"[:300], replay=replay, bounded=True)
            continue
        n_models += 1
        chk.struct(f"formulate.succeeds[{cfg.tag}]", True, F, bounded=True)
        for clause, (ok, wit) in postconditions(model).items():
            chk.struct(f"formulate.ens.{clause}[{cfg.tag}]", ok, F, witness={"config": cfg.tag, "offending": wit}, replay=replay, bounded=True)
    chk.extra["models_built"] = n_models
    chk.extra["configurations"] = len(cfgs)
    chk.extra["exhaustive_over_configuration_product"] = chk.tier == "thorough"

    closure_lemma(chk)


def closure_lemma(chk: Check) -> None:
    """Layer (i): abstract closure lemma for (A).

    Abstract data: a finite set T of transitions with outer projection tuples outer(t) in D_1 x ... x D_k and a topology
    topo(t). The intensity ranges over (product of the coordinate projections of {outer(t)}) x {topo(t)}; the contract of the
    amplitude registration says which (topology, tuple) keys are defined. Obligation: range is a subset of defined keys.
    Two contracts are stated: REGISTERED_ONLY (keys of existing transitions only - the behaviour the property text reports)
    must be refuted (self-test of the lemma, with z3's two-transition model), and WITH_ZERO_FILL (every tuple of the product
    gets a definition for every topology - what the repaired code guarantees) is proved.  Which of the two contracts the real
    code satisfies is decided by the E5 layer above on the real models."""
    k = 2  # two outer states suffice for the counter-model; the proof below is for a generic coordinate pair
    D = z3.IntSort()
    occurs = z3.Function("occurs", D, D, z3.BoolSort())  # occurs(a,b): some transition has outer projections (a,b)
    in1 = z3.Function("in_pool1", D, z3.BoolSort())
    in2 = z3.Function("in_pool2", D, z3.BoolSort())
    defined = z3.Function("defined", D, D, z3.BoolSort())
    a, b, c = z3.Ints("a b c")
    pools = [
        z3.ForAll([a], in1(a) == z3.Exists([b], occurs(a, b))),
        z3.ForAll([b], in2(b) == z3.Exists([a], occurs(a, b))),
    ]
    ranged = lambda x, y: z3.And(in1(x), in2(y))  # noqa: E731
    registered_only = [z3.ForAll([a, b], defined(a, b) == occurs(a, b))]
    zero_fill = [z3.ForAll([a, b], defined(a, b) == z3.Or(occurs(a, b), z3.And(in1(a), in2(b))))]
    x, y = z3.Ints("x y")
    chk.mustfail("closure.A[contract=registered-only].refuted", pools + registered_only, z3.Implies(ranged(x, y), defined(x, y)),
                 function="ampform.helicity.HelicityAmplitudeBuilder.__formulate_top_expression", tactics=("default",))
    chk.smt("closure.A[contract=zero-fill]", pools + zero_fill, z3.Implies(ranged(x, y), defined(x, y)),
            function="ampform.helicity.HelicityAmplitudeBuilder.__formulate_top_expression", lemma=True, tactics=("default",))
