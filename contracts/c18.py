"""C18 — PoolSum denotes the finite sum over its index pools.

Under contract (src/ampform/sympy/__init__.py): PoolSum.__new__, .expression/.indices (properties, interpreted),
.evaluate, .doit, .free_symbols, .cleanup, ._eval_subs (when the class defines one); and the PoolSum unfolding used by
HelicityModel.expression (src/ampform/helicity/__init__.py).

Spec.  [[PoolSum(e,(i1,P1),...,(in,Pn))]]_v = sum over (c1..cn) in P1 x ... x Pn of [[e]]_{v[i1:=c1,...,in:=cn]}
(duplicates in a pool count twice, singletons once, n = 0 gives [[e]]_v).

Layer (i), E3: the *source* of each method is executed symbolically on `self = Rec(PoolSum, args=(e,(i1,P1),...))` with e an
abstract object, i_k pairwise distinct abstract symbols and the pool elements symbolic reals (so `P=(a,b)` covers a = b, and
the explicit duplicate shape `(a,a)` is enumerated as well).  The enumeration is over *structure* only (number of indices,
pool sizes); every obligation is for all summands and all pool values.  `subs`/`xreplace` on the abstract summand are
specified functions (substitution lemma on SymPy's own node types is assumption A-subst); for PoolSum itself L-subst is an
obligation (clause 3).  Values are compared through the denotation `den` below: the summand is an uninterpreted real
function E of the values of the index symbols *that occur free in it* (an index not in e.free_symbols is replaced by a
fixed constant before E is applied, which encodes independence without quantifiers).

Layer (ii), bounded: a deterministic family of concrete PoolSums on the real class against an independent reference
evaluator (environment passing, own cartesian product), labelled `bounded=True`.
"""

from __future__ import annotations

import inspect
import itertools
import types

import sympy as sp
import z3

import ampform.helicity as AH
from ampform.sympy import PoolSum
from contracts.e3x import XExecutor, run_guarded
from vlib import pynatives as N
from vlib.core import Check
from vlib.pyvc import Exc, Obj, Rec, SV, State, Unsupported, _unhash

LEVEL = "proof"
ENGINE = "E3 pyvc + E5 harness"
TECHNIQUE = (
    "contract-based deductive verification: symbolic execution (E3) of the real source of PoolSum.__new__/evaluate/doit/"
    "free_symbols/cleanup/_eval_subs on an abstract summand with symbolic pools, per enumerated structure; postconditions are "
    "the finite-sum denotation, discharged by z3 (QF_UFLRA, sets); plus an instance-level cross-check of the real class against "
    "an independent reference evaluator (bounded, labelled)"
)
CLAIM = (
    "For every summand, all pairwise distinct index symbols and all real pool values (duplicates included), for each structure "
    "with 0..3 (thorough 0..4) indices and pool sizes 1..3: evaluate() returns Add over the cartesian product (in product order) of "
    "the summand with the indices substituted, which denotes the finite sum; doit(deep) = evaluate() resp. its deep unfolding; "
    "free_symbols = summand's minus the indices; __new__ stores the pools as tuples in order and rejects empty pools; cleanup() "
    "substitutes single-valued indices, keeps used multi-valued ones with their pools in order and preserves the value in every "
    "case except the one named finding (index absent from the summand with a pool of size != 1); substitution of a free symbol "
    "falls back to argument-wise substitution and substitution of a bound index must return the sum unchanged. Concrete nested / "
    "shadowed / rational instances and HelicityModel.expression's unfolding are checked on the real class (bounded)."
)
NOTE = (
    "Assumed (listed in the evidence): substitution lemma for subs/xreplace on SymPy's own node types (A-subst); sequential subs "
    "of distinct symbols by numbers = simultaneous; Basic._subs falls back to argument-wise substitution unless _eval_subs returns "
    "a value; Basic.free_symbols is the union over args; itertools.product order; sp.Add is real addition; sp.sympify is the "
    "identity on tuples of SymPy objects. Requires: index symbols pairwise distinct, pool values numbers, replacement terms do not "
    "mention index symbols (capture-avoidance is not claimed by the property; sympy.concrete behaves the same). xreplace on a "
    "bound index is SymPy's structural replacement and is only checked for maps that do not mention an index. Structures are "
    "enumerated (0..3/0..4 indices, pool sizes 1..3 plus duplicate shapes); the instance family is bounded and never counted as proved."
)

F = "ampform.sympy.PoolSum."
FH = "ampform.helicity.HelicityModel.expression.unfold_poolsums"

SUBS1 = z3.Function("subs1", Obj, Obj, Obj, Obj)
BOX = z3.Function("box_real", z3.RealSort(), Obj)
FS = z3.Function("free_symbols", Obj, z3.SetSort(Obj))
DOIT = z3.Function("doit", Obj, Obj)
EVAL = z3.Function("PoolSum.evaluate", Obj, Obj)


def _fn(name, n):
    return z3.Function(name, *([Obj] * n), Obj)


# ------------------------------------------------------------------------------------------------
# structures
# ------------------------------------------------------------------------------------------------
def shapes(tier: str) -> list[tuple[str, ...]]:
    toks = ("1", "2", "3", "2d")
    nmax = 3 if tier == "quick" else 4
    out: list[tuple[str, ...]] = []
    for n in range(nmax + 1):
        out += list(itertools.product(toks, repeat=n))
    if tier != "quick":
        for n in (1, 2):
            out += [s for s in itertools.product(toks + ("3d",), repeat=n) if "3d" in s]
    return out


def shape_name(shape) -> str:
    return "pools=" + ("x".join(shape) if shape else "none")


def make_self(shape, tag="", pools_as=tuple):
    """Rec for `self`: args = (e, (i0, pool0), ...) with e, i_k abstract objects and pool elements symbolic reals."""
    e = SV(z3.Const("e" + tag, Obj), "obj")
    idx, pools = [], []
    for k, tok in enumerate(shape):
        i = SV(z3.Const(f"i{k}{tag}", Obj), "obj")
        size = int(tok[0])
        vals = [SV(z3.Real(f"v{k}_{j}{tag}"), "real") for j in range(size)]
        if tok.endswith("d"):
            vals[-1] = vals[0]  # explicit duplicate element (same term twice)
        idx.append(i)
        pools.append(pools_as(vals))
    rec = Rec("PoolSum", {"args": (e, *[(i, p) for i, p in zip(idx, pools)]), "__id__": "SELF"}, PoolSum)
    return rec, e, idx, pools


def distinct(idx):
    return [z3.Distinct(*[i.t for i in idx])] if len(idx) >= 2 else []


def lexprod(pools):
    """Cartesian product in lexicographic order, last pool fastest (own recursion: the spec side does not use itertools)."""
    if not pools:
        return [()]
    rest = lexprod(pools[1:])
    return [(c, *r) for c in pools[0] for r in rest]


# ------------------------------------------------------------------------------------------------
# natives: assumed contracts of the dependencies and specification functions
# ------------------------------------------------------------------------------------------------
def n_product(ex, st, args, kwargs):
    if any(not isinstance(a, (list, tuple)) for a in args):
        raise TypeError("itertools.product over an opaque value")
    yield st, list(itertools.product(*args))


def n_add(ex, st, args, kwargs):
    ts = [ex.as_obj(a) for a in args]
    yield st, SV(_fn(f"Add{len(ts)}", len(ts))(*ts) if ts else z3.Const("Add0", Obj), "obj")


def _pairs(rest):
    if len(rest) == 2:
        return [(rest[0], rest[1])]
    seq = rest[0]
    if isinstance(seq, dict):
        return [(_unhash(k), v) for k, v in seq.items()]
    return [tuple(p) for p in seq]


def n_subs(ex, st, args, kwargs):
    """e.subs(seq): sequential application of single substitutions (SymPy's documented behaviour for a sequence)."""
    o, *rest = args
    t = o.t
    for old, new in _pairs(rest):
        t = SUBS1(t, ex.as_obj(old), ex.as_obj(new))
    ex.used.append("subs")
    yield st, SV(t, "obj")


def n_xreplace(ex, st, args, kwargs):
    o, rule = args
    prs = _pairs([rule])
    ex.used.append("xreplace")
    if not prs:
        yield st, o  # xreplace({}) is the identity
        return
    flat = []
    for k, v in prs:
        flat += [ex.as_obj(k), ex.as_obj(v)]
    yield st, SV(_fn(f"xreplace{len(prs)}", 1 + len(flat))(o.t, *flat), "obj")


def n_doit(ex, st, args, kwargs):
    yield st, SV(DOIT(args[0].t), "obj")


def n_sympify(ex, st, args, kwargs):
    yield st, args[0]


def n_isinstance(ex, st, args, kwargs):
    """isinstance on the contract's stand-ins: sp.sympify(<tuple>) is a sp.Tuple (the native returns the Python tuple itself); every other
    concrete question is answered by Python; a question about an abstract object is outside this contract."""
    o, cls = args
    classes = cls if isinstance(cls, tuple) else (cls,)
    if isinstance(o, tuple) and any(c is sp.Tuple or c is sp.Basic for c in classes):
        yield st, True
        return
    if isinstance(o, (Rec, SV)):
        raise Unsupported(f"isinstance of an abstract value against {getattr(cls, '__name__', cls)}")
    yield st, isinstance(o, cls)


def n_expr_new(ex, st, args, kwargs):
    cls, *rest = args
    yield st, Rec("PoolSum", {"args": tuple(rest)}, cls if isinstance(cls, type) else PoolSum)


def n_poolsum_ctor(ex, st, args, kwargs):
    """Contract of PoolSum.__new__ (itself verified on the real source, obligations `__new__[...]`)."""
    expression, *indices = args
    conv = []
    for i, vals in indices:
        vals = tuple(vals)
        if len(vals) == 0:
            yield st, Exc("ValueError", ("No values provided",))
            return
        conv.append((i, vals))
    yield st, Rec("PoolSum", {"args": (expression, *conv)}, PoolSum)


def _zset(t):
    return Rec("zset", {"set": t})


def a_free_symbols(ex, o, st):
    return _zset(FS(o.t))


def n_zset_contains(ex, st, args, kwargs):
    cont, item = args
    yield st, SV(z3.IsMember(ex.as_obj(item), cont.attrs["set"]), "bool")


def b_set_sub(ex, a, b, st):
    s = a.attrs["set"]
    if isinstance(b, Rec) and b.cls_name == "zset":
        return _zset(z3.SetDifference(s, b.attrs["set"]))
    if isinstance(b, (set, frozenset, list, tuple)):
        for x in b:
            s = z3.SetDel(s, ex.as_obj(_unhash(x)))
        return _zset(s)
    raise TypeError("set difference with an opaque value")


def n_zset_difference(ex, st, args, kwargs):
    """s.difference(*others) = s - other1 - other2 ... (method spelling of the operator)"""
    out = args[0]
    for other in args[1:]:
        out = b_set_sub(ex, out, other, st)
    yield st, out


def n_super(ex, st, args, kwargs):
    """super() inside a PoolSum method: Basic.free_symbols = union of the free symbols of the args; an index tuple
    (i, (numbers...)) contributes {i}."""
    me = st.env.get("self")
    a = me.attrs["args"]
    s = FS(ex.as_obj(a[0]))
    for i, _ in a[1:]:
        s = z3.SetAdd(s, ex.as_obj(i))
    yield st, Rec("super", {"free_symbols": _zset(s)})


NATIVE_TEXTS = [
    "itertools.product(*pools) enumerates the cartesian product, last pool fastest (CPython contract)",
    "sp.Add(*terms) denotes the real sum of its arguments",
    "e.subs(sequence) applies the single substitutions in order; e.subs([]) is e (specified function subs1, A-subst: "
    "[[e.subs(x,c)]]_v = [[e]]_{v[x:=c]} for SymPy's own node types)",
    "e.xreplace(map) is the simultaneous structural replacement; xreplace({}) is e (A-subst for SymPy's own node types and maps "
    "that do not mention a bound index)",
    "sp.sympify is the identity on (tuples of) SymPy objects; sp.Expr.__new__(cls,*args) builds the node with exactly these args",
    "Basic.free_symbols is the union of the free symbols of the args (an index tuple (i,(numbers)) contributes {i})",
    "Basic._subs(old,new): if self is old -> new; else _eval_subs(old,new) if not None; else argument-wise substitution (fallback); "
    "Basic._eval_subs returns None",
    "sympy doit(deep=True) unfolds the args recursively (function `doit` of the expression)",
]


def executor(tag: str) -> XExecutor:
    ex = XExecutor(tag)
    N.install_basic(ex)
    ex.used = []
    ex.natives.update({
        "itertools.product": n_product, "sp.Add": n_add, "obj.subs": n_subs, "obj.xreplace": n_xreplace, "obj.doit": n_doit,
        "sp.sympify": n_sympify, "sp.Expr.__new__": n_expr_new, "super": n_super, "zset.__contains__": n_zset_contains,
        "zset.difference": n_zset_difference, "isinstance": n_isinstance,
    })
    ex.native_objs[id(PoolSum)] = n_poolsum_ctor
    ex.obj_attrs["free_symbols"] = a_free_symbols
    ex.binops[("zset", "Sub")] = b_set_sub
    ex.inline.add(PoolSum.evaluate)
    return ex


# ------------------------------------------------------------------------------------------------
# denotation
# ------------------------------------------------------------------------------------------------
class DenError(Exception):
    pass


class Den:
    """[[.]] for the terms the natives build. slots = the index symbols (and further free symbols) as z3 constants."""

    def __init__(self, e, slots, tag=""):
        self.e, self.slots = e, list(slots)
        self.names = [str(s) for s in self.slots]
        self.E = z3.Function(f"E{len(self.slots)}{tag}", *([z3.RealSort()] * len(self.slots)), z3.RealSort()) if self.slots else None
        self.E0 = z3.Real(f"E0{tag}")
        self.default = {n: z3.Real(f"d_{n}") for n in self.names}  # canonical value for a symbol not free in e
        self.env0 = {n: z3.Real(f"x_{n}") for n in self.names}  # outer valuation

    def fs(self, k):
        return z3.IsMember(self.slots[k], FS(self.e))

    def real(self, c, env):
        if isinstance(c, SV):
            c = c.t if c.sort != "real" else BOX(c.t)
        if z3.is_app(c) and c.decl().name() == "box_real":
            return c.arg(0)
        if z3.is_const(c) and str(c) in env:
            return env[str(c)]
        raise DenError(f"value {c} is neither a number nor an index symbol")

    def key(self, t):
        if z3.is_const(t) and str(t) in self.names:
            return str(t)
        raise DenError(f"substituted/bound position holds {t} which is not one of the symbols {self.names}")

    def term(self, t, env):
        nm = t.decl().name() if z3.is_app(t) else ""
        if t.eq(self.e):
            if not self.slots:
                return self.E0
            return self.E(*[z3.If(self.fs(k), env[n], self.default[n]) for k, n in enumerate(self.names)])
        if nm == "subs1":
            env2 = dict(env)
            env2[self.key(t.arg(1))] = self.real(t.arg(2), env)
            return self.term(t.arg(0), env2)
        if nm.startswith("xreplace"):
            env2 = dict(env)
            for j in range(1, t.num_args(), 2):
                env2[self.key(t.arg(j))] = self.real(t.arg(j + 1), env)
            return self.term(t.arg(0), env2)
        if nm.startswith("Add"):
            return z3.Sum([self.term(c, env) for c in t.children()]) if t.num_args() else z3.RealVal(0)
        raise DenError(f"no denotation for {nm or t}")

    def value(self, v, env):
        if isinstance(v, Rec) and v.cls_name == "PoolSum":
            a = v.attrs["args"]
            total = []
            for combo in lexprod([list(p) for _, p in a[1:]]):
                env2 = dict(env)
                for (i, _), c in zip(a[1:], combo):
                    if not isinstance(i, SV):
                        raise DenError(f"index position holds {i}")
                    env2[self.key(i.t)] = self.real(c, env)
                total.append(self.value(a[0], env2))
            return z3.Sum(total) if len(total) != 1 else total[0]
        if isinstance(v, SV) and v.sort == "obj":
            return self.term(v.t, env)
        raise DenError(f"no denotation for {type(v).__name__}")


def conj(xs):
    xs = list(xs)
    return z3.And(*xs) if xs else z3.BoolVal(True)


# ------------------------------------------------------------------------------------------------
# layer (ii): concrete family on the real class, reference evaluator
# ------------------------------------------------------------------------------------------------
R = sp.Rational
_f, _g = sp.Function("f"), sp.Function("g")


def S(name):
    return ("sym", name)


def mk(d):
    """Description -> real SymPy object (PoolSum for 'sum')."""
    k = d[0]
    if k == "sym":
        return sp.Symbol(d[1])
    if k == "num":
        return sp.sympify(d[1])
    if k == "f":
        return sp.Function(d[1])(*[mk(a) for a in d[2]])
    if k == "mul":
        return sp.Mul(*[mk(a) for a in d[1:]])
    if k == "add":
        return sp.Add(*[mk(a) for a in d[1:]])
    if k == "abs2":
        return sp.Abs(mk(d[1])) ** 2
    if k == "sum":
        return PoolSum(mk(d[1]), *[(sp.Symbol(i), pool) for i, pool in d[2]])
    raise ValueError(k)


def ref(d, env):
    """Reference semantics: the explicit finite sum, by environment passing (no subs/xreplace, own product)."""
    k = d[0]
    if k == "sym":
        return env.get(d[1], sp.Symbol(d[1]))
    if k == "num":
        return sp.sympify(d[1])
    if k == "f":
        return sp.Function(d[1])(*[ref(a, env) for a in d[2]])
    if k == "mul":
        return sp.Mul(*[ref(a, env) for a in d[1:]])
    if k == "add":
        return sp.Add(*[ref(a, env) for a in d[1:]])
    if k == "abs2":
        return sp.Abs(ref(d[1], env)) ** 2
    if k == "sum":
        total = sp.S.Zero
        names = [i for i, _ in d[2]]
        for combo in lexprod([list(p) for _, p in d[2]]):
            env2 = dict(env)
            env2.update({n: sp.sympify(c) for n, c in zip(names, combo)})
            total += ref(d[1], env2)
        return total
    raise ValueError(k)


def free_of(d, bound=frozenset()):
    k = d[0]
    if k == "sym":
        return set() if d[1] in bound else {d[1]}
    if k == "num":
        return set()
    if k == "f":
        return set().union(*[free_of(a, bound) for a in d[2]]) if d[2] else set()
    if k in {"mul", "add"}:
        return set().union(*[free_of(a, bound) for a in d[1:]])
    if k == "abs2":
        return free_of(d[1], bound)
    if k == "sum":
        return free_of(d[1], bound | {i for i, _ in d[2]})
    raise ValueError(k)


def same(a, b) -> bool:
    return sp.expand(sp.sympify(a) - sp.sympify(b)) == 0


def depth(d) -> int:
    k = d[0]
    if k in {"sym", "num"}:
        return 0
    if k == "f":
        return max([depth(a) for a in d[2]] + [0])
    if k in {"mul", "add"}:
        return max(depth(a) for a in d[1:])
    if k == "abs2":
        return depth(d[1])
    return 1 + depth(d[1])


def family(tier: str):
    """Deterministic family: (category, description)."""
    P2, PH, P1, PD, P3, PQ = (1, 2), (R(1, 2), R(-1, 2)), (0,), (1, 1, 2), (3, 4, 5), (R(2, 3), R(-5, 7), 2)
    fij = ("f", "f", [S("i"), S("j")])
    out = []
    out.append(("flat", ("sum", S("x"), [])))
    out.append(("flat", ("sum", ("f", "f", [S("i"), S("x")]), [("i", P2)])))
    out.append(("flat", ("sum", fij, [("i", P2), ("j", P3)])))
    out.append(("flat", ("sum", fij, [("j", P3), ("i", P2)])))
    out.append(("flat", ("sum", ("add", ("mul", S("i"), ("f", "g", [S("j")])), S("x")), [("i", PH), ("j", PQ)])))
    out.append(("flat", ("sum", ("f", "f", [S("i"), S("j"), S("k")]), [("i", P2), ("j", PH), ("k", P3)])))
    out.append(("singleton", ("sum", fij, [("i", P1), ("j", P2)])))
    out.append(("singleton", ("sum", ("mul", S("x"), fij), [("i", (R(3, 2),)), ("j", (7,))])))
    out.append(("duplicates", ("sum", ("f", "f", [S("i")]), [("i", PD)])))
    out.append(("duplicates", ("sum", fij, [("i", PD), ("j", (2, 2))])))
    out.append(("duplicates", ("sum", ("mul", S("i"), ("f", "g", [S("j")])), [("i", (R(1, 2), R(1, 2))), ("j", PD)])))
    inner = ("sum", fij, [("i", P2)])
    out.append(("nested depth 2", ("sum", inner, [("j", P3)])))
    out.append(("nested depth 2", ("sum", ("abs2", inner), [("j", PH)])))
    out.append(("nested depth 2", ("sum", ("mul", S("j"), ("add", inner, S("x"))), [("j", PD)])))
    fijk = ("f", "f", [S("i"), S("j"), S("k")])
    d3 = ("sum", ("sum", ("sum", fijk, [("i", P2)]), [("j", P3)]), [("k", PH)])
    out.append(("nested depth 3", d3))
    out.append(("nested depth 3", ("sum", ("abs2", ("sum", ("mul", S("k"), ("sum", fijk, [("i", PD)])), [("j", P1)])), [("k", P2)])))
    # shadowed: the inner sum binds the symbol of an outer index; the outer values collide with numbers of the inner summand
    sh_in = ("sum", ("f", "f", [S("i"), ("num", 3)]), [("i", P2)])
    out.append(("shadowed index", ("sum", ("mul", S("i"), sh_in), [("i", (3, 4))])))
    out.append(("shadowed index", ("sum", ("add", ("f", "g", [S("i")]), ("sum", ("mul", ("num", 2), ("f", "f", [S("i")])), [("i", (5, 6))])), [("i", (2, 7))])))
    out.append(("shadowed index", ("sum", ("sum", ("sum", ("f", "f", [S("i"), S("j"), ("num", 1)]), [("i", (2, 3))]), [("j", (1, 4))]), [("i", (1, 5))])))
    if tier != "quick":
        out.append(("flat", ("sum", ("f", "f", [S("i"), S("j"), S("k"), S("l")]), [("i", P2), ("j", PH), ("k", PD), ("l", P1)])))
        out.append(("duplicates", ("sum", fijk, [("i", PD), ("j", PD), ("k", (4, 4))])))
        out.append(("nested depth 3", ("sum", ("sum", ("mul", S("x"), ("sum", fijk, [("k", PQ)])), [("j", PQ)]), [("i", PQ)])))
        out.append(("shadowed index", ("sum", ("mul", S("j"), ("sum", ("f", "f", [S("j"), ("num", 2), S("i")]), [("j", (1, 3))])), [("i", P2), ("j", (2, 9))])))
    return out


def cleanup_family(tier: str):
    """(category, description) for cleanup; 'unused multi' is the named finding's class."""
    fi = ("f", "f", [S("i")])
    fij = ("f", "f", [S("i"), S("j")])
    out = [
        ("unused index with pool size 1", ("sum", S("x"), [("i", (4,))])),
        ("unused index with pool size 1", ("sum", fi, [("i", (1, 2)), ("j", (R(1, 2),))])),
        ("single-valued index", ("sum", fij, [("i", (3,)), ("j", (1, 2))])),
        ("single-valued index", ("sum", ("mul", S("x"), fij), [("i", (R(1, 2),)), ("j", (R(-1, 2),))])),
        ("multi-valued index", ("sum", fij, [("i", (1, 1, 2)), ("j", (3, 4))])),
        ("multi-valued index", ("sum", fij, [("j", (3, 4)), ("i", (2, 1))])),
        ("nested summand", ("sum", ("mul", S("j"), ("sum", fij, [("i", (1, 2))])), [("j", (5,))])),
        ("nested summand", ("sum", ("abs2", ("sum", ("f", "f", [S("i"), S("j"), S("k")]), [("i", (1, 2))])), [("j", (R(1, 2),)), ("k", (0, 1))])),
        ("nested summand shadowing the substituted index", ("sum", ("mul", S("i"), ("sum", ("f", "f", [S("i"), ("num", 7)]), [("i", (1, 2))])), [("i", (7,))])),
        ("unused multi", ("sum", S("x"), [("i", (0, 1, 2))])),
        ("unused multi", ("sum", fi, [("i", (1, 2)), ("j", (3, 3))])),
    ]
    return out


def _rec(ok, **kw):
    return {"reproduced": not ok, **{k: str(v) for k, v in kw.items()}}


def check_doit(d):
    P = mk(d)
    got, want = P.doit(), ref(d, {})
    return _rec(same(got, want) and not sp.sympify(got).has(PoolSum), input=P, observed=got, expected=want, what="doit() vs explicit product sum")


def check_evaluate_shallow(d):
    P = mk(d)
    return _rec(P.doit(deep=False) == P.evaluate(), input=P, observed=P.doit(deep=False), expected=P.evaluate(), what="doit(deep=False) vs evaluate()")


def check_free_symbols(d):
    P = mk(d)
    want = {sp.Symbol(n) for n in free_of(d)}
    return _rec(P.free_symbols == want, input=P, observed=P.free_symbols, expected=want, what="free_symbols")


def check_subs_free(d):
    P = mk(d)
    y = sp.Symbol("y")
    for n in sorted(free_of(d)):
        for t in (sp.Integer(7), y + 1, R(1, 2)):
            got = P.subs(sp.Symbol(n), t).doit()
            want = ref(d, {n: t})
            if not same(got, want):
                return _rec(False, input=f"{P}.subs({n}, {t}).doit()", observed=got, expected=want, what="substituting a free symbol commutes with evaluation")
            got = P.xreplace({sp.Symbol(n): t}).doit()
            if not same(got, want):
                return _rec(False, input=f"{P}.xreplace({{{n}: {t}}}).doit()", observed=got, expected=want, what="xreplace of a free symbol commutes with evaluation")
    return _rec(True, input=P)


def pool_variants(d):
    """Descriptions with the same summand whose top-level pools have the same SET of values but another multiplicity or order."""
    if d[0] != "sum" or not d[2]:
        return []
    out = []
    for k, (i, pool) in enumerate(d[2]):
        uniq = tuple(dict.fromkeys(pool))
        for v in (uniq, tuple(reversed(pool)), (pool[0], *pool), (*pool, pool[-1])):
            if tuple(v) != tuple(pool):
                out.append((d[0], d[1], [*d[2][:k], (i, tuple(v)), *d[2][k + 1:]]))
    seen, res = set(), []
    for v in out:
        if repr(v) not in seen:
            seen.add(repr(v))
            res.append(v)
    return res


def check_session(d):
    """Several sums in one session: evaluation, substitution and term collection of one sum are not disturbed by another sum with the
    same summand and the same set of pool values (SymPy caches subs and collects like terms by == / hash, so two sums may only compare
    equal when they denote the same value)."""
    P = mk(d)
    want = ref(d, {})
    y = sp.Symbol("y")
    for k, dv in enumerate(pool_variants(d)):
        Pv = mk(dv)
        want_v = ref(dv, {})
        if (P == Pv or hash(P) == hash(Pv) and P == Pv) and not same(want, want_v):
            return _rec(False, input=f"{P} == {Pv}", observed="compare equal", expected=f"different sums ({want} vs {want_v}) are different expressions",
                        what="equality of PoolSum respects its value")
        for n in sorted(free_of(d)):
            t = sp.Integer(101 + k) + y
            Pv.subs(sp.Symbol(n), t).doit()  # the other sum first
            got = P.subs(sp.Symbol(n), t).doit()
            if not same(got, ref(d, {n: t})):
                return _rec(False, input=f"{Pv}.subs({n}, {t}); then {P}.subs({n}, {t}).doit()", observed=got, expected=ref(d, {n: t}),
                            what="substitution in one sum after the same substitution in a sum with other pool multiplicities")
        got = (P + 2 * Pv).doit()
        if not same(got, want + 2 * want_v):
            return _rec(False, input=f"({P} + 2*{Pv}).doit()", observed=got, expected=want + 2 * want_v, what="linear combination of two sums")
        got = (P - Pv).doit()
        if not same(got, want - want_v):
            return _rec(False, input=f"({P} - {Pv}).doit()", observed=got, expected=want - want_v, what="difference of two sums")
    return _rec(True, input=P)


def bound_of(d):
    return [i for i, _ in d[2]] if d[0] == "sum" else []


def check_subs_bound(d):
    P = mk(d)
    for n in bound_of(d):
        for m in ({sp.Symbol(n): 5}, {sp.Symbol(n): sp.Symbol("y"), sp.Symbol("x"): 2}):
            got = P.subs(m)
            m_free = {str(k): sp.sympify(v) for k, v in m.items() if str(k) != n}
            want = ref(d, m_free)
            ok = True
            try:
                ok = same(got.doit(), want) and (got == P if not m_free or not free_of(d) & set(m_free) else True)
            except Exception as e:  # noqa: BLE001
                got, ok = f"{got} -> {type(e).__name__}: {e}", False
            if not ok:
                return _rec(False, input=f"{P}.subs({m})", observed=got, expected=f"{P} (value {want})", what="substitution for a summation index leaves the sum unchanged")
    return _rec(True, input=P)


def check_cleanup(d):
    P = mk(d)
    got = sp.sympify(P.cleanup())
    want = ref(d, {})
    return _rec(same(got.doit(), want), input=P, observed=f"{got}  (value {got.doit()})", expected=want, what="cleanup() preserves the value")


def locate_unfold():
    f = getattr(AH, "_unfold_poolsums", None)
    if callable(f):
        return f, "ampform.helicity._unfold_poolsums"
    fget = inspect.getattr_static(AH.HelicityModel, "expression").fget
    for c in fget.__code__.co_consts:
        if isinstance(c, types.CodeType) and "unfold" in c.co_name:
            return types.FunctionType(c, fget.__globals__), FH
    return None, FH


def model_expression(P):
    """The real HelicityModel.expression on a model whose intensity is P (no amplitudes)."""
    m = object.__new__(AH.HelicityModel)
    object.__setattr__(m, "intensity", P)
    object.__setattr__(m, "amplitudes", {})
    return m.expression


def check_unfold(d):
    P = mk(d)
    got = model_expression(P)
    want = ref(d, {})
    left = sorted(str(x) for x in sp.sympify(got).atoms(PoolSum))
    ok = same(sp.sympify(got).doit(), want) and not left
    return _rec(ok, input=f"HelicityModel(intensity={P}).expression", observed=got, expected=f"{want} (no PoolSum left; doit() gives it)", what="expression unfolds every PoolSum")


def first_failure(items, fn):
    n = 0
    for cat, d in items:
        n += 1
        try:
            r = fn(d)
        except Exception as e:  # noqa: BLE001
            r = {"reproduced": True, "input": str(mk(d)), "observed": f"{type(e).__name__}: {e}"}
        if r["reproduced"]:
            r["category"] = cat
            return r, n
    return {"reproduced": False, "note": f"{n} instances agree with the reference evaluator"}, n


def search(model=None, tier="quick", skip_known=True):
    """Property-level search on the real class (replay of lemma obligations)."""
    fam = family(tier)
    for fn in (check_doit, check_evaluate_shallow, check_free_symbols, check_subs_free, check_subs_bound, check_session):
        r, _ = first_failure(fam, fn)
        if r["reproduced"]:
            return r
    r, _ = first_failure([(c, d) for c, d in cleanup_family(tier) if not (skip_known and c == "unused multi")], check_cleanup)
    return r


def search_only(fn, items):
    def rep(model=None):
        return first_failure(items, fn)[0]

    return rep


# ------------------------------------------------------------------------------------------------
# build
# ------------------------------------------------------------------------------------------------
def build_evaluate(chk: Check, shp) -> None:
    fam = family(chk.tier)
    rep = search_only(check_doit, [x for x in fam if x[0] in {"flat", "singleton", "duplicates"}])
    for shape in shp:
        nm = shape_name(shape)
        ex = executor("ev")
        me, e, idx, pools = make_self(shape)
        st = State()
        st.pc += distinct(idx)
        outs, msg = run_guarded(ex, PoolSum.evaluate, [me], st=st)
        ok = outs is not None and len(outs) == 1 and outs[0].kind == "return" and isinstance(outs[0].value, SV)
        chk.struct(f"evaluate[{nm}].in_supported_subset", ok, F + "evaluate", witness=msg or (None if ok else f"{len(outs or [])} outcomes"),
                   lemma=True, replay=search)
        if not ok:
            continue
        got = outs[0].value.t
        # spec as a term: Add over the product (own enumeration) of the sequential substitution of every index
        want_terms = []
        for combo in lexprod([list(p) for p in pools]):
            t = e.t
            for i, c in zip(idx, combo):
                t = SUBS1(t, i.t, BOX(c.t))
            want_terms.append(t)
        got_terms = list(got.children()) if z3.is_app(got) and got.decl().name().startswith("Add") else None
        if got_terms is None or len(got_terms) != len(want_terms):
            claim = z3.BoolVal(False)
        else:
            # a bijection between the summands proves equality of the sums (Add is commutative): match syntactically equal
            # terms first, pair the rest positionally
            rest = list(range(len(got_terms)))
            pairs = []
            for w in want_terms:
                j = next((j for j in rest if got_terms[j].eq(w)), rest[0])
                rest.remove(j)
                pairs.append(got_terms[j] == w)
            claim = conj(pairs)
        chk.smt(f"evaluate[{nm}]==Add(subs(expression;zip(indices;c)) for c in product)", list(st.pc), claim, function=F + "evaluate", replay=rep,
                tactics=("default",))
        den = Den(e.t, [i.t for i in idx])
        try:
            lhs = den.term(got, den.env0)
            spec = z3.Sum([den.E(*[z3.If(den.fs(k), c[k].t, den.default[den.names[k]]) for k in range(len(idx))]) for c in lexprod([list(p) for p in pools])]) if idx else den.E0
            chk.smt(f"evaluate[{nm}].denotes_sum_over_cartesian_product", list(st.pc), lhs == spec, function=F + "evaluate", replay=rep, tactics=("default",))
        except DenError as err:
            chk.struct(f"evaluate[{nm}].denotes_sum_over_cartesian_product", False, F + "evaluate", witness=str(err), replay=rep)
    # engine self-test: a false postcondition must be refuted
    ex = executor("st")
    me, e, idx, pools = make_self(("2", "3"))
    st = State()
    st.pc += distinct(idx)
    outs, _ = run_guarded(ex, PoolSum.evaluate, [me], st=st)
    if outs and isinstance(outs[0].value, SV):
        den = Den(e.t, [i.t for i in idx])
        try:
            got_val = den.term(outs[0].value.t, den.env0)
        except DenError:
            got_val = z3.Real("undenotable")
        wrong = den.E(pools[0][0].t, pools[1][0].t)  # only the first combination instead of the sum over all six
        chk.mustfail("selftest.evaluate.sum_is_not_its_first_summand", list(st.pc) + [den.fs(0), den.fs(1)], got_val == wrong, function=F + "evaluate")
        chk.cover("evaluate[pools=2x3].cover", list(st.pc) + [den.fs(0), z3.Not(den.fs(1))], F + "evaluate")


def build_new(chk: Check, shp) -> None:
    rep = search_only(check_doit, [x for x in family(chk.tier) if x[0] in {"flat", "singleton", "duplicates"}])
    for shape in shp:
        if len(shape) > 2:
            continue
        nm = shape_name(shape)
        for ev in (False, True):
            ex = executor("new")
            me, e, idx, pools = make_self(shape, pools_as=list)
            st = State()
            st.pc += distinct(idx)
            outs, msg = run_guarded(ex, PoolSum.__new__, [PoolSum, e, *[(i, p) for i, p in zip(idx, pools)]], {"evaluate": ev}, st=st)
            ok = outs is not None and len(outs) == 1 and outs[0].kind == "return"
            tag = f"__new__[{nm} evaluate={ev}]"
            chk.struct(f"{tag}.in_supported_subset_and_returns", ok, F + "__new__", witness=msg or None, lemma=True, replay=search)
            if not ok:
                continue
            v = outs[0].value
            if not ev:
                good = isinstance(v, Rec) and v.cls_name == "PoolSum" and len(v.attrs["args"]) == 1 + len(idx) and v.attrs["args"][0] is e
                if good:
                    for (i2, p2), i, p in zip(v.attrs["args"][1:], idx, pools):
                        good = good and i2 is i and isinstance(p2, tuple) and len(p2) == len(p) and all(a is b for a, b in zip(p2, p))
                chk.struct(f"{tag}.args==(expression;(index;tuple(pool))...) in order with duplicates kept", good, F + "__new__", witness=str(v)[:300], replay=rep)
            else:
                ex2 = executor("new2")
                me2, *_ = make_self(shape)
                st2 = State()
                st2.pc += distinct(idx)
                outs2, _ = run_guarded(ex2, PoolSum.evaluate, [me2], st=st2)
                good = bool(outs2) and isinstance(v, SV) and isinstance(outs2[0].value, SV) and v.t.eq(outs2[0].value.t)
                chk.struct(f"{tag}.returns evaluate() of the stored node", good, F + "__new__", witness=str(v)[:300], replay=rep)
    # empty pool -> ValueError, on every path
    ex = executor("new0")
    me, e, idx, pools = make_self(("2", "1"), pools_as=list)
    outs, msg = run_guarded(ex, PoolSum.__new__, [PoolSum, e, (idx[0], pools[0]), (idx[1], [])], {})
    chk.struct("__new__[empty pool].in_supported_subset", outs is not None, F + "__new__", witness=msg or None, lemma=True, replay=search)
    if outs is None:
        return
    ok = bool(outs) and all(o.kind == "raise" and o.value.type_name == "ValueError" for o in outs)

    def rep_empty(model=None):
        try:
            r = PoolSum(sp.Symbol("x"), (sp.Symbol("i"), ()))
        except ValueError as err:
            return {"reproduced": False, "observed": f"ValueError: {err}"}
        return {"reproduced": True, "input": "PoolSum(x, (i, ()))", "expected": "ValueError", "observed": str(r)}

    chk.struct("__new__[empty pool].raises_ValueError", ok, F + "__new__", witness=msg or str(outs)[:200], replay=rep_empty)


def build_doit(chk: Check) -> None:
    fam = family(chk.tier)
    ex = executor("doit")
    ex.natives["PoolSum.evaluate"] = lambda ex_, st_, args, kw: iter([(st_, SV(EVAL(ex_.as_obj(args[0])), "obj"))])
    me, *_ = make_self(("2",))
    deep = z3.Bool("deep")
    outs, msg = run_guarded(ex, PoolSum.doit, [me, SV(deep, "bool")])
    ok = bool(outs) and all(o.kind == "return" and isinstance(o.value, SV) for o in outs)
    chk.struct("doit.in_supported_subset", ok, F + "doit", witness=msg or None, lemma=True, replay=search)
    if not ok:
        return
    ev = EVAL(ex.as_obj(me))
    # `self` is cloned on forks: every clone is the same heap object, so identify their constants
    hy = []
    for o in outs:
        for c in _consts_named(o.value.t, "py:rec:PoolSum@"):
            hy.append(c == ex.as_obj(me))
    rep_d = search_only(check_evaluate_shallow, [x for x in fam if x[0].startswith("nested")])
    rep_n = search_only(check_doit, [x for x in fam if x[0].startswith("nested")])
    chk.smt("doit[deep=False]==evaluate()", hy, conj(z3.Implies(z3.And(*o.st.pc, z3.Not(deep)), o.value.t == ev) for o in outs), function=F + "doit",
            replay=rep_d, tactics=("default",))
    chk.smt("doit[deep=True]==evaluate().doit()", hy, conj(z3.Implies(z3.And(*o.st.pc, deep), o.value.t == DOIT(ev)) for o in outs), function=F + "doit",
            replay=rep_n, tactics=("default",))
    chk.cover("doit.cover[deep=False]", hy + [z3.Or(*[z3.And(*o.st.pc, z3.Not(deep)) for o in outs])], F + "doit")
    chk.cover("doit.cover[deep=True]", hy + [z3.Or(*[z3.And(*o.st.pc, deep) for o in outs])], F + "doit")


def _consts_named(t, prefix, acc=None):
    acc = [] if acc is None else acc
    if z3.is_const(t) and str(t).startswith(prefix):
        if not any(t.eq(x) for x in acc):
            acc.append(t)
    for c in t.children():
        _consts_named(c, prefix, acc)
    return acc


def build_free_symbols(chk: Check, shp) -> None:
    fam = family(chk.tier)
    rep = search_only(check_free_symbols, fam)
    fget = inspect.getattr_static(PoolSum, "free_symbols").fget
    for shape in shp:
        if len(shape) > 3 or any(t.endswith("d") for t in shape) or len(set(shape)) > 1:
            continue  # the pool sizes do not matter here: one structure per number of indices and pool size
        nm = shape_name(shape)
        ex = executor("fs")
        me, e, idx, pools = make_self(shape)
        st = State()
        st.pc += distinct(idx)
        outs, msg = run_guarded(ex, fget, [me], st=st)
        ok = outs is not None and len(outs) == 1 and outs[0].kind == "return" and isinstance(outs[0].value, Rec) and outs[0].value.cls_name == "zset"
        chk.struct(f"free_symbols[{nm}].in_supported_subset", ok, F + "free_symbols", witness=msg or None, lemma=True, replay=search)
        if not ok:
            continue
        want = FS(e.t)
        for i in idx:
            want = z3.SetDel(want, i.t)
        chk.smt(f"free_symbols[{nm}]==summand.free_symbols-indices", list(st.pc), outs[0].value.attrs["set"] == want, function=F + "free_symbols", replay=rep,
                tactics=("default",))
        if shape == ("2",):
            chk.mustfail("selftest.free_symbols.not_all_of_the_summand", list(st.pc), outs[0].value.attrs["set"] == FS(e.t), function=F + "free_symbols")


def build_cleanup(chk: Check, shp) -> None:
    cf = cleanup_family(chk.tier)
    ok_items = [x for x in cf if x[0] != "unused multi"]
    rep_ok = search_only(check_cleanup, ok_items)
    known_parts = []
    nmax_known = 2 if chk.tier == "quick" else 3
    methods = set()
    for shape in shp:
        nm = shape_name(shape)
        ex = executor("cl")
        me, e, idx, pools = make_self(shape)
        st = State()
        st.pc += distinct(idx)
        outs, msg = run_guarded(ex, PoolSum.cleanup, [me], st=st)
        ok = bool(outs) and all(o.kind == "return" for o in outs)
        chk.struct(f"cleanup[{nm}].in_supported_subset_and_never_raises", ok, F + "cleanup", witness=msg or None, lemma=True, replay=lambda m=None: search(m, chk.tier))
        if not ok:
            continue
        methods |= set(ex.used)
        den = Den(e.t, [i.t for i in idx])
        self_val = den.value(me, den.env0)
        sizes = [len(p) for p in pools]
        guard = conj(den.fs(k) for k in range(len(idx)) if sizes[k] != 1)
        value_ok, known, c_sub, c_keep, c_order, c_nosub = [], [], [], [], [], []
        bad_den = None
        for o in outs:
            pc = z3.And(*o.st.pc) if o.st.pc else z3.BoolVal(True)
            v = o.value
            try:
                res_val = den.value(v, den.env0)
                value_ok.append(z3.Implies(z3.And(pc, guard), res_val == self_val))
                if len(shape) <= nmax_known:
                    known.append(z3.Implies(z3.And(pc, z3.Not(guard)), res_val == self_val))
            except DenError as err:
                bad_den = str(err)
            # structure of the result
            if isinstance(v, Rec) and v.cls_name == "PoolSum":
                body, kept = v.attrs["args"][0], list(v.attrs["args"][1:])
            else:
                body, kept = v, []
            smap = _subst_map(body, e.t)
            kept_pos = []
            for k, (i, p) in enumerate(zip(idx, pools)):
                hit = [j for j, (i2, p2) in enumerate(kept) if i2 is i]
                same_pool = bool(hit) and len(kept[hit[0]][1]) == len(p) and all(a is b for a, b in zip(kept[hit[0]][1], p))
                if hit:
                    kept_pos.append(hit[0])
                if sizes[k] == 1:
                    sub_ok = smap is not None and not hit and any(kk.eq(i.t) and vv.eq(BOX(p[0].t)) for kk, vv in smap)
                    c_sub.append(z3.Implies(z3.And(pc, den.fs(k)), z3.BoolVal(sub_ok)))
                else:
                    c_keep.append(z3.Implies(z3.And(pc, den.fs(k)), z3.BoolVal(same_pool)))
            c_order.append(z3.Implies(pc, z3.BoolVal(kept_pos == sorted(kept_pos) and len(set(kept_pos)) == len(kept) == len(kept_pos))))
            singles = [i.t for i, s in zip(idx, sizes) if s == 1]
            c_nosub.append(z3.Implies(pc, z3.BoolVal(smap is not None and all(any(kk.eq(s) for s in singles) for kk, _ in smap))))
        hyp = list(distinct(idx))
        if bad_den:
            chk.struct(f"cleanup[{nm}].preserves_value|every index with pool size != 1 occurs in the summand", False, F + "cleanup", witness=bad_den, replay=rep_ok)
        else:
            chk.smt(f"cleanup[{nm}].preserves_value|every index with pool size != 1 occurs in the summand", hyp, conj(value_ok), function=F + "cleanup",
                    replay=rep_ok, tactics=("default",))
        chk.smt(f"cleanup[{nm}].single-valued used index is substituted by its value and dropped", hyp, conj(c_sub), function=F + "cleanup", replay=rep_ok, tactics=("default",))
        chk.smt(f"cleanup[{nm}].used index with several values is kept with its pool (duplicates included)", hyp, conj(c_keep), function=F + "cleanup", replay=rep_ok,
                tactics=("default",))
        chk.smt(f"cleanup[{nm}].order of the remaining indices is preserved", hyp, conj(c_order), function=F + "cleanup", replay=rep_ok, tactics=("default",))
        chk.smt(f"cleanup[{nm}].nothing but single-valued indices is substituted", hyp, conj(c_nosub), function=F + "cleanup", replay=rep_ok, tactics=("default",))
        known_parts += known
        if shape == ("3", "1"):
            chk.cover("cleanup[pools=3x1].cover[index 0 unused; index 1 used]", hyp + [z3.Not(den.fs(0)), den.fs(1)], F + "cleanup")
            chk.mustfail("selftest.cleanup.value_is_not_always_preserved", hyp, conj(z3.Implies(z3.And(*o.st.pc), den.value(o.value, den.env0) == self_val) for o in outs),
                         function=F + "cleanup")

    def rep_known(model=None):
        return first_failure([x for x in cf if x[0] == "unused multi"], check_cleanup)[0]

    chk.smt("PoolSum.cleanup.preserves_value[unused_index;pool_size!=1]", [], conj(known_parts), function=F + "cleanup", replay=rep_known, tactics=("default",),
            note="index absent from the summand with a pool of size != 1: the spec multiplies by the pool size, cleanup() drops the index")
    # the substitution of single-valued indices has to respect binders of nested sums: xreplace is purely structural
    rep_sh = search_only(check_cleanup, [x for x in cf if x[0] == "nested summand shadowing the substituted index"])
    chk.struct("PoolSum.cleanup.substitutes_with_binder_respecting_subs[nested sum shadowing the index]", "xreplace" not in methods and "subs" in methods,
               F + "cleanup", witness=f"substitution method(s) applied to the summand: {sorted(methods)}; xreplace rewrites bound indices of nested sums", replay=rep_sh)


def _subst_map(body, e):
    """[(key term, value term)] of the substitution applied to the bare summand e, or None if body is not of that form."""
    if not isinstance(body, SV):
        return None
    t = body.t
    out = []
    while not t.eq(e):
        nm = t.decl().name() if z3.is_app(t) else ""
        if nm == "subs1":
            out.append((t.arg(1), t.arg(2)))
        elif nm.startswith("xreplace"):
            out += [(t.arg(j), t.arg(j + 1)) for j in range(1, t.num_args(), 2)]
        else:
            return None
        t = t.arg(0)
    return out


def build_subs(chk: Check) -> None:
    fam = family(chk.tier)
    rep_b = search_only(check_subs_bound, fam)
    rep_f = search_only(check_subs_free, fam)
    raw = inspect.getattr_static(PoolSum, "_eval_subs", None)
    own = raw is not None and getattr(raw, "__module__", "") .startswith("ampform")
    chk.extra["PoolSum._eval_subs"] = "defined by ampform" if own else "inherited from sympy.Basic (returns None -> argument-wise fallback)"
    new = SV(z3.Const("t_new", Obj), "obj")
    bound_claims = []
    for shape in (("2",), ("2", "3"), ("1", "2", "2")):
        nm = shape_name(shape)
        for k in range(len(shape)):
            me, e, idx, pools = make_self(shape, tag=f"_{len(shape)}{k}")
            st = State()
            st.pc += distinct(idx)
            if own:
                ex = executor("sb")
                outs, msg = run_guarded(ex, raw, [me, idx[k], new], st=st)
                ok = bool(outs) and all(o.kind == "return" for o in outs)
                chk.struct(f"_eval_subs[{nm} old=index{k}].in_supported_subset", ok, F + "_eval_subs", witness=msg or None, lemma=True, replay=rep_b)
                if not ok:
                    continue
                res = [(o.st.pc, isinstance(o.value, Rec) and o.value.attrs.get("__id__") == "SELF" and o.value.attrs["args"] is me.attrs["args"]) for o in outs]
            else:
                chk.struct(f"_eval_subs[{nm} old=index{k}].in_supported_subset", True, F + "_eval_subs", witness="inherited Basic._eval_subs: returns None", lemma=True, replay=rep_b)
                res = [(st.pc, False)]  # Basic._eval_subs -> None -> fallback rebuilds the node with index_k.subs(index_k, new) = new
            bound_claims += [z3.Implies(z3.And(*pc) if pc else z3.BoolVal(True), z3.BoolVal(good)) for pc, good in res]
        # free symbol: must fall back to argument-wise substitution (indices and pools untouched), which commutes with evaluation
        me, e, idx, pools = make_self(shape)
        x = SV(z3.Const("x_free", Obj), "obj")
        st = State()
        st.pc += [z3.Distinct(x.t, *[i.t for i in idx])]
        if own:
            ex = executor("sf")
            outs, msg = run_guarded(ex, raw, [me, x, new], st=st)
            ok = bool(outs) and all(o.kind == "return" for o in outs)
            chk.struct(f"_eval_subs[{nm} old=free symbol].in_supported_subset", ok, F + "_eval_subs", witness=msg or None, lemma=True, replay=rep_f)
            if not ok:
                continue
            vals = [(o.st.pc, o.value) for o in outs]
        else:
            chk.struct(f"_eval_subs[{nm} old=free symbol].in_supported_subset", True, F + "_eval_subs", witness="inherited Basic._eval_subs: returns None", lemma=True, replay=rep_f)
            vals = [(st.pc, None)]
        den = Den(e.t, [i.t for i in idx] + [x.t])
        T = z3.Real("T_new")  # [[t]]_v ; t does not mention an index (requires)
        env_sub = dict(den.env0)
        env_sub["x_free"] = T
        want = den.value(me, env_sub)  # [[P]]_{v[x:=[[t]]]}
        claims = []
        for pc, v in vals:
            if v is None:  # fallback: PoolSum(e.subs(x,t), (i_k.subs(x,t) = i_k, pools.subs = pools))
                v = Rec("PoolSum", {"args": (SV(SUBS1(e.t, x.t, BOX(T)), "obj"), *me.attrs["args"][1:])}, PoolSum)
            try:
                claims.append(z3.Implies(z3.And(*pc), den.value(v, den.env0) == want))
            except DenError:
                claims.append(z3.BoolVal(False))
        chk.smt(f"subs[{nm} old=free symbol].commutes_with_evaluation", [], conj(claims), function=F + "_eval_subs", replay=rep_f, tactics=("default",),
                note="L-subst, free case: [[P.subs(x,t)]]_v = [[P]]_{v[x:=[[t]]_v]}")


    chk.smt("PoolSum.subs[bound index].returns_the_sum_unchanged", [], conj(bound_claims), function=F + "_eval_subs", replay=rep_b, tactics=("default",),
            note="L-subst, bound-variable case: x is an index of P => P.subs(x,t) is P (structures 2 / 2x3 / 1x2x2, every position)")


def build_instances(chk: Check) -> None:
    fam = family(chk.tier)
    cats = []
    for c, _ in fam:
        if c not in cats:
            cats.append(c)

    def group(name, fn, items, function, cat):
        r, n = first_failure(items, fn)
        chk.struct(f"instances.{name}[{cat}]", not r["reproduced"], function, witness={**r, "instances": n}, replay=lambda m=None, r=r: r, bounded=True)

    for cat in cats:
        items = [x for x in fam if x[0] == cat]
        group("doit==explicit_product_sum", check_doit, items, F + "doit", cat)
        group("free_symbols==summand_minus_indices", check_free_symbols, items, F + "free_symbols", cat)
        group("subs_of_free_symbol_commutes_with_evaluation", check_subs_free, items, F + "_eval_subs", cat)
    group("doit(deep=False)==evaluate()", check_evaluate_shallow, fam, F + "doit", "all")
    group("subs_of_summation_index_leaves_sum_unchanged", check_subs_bound, fam, F + "_eval_subs", "all")
    for cat in cats:
        group("several_sums_in_one_session_keep_their_values", check_session, [x for x in fam if x[0] == cat], F + "_hashable_content", cat)
    cf = cleanup_family(chk.tier)
    ccats = []
    for c, _ in cf:
        if c not in ccats and c != "unused multi":
            ccats.append(c)
    for cat in ccats:
        group("cleanup_preserves_value", check_cleanup, [x for x in cf if x[0] == cat], F + "cleanup", cat)
    # HelicityModel.expression: unfolding by xreplace vs the reference
    fn, where = locate_unfold()
    chk.struct("HelicityModel.expression.unfold_poolsums.located", fn is not None, FH, witness=where, lemma=True, replay=search)
    for dmax, label in ((1, "depth 1"), (2, "depth 2"), (3, "depth 3")):
        items = [x for x in fam if depth(x[1]) == dmax and x[0] != "shadowed index"]
        group("HelicityModel.expression_unfolds_every_PoolSum", check_unfold, items, FH, label)
    group("HelicityModel.expression_unfolds_every_PoolSum", check_unfold, [x for x in fam if x[0] == "shadowed index" and depth(x[1]) <= 2], FH, "shadowed index")


def smoke(chk: Check) -> None:
    """Assumed contracts of the dependencies, smoke-checked against the real dependency on every run."""
    x, i, j = sp.symbols("x i j")
    f = sp.Function("f")
    facts = {
        "subs([]) is the identity": f(i).subs([]) == f(i),
        "xreplace({}) is the identity": f(i).xreplace({}) == f(i),
        "sequential subs of distinct symbols by numbers": f(i, j).subs([(i, 1), (j, 2)]) == f(1, 2),
        "Basic._eval_subs returns None": sp.Basic._eval_subs(x, i, j) is None,
        "itertools.product order": list(itertools.product((1, 2), (3, 4))) == [(1, 3), (1, 4), (2, 3), (2, 4)],
        "free_symbols of an args tuple": sp.Tuple(i, sp.Tuple(1, 2)).free_symbols == {i},
        "Add.doit unfolds its args": (sp.Integer(2) * PoolSum(f(i), (i, (1, 2))) + x).doit() == 2 * f(1) + 2 * f(2) + x,
    }
    bad = [k for k, v in facts.items() if not v]
    chk.struct("dependencies.assumed_contracts_smoke_check", not bad, "sympy / itertools", witness=bad, lemma=True, replay=search)


def build(chk: Check) -> None:
    chk.trust("z3 5.1.0 unsat answers; the E3 executor vlib/pyvc.py with the extensions of contracts/e3x.py")
    for a in NATIVE_TEXTS:
        chk.assume("native contract: " + a)
    for a in N.install_basic(XExecutor("x")):
        chk.assume("native contract: " + a)
    chk.assume("requires: index symbols pairwise distinct (Distinct in every path condition); a repeated index symbol is outside the spec")
    chk.assume("requires: pool values are numbers (rational in the property text; symbolic reals here) without free symbols")
    chk.assume("requires (L-subst): replacement terms do not mention index symbols (no capture); stated for subs, for xreplace only on maps not mentioning an index")
    chk.assume("A-subst: substitution lemma for subs/xreplace on SymPy's own node types; for PoolSum it is an obligation (subs[...])")
    chk.assume("denotation: the abstract summand is an uninterpreted real function of the values of the index symbols that are in its free_symbols")
    shp = shapes(chk.tier)
    chk.extra["structures"] = {"count": len(shp), "rule": "0..3 (thorough 0..4) indices x pool shapes 1,2,3,2d(uplicate) (+3d thorough); exhaustive over this list"}
    smoke(chk)
    build_evaluate(chk, shp)
    build_new(chk, shp)
    build_doit(chk)
    build_free_symbols(chk, shp)
    build_cleanup(chk, shp)
    build_subs(chk)
    build_instances(chk)
    own = [m for m in ("_hashable_content", "__eq__", "__hash__", "__ne__", "compare") if m in PoolSum.__dict__]
    chk.assume("SymPy's Basic.__eq__/__hash__ compare type and args (dependency contract); PoolSum.__new__ stores (expression, *(index, Tuple(values))) in args (proved: new[...] obligations)")
    chk.struct("PoolSum.equality_is_structural_equality_of_args", not own, F + "_hashable_content", witness=own, lemma=True, replay=search,
               note="with args = (expression, (index, ordered values with multiplicity)...), equal sums have equal pools, hence equal values (for all sums)")
