"""C20 — phase-space boundary functions classify three-body kinematics correctly.

Under contract (kinematics/phasespace.py): Kallen.evaluate, Kibble.evaluate,
compute_third_mandelstam, is_within_phasespace.

All obligations are over all real values of the named variables (no bound). The real functions are
called on symbols; nested Kallen/Kibble nodes are replaced by their contracts (specs_kin.py) or, in the
lemma chain, by fresh variables constrained by already-proved lemmas.
"""

from __future__ import annotations

import itertools

import numpy as np
import sympy as sp
import z3

from ampform.kinematics import phasespace as PS
from contracts import specs_kin as K
from vlib import e1
from vlib.core import Check
from vlib.tr import CONE, Cx, Tr

LEVEL = "proof"
ENGINE = 'E1 exprvc'
CLAIM = (
    "Third Mandelstam = actual invariant mass squared, Kibble <= 0 and indicator = 1 on every physical event (Gram + Lagrange identities), indicator = 1 iff sigma2 within the PDG limits on the bounding box else the caller's outside value (factorisation over sqrt(sigma1) + sign lemma), Kallen totally symmetric and factorised: all as SMT obligations over all real values, no bound."
)
NOTE = (
    "Trusted: z3 5.1 / cvc5 1.0.3 'unsat' answers; the SymPy-node -> SMT translation table (vlib/tr.py), cross-checked on every run at each cover model against numpy evaluation of the real tree; floats treated as exact reals (A-arith); per-event semantics of array expressions (A-batch). Lemma obligations (body meets spec, Gram/Lagrange/factor identities) are internal proof steps; a refuted lemma is reported as a violation only when the property-level replay on the real code reproduces a failure."
)
TECHNIQUE = (
    "contract-based deductive verification: E1 denotational VCs on the SymPy trees returned by the real "
    "functions; lemma chain (Gram identity, Lagrange identity, factorisation over sqrt(sigma1)) discharged by z3 nlsat / cvc5"
)
F = "ampform.kinematics.phasespace."


def _num(expr, model, names):
    subs = {sp.Symbol(n, **kw): float(model.get(n, 0.0)) for n, kw in names}
    return complex(sp.N(expr.doit().xreplace(subs)))


def search(model=None):
    """Property-level replay for lemma obligations: run the *real* functions on a deterministic sample of
    physical events and of points of the bounding box, and report the first input on which the statement of
    C20 itself fails (third Mandelstam, Kibble <= 0, indicator, PDG limits, Kallen symmetry/factorisation)."""
    rng = np.random.default_rng(20)
    s1_, s2_, m0_, m1_, m2_, m3_, o_ = sp.symbols("sigma1 sigma2 m0 m1 m2 m3 outside", real=True)
    ind = sp.lambdify([s1_, s2_, m0_, m1_, m2_, m3_, o_], PS.is_within_phasespace(s1_, s2_, m0_, m1_, m2_, m3_, outside_value=o_).doit(), "math")
    third = sp.lambdify([s1_, s2_, m0_, m1_, m2_, m3_], PS.compute_third_mandelstam(s1_, s2_, m0_, m1_, m2_, m3_), "math")
    s3_ = sp.Symbol("sigma3", real=True)
    kib = sp.lambdify([s1_, s2_, s3_, m0_, m1_, m2_, m3_], PS.Kibble(s1_, s2_, s3_, m0_, m1_, m2_, m3_).doit(), "math")
    x_, y_, z_ = sp.symbols("x y z", real=True)
    kal = sp.lambdify([x_, y_, z_], PS.Kallen(x_, y_, z_).doit(), "math")
    for k in range(400):
        ms = rng.choice([0.0, 0.14, 0.5, 1.0], size=3) if k % 3 else rng.uniform(0, 1, size=3)
        p2, p3 = rng.normal(size=3) * rng.choice([0.01, 1, 30]), rng.normal(size=3) * rng.choice([0.01, 1, 30])
        p1 = -(p2 + p3)
        E = [float(np.sqrt(m * m + p @ p)) for m, p in zip(ms, (p1, p2, p3))]
        M = sum(E)
        sg1 = (E[1] + E[2]) ** 2 - (p2 + p3) @ (p2 + p3)
        sg2 = (E[0] + E[2]) ** 2 - (p1 + p3) @ (p1 + p3)
        sg3 = (E[0] + E[1]) ** 2 - (p1 + p2) @ (p1 + p2)
        ev = {"sigma1": sg1, "sigma2": sg2, "m0": M, "m1": ms[0], "m2": ms[1], "m3": ms[2]}
        got3 = third(sg1, sg2, M, *ms)
        if abs(got3 - sg3) > 1e-7 * (1 + M * M):
            return {"reproduced": True, "what": "third Mandelstam", "input": ev, "observed": got3, "expected": sg3}
        kv = kib(sg1, sg2, sg3, M, *ms)
        if kv > 1e-7 * (1 + M**8):
            return {"reproduced": True, "what": "Kibble > 0 on a physical event", "input": ev, "observed": kv}
        # box classification on a grid point of the bounding box
        m = rng.uniform(0.0, 1.0, size=3)  # any ordering of the three masses
        M0 = float(m.sum() + rng.uniform(0.05, 3))
        a1 = rng.uniform(0.02, 0.98)
        a2 = rng.uniform(0.02, 0.98)
        b1 = (m[1] + m[2]) ** 2 + a1 * ((M0 - m[0]) ** 2 - (m[1] + m[2]) ** 2)
        b2 = (m[0] + m[2]) ** 2 + a2 * ((M0 - m[1]) ** 2 - (m[0] + m[2]) ** 2)
        rr = np.sqrt(b1)
        e1s, e3s = (M0**2 - b1 - m[0] ** 2) / (2 * rr), (b1 - m[1] ** 2 + m[2] ** 2) / (2 * rr)
        q1, q3 = np.sqrt(max(e1s**2 - m[0] ** 2, 0)), np.sqrt(max(e3s**2 - m[2] ** 2, 0))
        lo, hi = (e1s + e3s) ** 2 - (q1 + q3) ** 2, (e1s + e3s) ** 2 - (q1 - q3) ** 2
        if min(abs(b2 - lo), abs(b2 - hi)) > 1e-6:
            want = 1 if lo <= b2 <= hi else -7.0
            got = ind(b1, b2, M0, m[0], m[1], m[2], -7.0)
            if got != want:
                return {"reproduced": True, "what": "box classification vs PDG limits", "input": {"sigma1": b1, "sigma2": b2, "m0": M0, "m1": m[0], "m2": m[1], "m3": m[2]},
                        "observed": got, "expected": want, "pdg_limits": [lo, hi]}
        xx, yy, zz = rng.uniform(0, 4, size=3)
        v = kal(xx, yy, zz)
        if any(abs(v - kal(*perm)) > 1e-9 * (1 + abs(v)) for perm in itertools.permutations((xx, yy, zz))):
            return {"reproduced": True, "what": "Kallen not symmetric", "input": [xx, yy, zz]}
        f = (xx - (np.sqrt(yy) + np.sqrt(zz)) ** 2) * (xx - (np.sqrt(yy) - np.sqrt(zz)) ** 2)
        if abs(v - f) > 1e-9 * (1 + abs(v)):
            return {"reproduced": True, "what": "Kallen factorisation", "input": [xx, yy, zz], "observed": v, "expected": f}
    return {"reproduced": False, "note": "no property-level failure on 400 sampled events / box points"}


def build(chk: Check) -> None:
    chk.assume("A-arith: floats treated as exact reals")
    chk.assume("A-denote: translation table, cross-checked at cover models")
    chk.trust("z3 5.1.0 / cvc5 1.0.3 unsat answers")
    x, y, z = sp.symbols("x y z", real=True)

    # ---------------- Kallen ----------------
    t = Tr("kal")
    node = PS.Kallen(x, y, z)
    body = t.val(node.evaluate())
    spec = K._kallen(t, node)
    chk.smt("Kallen.evaluate==spec", t.hyps(), body.eq(spec), function=F + "Kallen.evaluate", lemma=True, replay=search)
    chk.cover("Kallen.cover", t.hyps() + [t.val(x).re != 0, t.val(y).re != t.val(z).re], F + "Kallen.evaluate", model_check=e1.cover_check(t, body, node))

    def rep_sym(perm):
        def rep(model):
            vals = {s: float(model.get(s.name, 0.0)) for s in (x, y, z)}
            a = complex(PS.Kallen(x, y, z).doit().xreplace(vals))
            b = complex(PS.Kallen(*perm).doit().xreplace(vals))
            return {"reproduced": bool(abs(a - b) > 1e-9 * (1 + abs(a))), "input": {k.name: v for k, v in vals.items()}, "Kallen(x,y,z)": str(a), f"Kallen{perm}": str(b)}

        return rep

    for perm in itertools.permutations((x, y, z)):
        if perm == (x, y, z):
            continue
        other = t.val(PS.Kallen(*perm).evaluate())
        chk.smt(f"Kallen.symmetric[{''.join(s.name for s in perm)}]", t.hyps(), body.eq(other), function=F + "Kallen.evaluate", replay=rep_sym(perm))
    # factorisation (x-(sqrt y+sqrt z)^2)(x-(sqrt y-sqrt z)^2), roots as free variables a, b >= 0
    t = Tr("kalf")
    a, b = z3.Real("a"), z3.Real("b")
    t.bind(y, Cx(a * a))
    t.bind(z, Cx(b * b))
    xv = t.val(x).re
    val = t.val(PS.Kallen(x, y, z).evaluate())

    def rep_fac(model):
        av, bv, xx = (float(model.get(n, 0.0)) for n in ("a", "b", "x"))
        got = complex(PS.Kallen(xx, av * av, bv * bv).doit())
        want = (xx - (av + bv) ** 2) * (xx - (av - bv) ** 2)
        return {"reproduced": bool(abs(got - want) > 1e-9 * (1 + abs(want))), "input": {"x": xx, "sqrt_y": av, "sqrt_z": bv}, "observed": str(got), "expected": want}

    chk.smt("Kallen.factorises", [a >= 0, b >= 0], val.eq(Cx((xv - (a + b) * (a + b)) * (xv - (a - b) * (a - b)))), function=F + "Kallen.evaluate", replay=rep_fac)

    # ---------------- Kibble: body meets spec ----------------
    s1, s2, s3 = sp.symbols("sigma1 sigma2 sigma3", real=True)
    m0, m1, m2, m3 = sp.symbols("m0 m1 m2 m3", real=True)
    t = Tr("kib")
    kib = PS.Kibble(s1, s2, s3, m0, m1, m2, m3)
    chk.smt("Kibble.evaluate==spec", t.hyps(), t.val(kib.evaluate()).eq(K._kibble(t, kib)), function=F + "Kibble.evaluate", lemma=True, replay=search)

    # ---------------- physical event ----------------
    # p2, p3 free three-vectors, p1 = -(p2+p3); E_i >= 0 with E_i^2 = m_i^2 + |p_i|^2; m0 = E1+E2+E3
    def event(tr: Tr):
        """Masses are *derived*: m_i^2 := E_i^2 - |p_i|^2 is bound to the node m_i**2 and m0 := E1+E2+E3, so
        that the lemmas are polynomial identities in the six momentum components and three energies."""
        p2 = [z3.Real(f"p2{c}") for c in "xyz"]
        p3 = [z3.Real(f"p3{c}") for c in "xyz"]
        p1 = [-(u + v) for u, v in zip(p2, p3)]
        E = [None, z3.Real("E1"), z3.Real("E2"), z3.Real("E3")]
        P = {1: p1, 2: p2, 3: p3}
        n2 = {i: sum(c * c for c in P[i]) for i in (1, 2, 3)}
        for i, ms in ((1, m1), (2, m2), (3, m3)):
            tr.bind(ms**2, Cx(E[i] * E[i] - n2[i]))
        tr.bind(m0, Cx(E[1] + E[2] + E[3]))
        mv = {0: E[1] + E[2] + E[3]}
        hyp = [E[i] > 0 for i in (1, 2, 3)] + [E[i] * E[i] - n2[i] >= 0 for i in (1, 2, 3)]

        def minv2(i, j):
            return (E[i] + E[j]) ** 2 - sum((u + v) * (u + v) for u, v in zip(P[i], P[j]))

        return P, E, mv, n2, hyp, minv2

    def event_numbers(model):
        """Concrete physical event from a counter-model (for replays on the real code)."""
        p2 = np.array([float(model.get(f"p2{c}", 0)) for c in "xyz"])
        p3 = np.array([float(model.get(f"p3{c}", 0)) for c in "xyz"])
        p1 = -(p2 + p3)
        E = [abs(float(model.get(f"E{i}", 0))) for i in (1, 2, 3)]
        ms = [np.sqrt(max(e * e - p @ p, 0.0)) for e, p in zip(E, (p1, p2, p3))]
        E = [np.sqrt(m * m + p @ p) for m, p in zip(ms, (p1, p2, p3))]
        M = sum(E)
        s_1 = (E[1] + E[2]) ** 2 - (p2 + p3) @ (p2 + p3)
        s_2 = (E[0] + E[2]) ** 2 - (p1 + p3) @ (p1 + p3)
        s_3 = (E[0] + E[1]) ** 2 - (p1 + p2) @ (p1 + p2)
        return {"m0": M, "m1": ms[0], "m2": ms[1], "m3": ms[2], "sigma1": s_1, "sigma2": s_2, "sigma3": s_3}

    t = Tr("ev")
    P, E, mv, n2, evh, minv2 = event(t)
    t.bind(s1, Cx(minv2(2, 3)))
    t.bind(s2, Cx(minv2(1, 3)))
    third = t.val(PS.compute_third_mandelstam(s1, s2, m0, m1, m2, m3))

    def rep_third(model):
        ev = event_numbers(model)
        got = complex(PS.compute_third_mandelstam(ev["sigma1"], ev["sigma2"], ev["m0"], ev["m1"], ev["m2"], ev["m3"]))
        return {"reproduced": bool(abs(got - ev["sigma3"]) > 1e-8 * (1 + abs(ev["sigma3"]))), "input": ev, "observed": str(got), "expected": ev["sigma3"]}

    chk.smt("compute_third_mandelstam==actual_invariant_mass_squared", evh + t.hyps(), third.eq(Cx(minv2(1, 2))),
            function=F + "compute_third_mandelstam", replay=rep_third)
    chk.cover("event.cover", evh + t.hyps() + [n2[2] > 0, n2[3] > 0, E[1] * E[1] - n2[1] > 0], F + "compute_third_mandelstam")
    # L-gram: lambda(sigma_i, m_i^2, m0^2) = 4 m0^2 |p_i|^2  on the real Kallen output
    t.bind(s3, Cx(minv2(1, 2)))
    sig = {1: s1, 2: s2, 3: s3}
    msym = {1: m1, 2: m2, 3: m3}
    gram_nodes = {}
    for i in (1, 2, 3):
        node = PS.Kallen(sig[i], msym[i] ** 2, m0**2)
        gram_nodes[i] = node
        chk.smt(f"L-gram[{i}]: Kallen(sigma{i},m{i}^2,m0^2)==4 m0^2 |p{i}|^2", evh + t.hyps(), t.val(node).eq(Cx(4 * mv[0] * mv[0] * n2[i])),
                function=F + "Kallen.evaluate", lemma=True, replay=search)
    # Kibble on an event, from the real Kibble.evaluate() with the three inner nodes replaced by the lemma values
    t2 = Tr("ev2")
    P, E, mv, n2, evh2, minv2 = event(t2)
    t2.bind(s1, Cx(minv2(2, 3)))
    t2.bind(s2, Cx(minv2(1, 3)))
    t2.bind(s3, Cx(minv2(1, 2)))
    g = {i: z3.Real(f"g{i}") for i in (1, 2, 3)}
    for i in (1, 2, 3):
        t2.bind(PS.Kallen(sig[i], msym[i] ** 2, m0**2), Cx(g[i]))
    lem = [g[i] == 4 * mv[0] * mv[0] * n2[i] for i in (1, 2, 3)]
    kval = t2.val(kib.evaluate())
    cross = [P[2][1] * P[3][2] - P[2][2] * P[3][1], P[2][2] * P[3][0] - P[2][0] * P[3][2], P[2][0] * P[3][1] - P[2][1] * P[3][0]]
    c2 = sum(c * c for c in cross)
    M4 = mv[0] * mv[0] * mv[0] * mv[0]
    chk.smt("L-lagrange: Kibble(event)==-64 m0^4 |p2 x p3|^2", lem, kval.eq(Cx(-64 * M4 * c2)), function=F + "Kibble.evaluate", lemma=True, replay=search)

    def rep_kibble(model):
        ev = event_numbers(model)
        val = complex(PS.Kibble(ev["sigma1"], ev["sigma2"], ev["sigma3"], ev["m0"], ev["m1"], ev["m2"], ev["m3"]).doit())
        ind = PS.is_within_phasespace(ev["sigma1"], ev["sigma2"], ev["m0"], ev["m1"], ev["m2"], ev["m3"]).doit()
        tol = 1e-9 * (1 + ev["m0"] ** 8)
        return {"reproduced": bool(val.real > tol or ind != 1), "input": ev, "Kibble": str(val), "is_within_phasespace": str(ind)}

    kv = z3.Real("kibble_value")
    chk.smt("Kibble(event)<=0", [kv == -64 * M4 * c2], kv <= 0, function=F + "Kibble.evaluate", replay=rep_kibble)
    # indicator on an event: the real Piecewise with the Kibble node bound to a value <= 0
    t3 = Tr("ind")
    o = sp.Symbol("outside", real=True)
    ind = PS.is_within_phasespace(s1, s2, m0, m1, m2, m3, outside_value=o)
    kib_nodes = list(ind.atoms(PS.Kibble))
    chk.struct("is_within_phasespace.uses_one_Kibble_node", len(kib_nodes) == 1, F + "is_within_phasespace", witness=str(kib_nodes))
    third_expr = PS.compute_third_mandelstam(s1, s2, m0, m1, m2, m3)
    chk.struct("is_within_phasespace.kibble_args", kib_nodes and kib_nodes[0].args == (s1, s2, third_expr, m0, m1, m2, m3), F + "is_within_phasespace",
               witness=str(kib_nodes[0].args if kib_nodes else None))
    kvar = z3.Real("K")
    if kib_nodes:
        t3.bind(kib_nodes[0], Cx(kvar))
    iv = chk.guarded("is_within_phasespace.result", lambda: t3.val(ind), F + "is_within_phasespace", replay=search) if kib_nodes else None
    if iv is not None:
        ov = t3.val(o)
        chk.smt("is_within_phasespace==1|Kibble<=0", [kvar <= 0], iv.eq(CONE), function=F + "is_within_phasespace", replay=search)
        chk.smt("is_within_phasespace==outside_value|Kibble>0", [kvar > 0], iv.eq(ov), function=F + "is_within_phasespace", replay=search)

    # ---------------- box classification ----------------
    # variables r = sqrt(sigma1) > 0, sigma2, masses.  E1* = N1/(2r), E3* = N3/(2r) in the (23) rest frame.
    t4 = Tr("box")
    r = z3.Real("r")
    M0, M1, M2, M3 = (t4.val(s).re for s in (m0, m1, m2, m3))
    S2 = t4.val(s2).re
    t4.bind(s1, Cx(r * r))
    masses = [M1 >= 0, M2 >= 0, M3 >= 0, M0 > M1 + M2 + M3]
    box1 = [r > 0, r >= M2 + M3, r <= M0 - M1]
    N1 = M0 * M0 - r * r - M1 * M1
    N3 = r * r - M2 * M2 + M3 * M3
    Q1 = N1 * N1 - 4 * r * r * M1 * M1  # (2r q1*)^2
    Q3 = N3 * N3 - 4 * r * r * M3 * M3  # (2r q3*)^2
    chk.smt("L-box: E1*^2>=m1^2 and E3*^2>=m3^2 inside the box", masses + box1, z3.And(Q1 >= 0, Q3 >= 0, N1 >= 0, N3 >= 0), function=F + "is_within_phasespace", lemma=True, replay=search)
    chk.cover("box.cover", masses + box1 + [M1 > 0, M2 > 0, M3 > 0, r > M2 + M3, r < M0 - M1], F + "is_within_phasespace")
    # with u1 = 2 r q1*, u3 = 2 r q3* (>= 0):  4 r^2 lo = (N1+N3)^2 - (u1+u3)^2 ,  4 r^2 hi = (N1+N3)^2 - (u1-u3)^2
    u1, u3 = z3.Real("u1"), z3.Real("u3")
    roots = [u1 >= 0, u3 >= 0, u1 * u1 == Q1, u3 * u3 == Q3]
    T = (N1 + N3) * (N1 + N3)
    lo4 = T - (u1 + u3) * (u1 + u3)  # = 4 r^2 lo
    hi4 = T - (u1 - u3) * (u1 - u3)  # = 4 r^2 hi
    t4.bind(s3, t4.val(third_expr))
    kib_box = t4.val(kib)  # Kibble via its contract (spec), sigma1 = r^2, sigma3 from compute_third_mandelstam
    # L-factor (root-free): r^2 Kibble = m0^2 (X^2 - Sum X + Prod), X = 4 r^2 sigma2,
    #   Sum = 4r^2 (lo+hi) = 2T - 2(Q1+Q3),  Prod = 16 r^4 lo hi = (T-Q1-Q3)^2 - 4 Q1 Q3
    X4 = 4 * r * r * S2
    Sum = 2 * T - 2 * (Q1 + Q3)
    Prod = (T - Q1 - Q3) * (T - Q1 - Q3) - 4 * Q1 * Q3
    chk.smt("L-factor: r^2 Kibble == m0^2 (X^2 - (lo+hi) X + lo hi), root-free", [],
            Cx(r * r * kib_box.re).eq(Cx(M0 * M0 * (X4 * X4 - Sum * X4 + Prod))), function=F + "Kibble.evaluate", lemma=True, replay=search)
    # L-expand: with u1^2 = Q1, u3^2 = Q3 the quadratic is (X - 4r^2 lo)(X - 4r^2 hi)
    Xf, Tf = z3.Real("Xf"), z3.Real("Tf")
    chk.smt("L-expand: (X-lo4)(X-hi4) == X^2 - Sum X + Prod", [],
            (Xf - (Tf - (u1 + u3) * (u1 + u3))) * (Xf - (Tf - (u1 - u3) * (u1 - u3)))
            == Xf * Xf - (2 * Tf - 2 * (u1 * u1 + u3 * u3)) * Xf + (Tf - u1 * u1 - u3 * u3) * (Tf - u1 * u1 - u3 * u3) - 4 * u1 * u1 * u3 * u3,
            function=F + "is_within_phasespace", lemma=True, replay=search)
    # L-sign
    A, X, lo, hi = z3.Real("A"), z3.Real("X"), z3.Real("lo"), z3.Real("hi")
    chk.smt("L-sign: A>0, lo<=hi => (A(X-lo)(X-hi)<=0 <=> lo<=X<=hi)", [A > 0, lo <= hi], (A * (X - lo) * (X - hi) <= 0) == z3.And(lo <= X, X <= hi),
            function=F + "is_within_phasespace", lemma=True, replay=search)
    # composition: inside the box, indicator = 1 iff lo <= sigma2 <= hi, else outside_value
    kk = z3.Real("Kb")
    t5 = Tr("boxind")
    if iv is not None:
        t5.bind(kib_nodes[0], Cx(kk))
        iv5 = t5.val(ind)
        ov5 = t5.val(o)
        S2b, rb, M0b = z3.Real("sigma2"), z3.Real("r"), z3.Real("m0")
        lo_, hi_ = z3.Real("lo4"), z3.Real("hi4")
        hyp = [rb > 0, M0b > 0, lo_ <= hi_, rb * rb * kk == M0b * M0b * (4 * rb * rb * S2b - lo_) * (4 * rb * rb * S2b - hi_)]
        inside = z3.And(lo_ <= 4 * rb * rb * S2b, 4 * rb * rb * S2b <= hi_)

        chk.smt("is_within_phasespace.box: value==1 iff lo<=sigma2<=hi else outside_value", hyp,
                z3.And(z3.Implies(inside, iv5.eq(CONE)), z3.Implies(z3.Not(inside), iv5.eq(ov5))), function=F + "is_within_phasespace", replay=search)
    chk.smt("L-order: lo<=hi", roots, lo4 <= hi4, function=F + "is_within_phasespace", lemma=True, replay=search)

    # engine self-test
    chk.mustfail("selftest.Kallen.not_antisymmetric", t.hyps(), Tr("st").val(PS.Kallen(x, y, z).evaluate()).eq(-Tr("st2").val(PS.Kallen(y, x, z).evaluate())), function=F + "Kallen.evaluate")

    spellings(chk)


def spellings(chk: Check) -> None:
    """Bounded, real classes: the same mathematical call spelled differently gives the same unfolded expression --
    (a) NUMBERS FIRST: exact numbers (zeros in every argument slot, coinciding values) passed to the constructor, then doit(), equals
        the symbolic doit() with the numbers substituted afterwards (evaluate() may branch on is_zero / is_number of its arguments);
    (b) KEYWORDS: Kibble / Kallen / is_within_phasespace arguments given by keyword in another order than the declaration order
        (evaluate() unpacks self.args positionally)."""
    x, y, z = sp.symbols("x y z", real=True)
    R = sp.Rational
    vals = (sp.Integer(0), R(1, 4), sp.Integer(2), None)
    sym = PS.Kallen(x, y, z).doit()

    def kallen_numbers(_m=None):
        for a, b, c in itertools.product(vals, repeat=3):
            args = [v if v is not None else s for v, s in zip((a, b, c), (x, y, z))]
            got = PS.Kallen(*args).doit()
            want = sym.subs(dict(zip((x, y, z), args)), simultaneous=True)
            if sp.expand(got - want) != 0:
                return {"reproduced": True, "input": f"Kallen({', '.join(map(str, args))}).doit()", "observed": str(got), "expected": str(sp.expand(want))}
        return {"reproduced": False}

    r = kallen_numbers()
    chk.struct("spellings.Kallen.numbers_first==symbols_first", not r["reproduced"], F + "Kallen.evaluate", witness=r, replay=kallen_numbers, bounded=True)

    names = ("sigma1", "sigma2", "sigma3", "m0", "m1", "m2", "m3")
    S = sp.symbols(" ".join(names), real=True)
    ksym = PS.Kibble(*S).doit()

    def kibble_numbers(_m=None):
        for zero in itertools.chain.from_iterable(itertools.combinations(range(3, 7), k) for k in range(1, 4)):
            args = [sp.Integer(0) if i in zero else s for i, s in enumerate(S)]
            got = PS.Kibble(*args).doit()
            want = ksym.subs({S[i]: 0 for i in zero})
            if sp.expand(got - want) != 0:
                return {"reproduced": True, "input": f"Kibble with exact zero for {[names[i] for i in zero]}", "observed": str(sp.expand(got))[:200], "expected": str(sp.expand(want))[:200]}
        return {"reproduced": False}

    r = kibble_numbers()
    chk.struct("spellings.Kibble.numbers_first==symbols_first", not r["reproduced"], F + "Kibble.evaluate", witness=r, replay=kibble_numbers, bounded=True)

    def keywords(_m=None):
        import random

        rng = random.Random(20)
        for cls, nms, syms in ((PS.Kibble, names, S), (PS.Kallen, ("x", "y", "z"), (x, y, z))):
            ref = cls(*syms)
            for trial in range(6):
                order = list(range(len(nms)))
                rng.shuffle(order)
                for n_pos in (0, 1):
                    kw = {nms[i]: syms[i] for i in order if i >= n_pos}
                    try:
                        got = cls(*syms[:n_pos], **kw)
                    except TypeError:
                        return {"reproduced": False, "note": f"{cls.__name__} does not take keywords"} if trial == 0 and n_pos == 0 and False else {"reproduced": True, "input": f"{cls.__name__}(**{list(kw)})", "observed": "TypeError"}
                    if got.args != ref.args or sp.expand(got.doit() - ref.doit()) != 0:
                        return {"reproduced": True, "input": f"{cls.__name__}({', '.join(map(str, syms[:n_pos]))}{', ' if n_pos else ''}{', '.join(k + '=' + str(v) for k, v in kw.items())})",
                                "observed": f"args {got.args}", "expected": f"args {ref.args}"}
        return {"reproduced": False}

    r = keywords()
    chk.struct("spellings.keyword_arguments_in_any_order==positional", not r["reproduced"], F + "Kibble.evaluate", witness=r, replay=keywords, bounded=True)
