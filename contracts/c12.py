"""C12 — lineshape normalisations hold and the builder API equals the function API.

Under contract: EnergyDependentWidth.evaluate, relativistic_breit_wigner, relativistic_breit_wigner_with_ff
(dynamics/__init__.py); FormFactor.evaluate, BlattWeisskopfSquared.evaluate, _get_polynomial_blatt_weisskopf,
_formulate_blatt_weisskopf, SphericalHankel1.evaluate (dynamics/form_factor.py); RelativisticBreitWignerBuilder
.__call__ with its private helpers, create_relativistic_breit_wigner, create_relativistic_breit_wigner_with_ff,
create_analytic_breit_wigner, create_non_dynamic_with_ff (dynamics/builder.py).

(a) width: the real evaluate() with an *undefined function* as phase-space factor and a *symbolic* L equals
    Gamma0 (F(s)/F(m0^2))^2 rho(s)/rho(m0^2) (form factors and rho opaque), and from s = m0^2, F(m0^2) != 0,
    rho(m0^2) != 0 it follows by congruence that the result is Gamma0: for every factor and every L at once; the
    five concrete classes are additionally enumerated.
(b) B_L^2 on the polynomial path, L enumerated (0..4 quick, 0..10 thorough): value 1 at z = 1; B_L^2 D_L = c_L z^L
    with D_L > 0 on z >= 0 (=> behaves as z^L); 0 <= B_L^2 <= M_L; B_L^2 > 0 for z > 0.
(c) same L: polynomial path = Hankel definition |h_L(1)|^2/(z |h_L(sqrt z)|^2) for all z = x^2 > 0, where the
    finite sum is the real SphericalHankel1.evaluate().doit() and |exp(ix)| = 1 is the only axiom.
(d) builder = function: SMT congruence proof with the EnergyDependentWidth / FormFactor nodes as uninterpreted
    atoms keyed by (class, arguments, phase-space factor); defaults {m_R: mass, Gamma_R: width, d_R: 1}.

Roles: body-meets-spec obligations, the contracts of the two public functions and well-definedness are lemmas with a
deterministic numeric search over the real code as replay; the clauses of the statement are property-level, each with a
replay that evaluates the real classes / builders (doit() + lambdify, complex and real dtype) at the counter-model.
"Polynomial path = Hankel definition" exists on the contracts ("[spec]", lemma role) and on the unfolded tree ("[doit]").
"""

from __future__ import annotations

import functools
import math

import numpy as np
import sympy as sp
import z3
from qrules.particle import Particle

import ampform.dynamics as DY
from ampform.dynamics import builder as BLD
from ampform.dynamics import form_factor as FF
from ampform.dynamics import phasespace as PSP
from contracts import specs_dyn as S
from vlib import e1
from vlib.core import Check
from vlib.tr import CONE, Cx, R

LEVEL = "proof"
ENGINE = "E1 exprvc"
CLAIM = (
    "(a) For an arbitrary (uninterpreted) phase-space factor and symbolic L, EnergyDependentWidth.evaluate() = Gamma0 (F(s)/F(m0^2))^2 rho(s)/rho(m0^2) and hence = Gamma0 at s = m0^2 whenever F(m0^2) != 0 and rho(m0^2) != 0 (congruence; all real arguments); the five concrete factors enumerated as well. (b) For each L in the enumerated range the polynomial Blatt-Weisskopf path satisfies B_L^2(1) = 1, B_L^2(z) D_L(z) = c_L z^L with D_L > 0 on z >= 0, 0 <= B_L^2 <= M_L on z >= 0 and B_L^2 > 0 on z > 0. (c) For the same L the polynomial path equals the Hankel-function definition for all z > 0. (d) For the four flag combinations x {uninterpreted factor, five classes}, the three module-level builders and create_non_dynamic_with_ff, the builder's expression equals the public lineshape function on (m^2, m_R, Gamma_R, m_a, m_b, L, d_R) for all values (width and form factor uninterpreted), with defaults {m_R: mass, Gamma_R: width, d_R: 1}."
)
NOTE = (
    "Trusted: z3 5.1 / cvc5 1.4 'unsat'; the SymPy-node -> SMT translation (vlib/tr.py + specs_dyn.DynTr), cross-checked at cover models against numpy evaluation of the real trees; floats as exact reals (A-arith); uninterpreted functions are functions of their argument values (A-pure); |exp(ix)| = 1 for real x is the only transcendental axiom. L is enumerated (0..4 quick, 0..10 thorough) for (b), (c), FormFactor and the numeric width instances; everything else is symbolic. (d) is an SMT congruence proof (not a tree comparison): EnergyDependentWidth / FormFactor nodes are atoms keyed by class, arguments and phase-space factor, so it holds for all numeric values and is insensitive to how the builder arranges the quotient. The parameter symbols follow the library's naming convention m_{id}, Gamma_{id} (with a backslash), d_{id} with id = latex or name."
)
TECHNIQUE = (
    "contract-based deductive verification: E1 denotational VCs on the SymPy trees returned by the real evaluate() "
    "methods, lineshape functions and builder objects (nested classes by their contracts or as uninterpreted atoms); "
    "congruence instances; exhaustive enumeration of L, flag combinations and phase-space classes; z3 / nlsat / cvc5"
)
FD = "ampform.dynamics."
FFM = "ampform.dynamics.form_factor."
FB = "ampform.dynamics.builder."

CLASSES = S.PHSP_CLASSES
TOL = 1e-8


# =====================================================================================================
# numeric layer: the REAL code
# =====================================================================================================
def _lam(expr, syms):
    return sp.lambdify(syms, expr.doit(), "numpy")


def _call(f, *vals, dtype=complex):
    with np.errstate(all="ignore"):
        out = np.asarray(f(*[np.array([v], dtype=dtype) for v in vals]), dtype=complex).reshape(-1)
    return complex(out[0])


_Z = sp.Symbol("z", real=True)


@functools.lru_cache(maxsize=None)
def _bw_poly_fn(ell: int):
    return _lam(FF.BlattWeisskopfSquared(_Z, ell), [_Z])


@functools.lru_cache(maxsize=None)
def _bw_hankel_fn(ell: int):
    return _lam(FF._formulate_blatt_weisskopf(sp.Integer(ell), _Z), [_Z])


def bw_ref(z: float, ell: int) -> float:
    c, d = S.bw_poly(ell)
    return float(c) * z**ell / sum(float(dk) * z ** (ell - k) for k, dk in enumerate(d))


def _bad(obs, exp, tol=TOL) -> bool:
    return (not np.isfinite(obs)) or (not np.isfinite(exp)) or abs(obs - exp) > tol * (1 + abs(exp))


def check_bw(ell: int, z: float):
    """Clauses (b) on the real polynomial path at one point."""
    if z < 0:
        return None
    c, d = S.bw_poly(ell)
    v1 = _call(_bw_poly_fn(ell), 1.0, dtype=float)
    if _bad(v1, 1.0):
        return {"what": f"B_{ell}^2(1) = 1", "input": {"z": 1.0, "L": ell}, "expected": 1, "observed": str(v1)}
    v = _call(_bw_poly_fn(ell), z, dtype=float)
    ml = float(c) / float(d[0])
    if not np.isfinite(v) or abs(v.imag) > 1e-12 or v.real < -1e-12 or v.real > ml * (1 + 1e-9) or (z > 0 and not v.real > 0):
        return {"what": f"0 <= B_{ell}^2(z) <= M_L = {ml} on z >= 0 and > 0 on z > 0", "input": {"z": z, "L": ell}, "expected": f"in [0; {ml}]", "observed": str(v)}
    if _bad(v, bw_ref(z, ell), 1e-7):
        return {"what": f"B_{ell}^2(z) = c_L z^L / D_L(z)", "input": {"z": z, "L": ell}, "expected": bw_ref(z, ell), "observed": str(v)}
    zs = 1e-4
    small = _call(_bw_poly_fn(ell), zs, dtype=float)
    lim = float(c) / float(d[-1])
    if _bad(small.real / zs**ell, lim, 1e-2):
        return {"what": f"B_{ell}^2(z)/z^L -> c_L/D_L(0) > 0 at threshold", "input": {"z": zs, "L": ell}, "expected": lim, "observed": str(small.real / zs**ell)}
    return None


def check_hankel(ell: int, z: float):
    if not z > 0:
        return None
    p, h = _call(_bw_poly_fn(ell), z, dtype=float), _call(_bw_hankel_fn(ell), z, dtype=float)
    if _bad(p, h, 1e-7):
        return {"what": f"polynomial path = Hankel definition of B_{ell}^2", "input": {"z": z, "L": ell}, "expected": f"Hankel definition {h}", "observed": f"polynomial path {p}"}
    return None


_WS = sp.symbols("s m0 Gamma0 m_a m_b d", real=True)


def probe_phsp(s, m1, m2):
    """A concrete stand-in for 'an arbitrary phase-space factor' in numeric replays (asymmetric in all arguments)."""
    return (s + 3 * m1 + 7 * m2**2 + 1) / (s + 11)


@functools.lru_cache(maxsize=None)
def _width_fn(phsp, ell: int):
    return _lam(DY.EnergyDependentWidth(*_WS[:5], ell, _WS[5], phsp), list(_WS))


@functools.lru_cache(maxsize=None)
def _ff_fn(ell: int):
    s, _, _, ma, mb, d = _WS
    return _lam(FF.FormFactor(s, ma, mb, ell, d), [s, ma, mb, d])


@functools.lru_cache(maxsize=None)
def _phsp_fn(phsp):
    s, _, _, ma, mb, _ = _WS
    return _lam(sp.sympify(phsp(s, ma, mb)), [s, ma, mb])


def check_width(phsp, ell: int, s, m0, g0, ma, mb, d):
    """Gamma(s) = Gamma0 (F/F0)^2 rho/rho0 from the real FormFactor / phase-space classes, and Gamma(m0^2) = Gamma0."""
    f0, r0 = _call(_ff_fn(ell), m0 * m0, ma, mb, d), _call(_phsp_fn(phsp), m0 * m0, ma, mb)
    f, r = _call(_ff_fn(ell), s, ma, mb, d), _call(_phsp_fn(phsp), s, ma, mb)
    if not (np.isfinite(f0) and np.isfinite(r0) and np.isfinite(f) and np.isfinite(r)) or abs(f0) < 1e-9 or abs(r0) < 1e-9:
        return None
    inp = {"s": s, "m0": m0, "Gamma0": g0, "m_a": ma, "m_b": mb, "d": d, "L": ell, "phsp_factor": _phname(phsp)}
    w0 = _call(_width_fn(phsp, ell), m0 * m0, m0, g0, ma, mb, d)
    if _bad(w0, g0, 1e-7):
        return {"what": "EnergyDependentWidth(s = m0^2) = Gamma0", "input": {**inp, "s": m0 * m0}, "expected": g0, "observed": str(w0)}
    w = _call(_width_fn(phsp, ell), s, m0, g0, ma, mb, d)
    exp = g0 * (f / f0) ** 2 * r / r0
    if _bad(w, exp, 1e-7):
        return {"what": "EnergyDependentWidth = Gamma0 (F/F0)^2 rho/rho0", "input": inp, "expected": str(exp), "observed": str(w)}
    return None


@functools.lru_cache(maxsize=None)
def _ffv_fn(ell: int):
    s, _, _, ma, mb, d = _WS
    z = sp.Symbol("zz", real=True)
    return _lam(FF.FormFactor(s, ma, mb, ell, d), [s, ma, mb, d]), _lam(FF.BlattWeisskopfSquared(z, ell), [z])


def check_ff(ell: int, s, ma, mb, d):
    """FormFactor = sqrt(B_L^2(q^2 d^2)) on the real classes."""
    if s == 0:
        return None
    f, b = _ffv_fn(ell)
    q2 = (s - (ma + mb) ** 2) * (s - (ma - mb) ** 2) / (4 * s)
    got = _call(f, s, ma, mb, d)
    exp = np.sqrt(_call(b, q2 * d * d) + 0j)
    if _bad(got, exp, 1e-7):
        return {"what": "FormFactor = sqrt(B_L^2(q^2 d^2))", "input": {"s": s, "m_a": ma, "m_b": mb, "d": d, "L": ell}, "expected": str(exp), "observed": str(got)}
    return None


PARTICLES = (
    dict(name="R0", latex="R^0", pid=9990001, spin=1, mass=1.5, width=0.25),
    dict(name="N", pid=9990002, spin=1.5, mass=1.3, width=0.2),
)
POOL = sp.symbols("m m_a m_b theta phi", nonnegative=True)
FLAGS = ((False, False), (False, True), (True, False), (True, True))


def _pool(ell):
    m, ma, mb, th, ph = POOL
    return BLD.TwoBodyKinematicVariableSet(incoming_state_mass=m, outgoing_state_mass1=ma, outgoing_state_mass2=mb, helicity_theta=th, helicity_phi=ph, angular_momentum=ell)


def _ident(particle: Particle) -> str:
    return particle.latex or particle.name


def _params(particle: Particle):
    i = _ident(particle)
    return sp.Symbol(f"m_{{{i}}}", nonnegative=True), sp.Symbol(Rf"\Gamma_{{{i}}}", nonnegative=True), sp.Symbol(f"d_{{{i}}}", positive=True)


def expected_expr(ff: bool, edw: bool, phsp, s, m0, g0, ma, mb, ell, d):
    """The function API (public lineshape function, or the product of public pieces for the mixed flags)."""
    if ff and edw:
        return DY.relativistic_breit_wigner_with_ff(s, m0, g0, ma, mb, ell, d, phsp)
    if ff:
        return FF.FormFactor(s, ma, mb, ell, d) * DY.relativistic_breit_wigner(s, m0, g0)
    if edw:
        return m0 * g0 / (m0**2 - s - DY.EnergyDependentWidth(s, m0, g0, ma, mb, ell, d, phsp) * m0 * sp.I)
    return DY.relativistic_breit_wigner(s, m0, g0)


BUILDER_POINTS = ((1.2, 0.3, 0.4), (0.55, 0.3, 0.4), (2.0, 0.14, 0.14), (0.9, 0.5, 0.1))


def check_builder(call, ff: bool, edw: bool, phsp, ell: int, particle: Particle):
    """Numeric comparison on the real code: builder expression at its own parameter defaults vs the function API
    evaluated with the particle's mass and width, the decay's masses and L, radius 1 (name-independent)."""
    m, ma, mb, _, _ = POOL
    expr, defaults = call(particle, _pool(ell))
    syms = [m, ma, mb] + [k for k in defaults]
    extra = sorted(expr.doit().free_symbols - set(syms), key=str)
    if extra:
        return {"what": "builder expression has free symbols without default", "input": {"flags": [ff, edw]}, "expected": "no symbols beyond the pool and the defaults", "observed": str(extra)}
    fb = _lam(expr, syms)
    a = sp.symbols("S_ M0_ G0_ MA_ MB_ D_", real=True)
    fa = _lam(expected_expr(ff, edw, phsp, a[0], a[1], a[2], a[3], a[4], ell, a[5]), list(a))
    for mv, mav, mbv, dt in [(*pt, dt) for pt in BUILDER_POINTS for dt in (complex, float)]:
        # real dtype as well: e.g. PhaseSpaceFactor and PhaseSpaceFactorComplex differ only there (nan below threshold)
        got = _call(fb, mv, mav, mbv, *[float(defaults[k]) for k in defaults], dtype=dt)
        exp = _call(fa, mv * mv, particle.mass, particle.width, mav, mbv, 1.0, dtype=dt)
        if not np.isfinite(exp):
            continue
        if _bad(got, exp, 1e-7):
            return {"dtype": dt.__name__, "what": "builder expression = public lineshape function", "input": {"m": mv, "m_a": mav, "m_b": mbv, "L": ell, "mass": particle.mass, "width": particle.width,
                    "form_factor": ff, "energy_dependent_width": edw, "phsp_factor": _phname(phsp)}, "expected": str(exp), "observed": str(got)}
    # numbers first: the public function called with exact numbers whose VALUES coincide with other arguments (s = 1 with the
    # default radius 1, s = L, ...) must give what the builder expression gives at that point
    for sv, mav, mbv in ((sp.Integer(1), sp.Rational(1, 4), sp.Rational(1, 3)), (sp.Integer(ell) if ell else sp.Integer(4), sp.Rational(1, 4), sp.Rational(1, 5)),
                         (sp.Integer(4), sp.Integer(1), sp.Rational(1, 2))):
        mv = sp.sqrt(sv)
        try:
            exp = complex(sp.N(expected_expr(ff, edw, phsp, sv, sp.nsimplify(particle.mass), sp.nsimplify(particle.width), mav, mbv, ell, sp.Integer(1)).doit()))
            got = _call(fb, float(mv), float(mav), float(mbv), *[float(defaults[k]) for k in defaults], dtype=complex)
        except Exception:  # noqa: BLE001
            continue
        if not np.isfinite(exp) or not np.isfinite(got):
            continue
        if _bad(got, exp, 1e-7):
            return {"dtype": "exact numbers first", "what": "public lineshape function called with numbers = builder expression at that point",
                    "input": {"s": str(sv), "m_a": str(mav), "m_b": str(mbv), "L": ell, "d": 1, "form_factor": ff, "energy_dependent_width": edw, "phsp_factor": _phname(phsp)},
                    "expected": str(got), "observed": str(exp)}
    return None


def _phname(ph) -> str:
    return "opaque" if isinstance(ph, sp.core.function.UndefinedFunction) else getattr(ph, "__name__", str(ph))


def _builder_calls(phsp_list):
    for ff, edw in FLAGS:
        for ph in phsp_list:
            yield f"RelativisticBreitWignerBuilder[ff={int(ff)};edw={int(edw)};{_phname(ph)}]", BLD.RelativisticBreitWignerBuilder(form_factor=ff, energy_dependent_width=edw, phsp_factor=ph), ff, edw, ph
    yield "create_relativistic_breit_wigner", BLD.create_relativistic_breit_wigner, False, False, PSP.PhaseSpaceFactor
    yield "create_relativistic_breit_wigner_with_ff", BLD.create_relativistic_breit_wigner_with_ff, True, True, PSP.PhaseSpaceFactor
    yield "create_analytic_breit_wigner", BLD.create_analytic_breit_wigner, True, True, PSP.EqualMassPhaseSpaceFactor


def search(clauses=("width", "bw", "hankel", "ff", "builder"), lmax: int = 4, model=None):
    """Property-level replay for lemma obligations: the REAL classes / builders on a deterministic grid."""
    n = 0
    if "bw" in clauses or "hankel" in clauses:
        for ell in range(lmax + 1):
            for z in (0.0, 1e-3, 0.3, 1.0, 2.5, 40.0, 1e4):
                n += 1
                r = (check_bw(ell, z) if "bw" in clauses else None) or (check_hankel(ell, z) if "hankel" in clauses else None)
                if r:
                    return {"reproduced": True, **r}
    pts = ((1.1, 0.9, 0.2, 0.3, 0.4, 1.0), (0.4, 0.9, 0.2, 0.3, 0.4, 2.0), (3.0, 1.6, 0.1, 0.14, 0.5, 0.7), (0.8, 1.0, 0.3, 0.45, 0.45, 1.0))
    if "width" in clauses:
        for ph in (probe_phsp, *CLASSES):
            for ell in range(lmax + 1):
                for s, m0, g0, ma, mb, d in pts:
                    n += 1
                    r = check_width(ph, ell, s, m0, g0, ma, mb, d)
                    if r:
                        return {"reproduced": True, **r}
    if "ff" in clauses:
        for ell in range(lmax + 1):
            for s, _, _, ma, mb, d in pts:
                n += 1
                r = check_ff(ell, s, ma, mb, d)
                if r:
                    return {"reproduced": True, **r}
    if "builder" in clauses:
        part = Particle(**PARTICLES[0])
        for nm, call, ff, edw, ph in _builder_calls((probe_phsp, *CLASSES)):
            n += 1
            r = check_builder(call, ff, edw, ph, 2, part)
            if r:
                return {"reproduced": True, "builder": nm, **r}
        expr, defaults = BLD.create_non_dynamic_with_ff(part, _pool(2))
        m, ma, mb, _, _ = POOL
        got = _call(_lam(expr, [m, ma, mb, *defaults]), 1.2, 0.3, 0.4, *[float(v) for v in defaults.values()])
        exp = _call(_ff_fn(2), 1.44, 0.3, 0.4, 1.0)
        if _bad(got, exp, 1e-7):
            return {"reproduced": True, "what": "create_non_dynamic_with_ff = FormFactor(m^2; m_a; m_b; L; 1)", "input": {"m": 1.2, "m_a": 0.3, "m_b": 0.4, "L": 2}, "expected": str(exp), "observed": str(got)}
    return {"reproduced": False, "note": f"no property-level failure at {n} grid points (clauses {list(clauses)})"}


def _searcher(*clauses, lmax=4):
    return functools.partial(search, tuple(clauses), lmax)


def _f(model, name):
    v = model.get(name)
    if v is None or isinstance(v, bool):
        return None
    return float(v)


def _replay(check, names, fallback):
    def rep(model):
        vals = [_f(model, n) for n in names]
        if all(v is not None for v in vals):
            try:
                r = check(*vals)
            except (ZeroDivisionError, ValueError, OverflowError):
                r = None
            if r:
                r.setdefault("input", dict(zip(names, vals)))
                return {"reproduced": True, **r}
        out = fallback(model)
        out.setdefault("model_point", dict(zip(names, vals)))
        return out

    return rep


# =====================================================================================================
# SMT layer
# =====================================================================================================
def build(chk: Check) -> None:
    chk.assume("A-arith: floats treated as exact reals")
    chk.assume("A-denote: translation table (vlib/tr.py, specs_dyn.DynTr), cross-checked at cover models")
    chk.assume(S.ASSUME_PURE)
    chk.assume("axiom |exp(ix)| = 1 for real x (exp(ix) is an abstract unit pair per distinct x)")
    chk.trust("z3 5.1.0 / cvc5 1.4.0 unsat answers")
    lmax = 4 if chk.tier == "quick" else 10
    chk.extra["structural_enumeration"] = {
        "L": list(range(lmax + 1)), "flag_combinations": [list(f) for f in FLAGS], "phase_space_factors": ["opaque (undefined function)"] + [c.__name__ for c in CLASSES],
        "module_level_builders": ["create_relativistic_breit_wigner", "create_relativistic_breit_wigner_with_ff", "create_analytic_breit_wigner", "create_non_dynamic_with_ff"],
        "particles": [p["name"] for p in (PARTICLES if chk.tier == "thorough" else PARTICLES[:1])], "exhaustive": True,
    }
    _width(chk, lmax)
    _blatt_weisskopf(chk, lmax)
    _form_factor(chk, lmax)
    _functions(chk)
    _builders(chk)
    _builders_numeric(chk)
    _builders_history(chk)
    _selftests(chk)


# ---- (a) EnergyDependentWidth -------------------------------------------------------------------------
def _width(chk: Check, lmax: int) -> None:
    fn = FD + "EnergyDependentWidth.evaluate"
    s, m0, g0, ma, mb, d = _WS
    ell = sp.Symbol("L", integer=True, nonnegative=True)
    rho = sp.Function("rho")
    sw = _searcher("width", lmax=lmax)
    rep = _replay(lambda *v: check_width(probe_phsp, 1, *v) or check_width(PSP.PhaseSpaceFactorComplex, 2, *v), ("s", "m0", "Gamma0", "m_a", "m_b", "d"), sw)

    def gen_opaque():
        t = S.DynTr("w")
        S.opaque_classes(t, FF.FormFactor)
        node = DY.EnergyDependentWidth(s, m0, g0, ma, mb, ell, d, rho)
        n0 = len(t.wd)
        body = t.scalar(node.evaluate())
        spec = S._width(t, node)
        ffs = list(S.node_atoms(t).values())
        rhos = [a for a in S.atoms(t) if a.kind == "rho"]
        chk.struct("EnergyDependentWidth.evaluate.uses_F(s);F(m0^2);rho(s);rho(m0^2)", len(ffs) == 2 and len(rhos) == 2, fn, witness=[a.label for a in ffs + rhos], lemma=True, replay=sw)
        chk.smt("EnergyDependentWidth.evaluate==Gamma0(F/F0)^2*rho/rho0[opaque rho;symbolic L]", t.hyps(), body.eq(spec), function=fn, replay=rep)
        sv, m0v, g0v = t.val(s).re, t.val(m0).re, t.val(g0)
        f0 = t.scalar(FF.FormFactor(m0**2, ma, mb, ell, d))
        r0 = t.scalar(rho(m0**2, ma, mb))
        cong = S.congruence(t)
        chk.struct("EnergyDependentWidth.congruence_instances_generated", len(cong) >= 2, fn, witness=len(cong), lemma=True, replay=sw)
        nz = [f0.abs2() != 0, r0.abs2() != 0]
        S.add_wd(chk, "EnergyDependentWidth.evaluate[opaque rho]", t, nz, fn, start=n0, replay=sw)
        chk.smt("EnergyDependentWidth(s=m0^2)==Gamma0[congruence;opaque rho;symbolic L]", t.hyps() + cong + nz + [sv == m0v * m0v], body.eq(g0v), function=fn, replay=rep)
        chk.cover("EnergyDependentWidth.cover[opaque rho]", t.hyps() + cong + nz + [sv == m0v * m0v, g0v.re != 0], fn)
        # the call with the symbolic argument m0**2 itself
        direct = t.scalar(DY.EnergyDependentWidth(m0**2, m0, g0, ma, mb, ell, d, rho).evaluate())
        chk.smt("EnergyDependentWidth(m0**2).evaluate()==Gamma0[opaque rho;symbolic L]", t.hyps() + nz, direct.eq(g0v), function=fn, replay=rep)

    chk.guarded("EnergyDependentWidth.evaluate[opaque rho]", gen_opaque, fn, replay=sw)

    for cls in CLASSES:
        nm = cls.__name__
        repc = _replay(lambda *v, cls=cls: check_width(cls, 1, *v) or check_width(cls, 2, *v), ("s", "m0", "Gamma0", "m_a", "m_b", "d"), sw)

        def gen_cls(cls=cls, nm=nm, repc=repc):
            t = S.DynTr("w" + nm[-4:])
            S.opaque_classes(t, FF.FormFactor)
            node = DY.EnergyDependentWidth(s, m0, g0, ma, mb, ell, d, cls)
            body = t.scalar(node.evaluate())
            spec = S._width(t, node)
            chk.smt(f"EnergyDependentWidth.evaluate==Gamma0(F/F0)^2*rho/rho0[{nm};symbolic L]", t.hyps() + S.congruence(t), body.eq(spec), function=fn, replay=repc)
            f0 = t.scalar(FF.FormFactor(m0**2, ma, mb, ell, d))
            r0 = t.scalar(cls(m0**2, ma, mb))
            nz = [f0.abs2() != 0, r0.abs2() != 0]
            direct = t.scalar(DY.EnergyDependentWidth(m0**2, m0, g0, ma, mb, ell, d, cls).evaluate())
            chk.smt(f"EnergyDependentWidth(m0**2).evaluate()==Gamma0[{nm};symbolic L]", t.hyps() + nz, direct.eq(t.val(g0)), function=fn, replay=repc)

        chk.guarded(f"EnergyDependentWidth.evaluate[{nm}]", gen_cls, fn, replay=sw)
        # numeric instances on the unfolded real code (bounded; E5 stand-in for 'evaluated after doit()')
        bad = None
        for L in range(lmax + 1):
            for pt in ((1.1, 0.9, 0.2, 0.3, 0.4, 1.0), (3.0, 1.6, 0.1, 0.14, 0.5, 0.7)):
                bad = bad or check_width(cls, L, *pt)
            if L == 4 or (L == lmax and lmax > 4):  # the thorough tier keeps the quick tier's name (superset rule)
                chk.struct(f"EnergyDependentWidth(s=m0^2)==Gamma0[numeric instances;{nm};L=0..{L}]", bad is None, fn, witness=bad, bounded=True,
                           replay=lambda model, bad=bad: {"reproduced": bad is not None, **(bad or {})})

    # a concrete cover with the numeric cross-check of the translation (contracts of FormFactor and PhaseSpaceFactor)
    def gen_cover():
        t = S.DynTr("wc")
        node = DY.EnergyDependentWidth(s, m0, g0, ma, mb, 1, d)
        body = t.scalar(node.evaluate())
        sv, m0v, mav, mbv, dv = (t.val(x).re for x in (s, m0, ma, mb, d))
        req = [mav > 0, mbv > 0, dv > 0, m0v > mav + mbv, sv > (mav + mbv) * (mav + mbv), sv != m0v * m0v, t.val(g0).re > 0]
        chk.cover("EnergyDependentWidth.cover[PhaseSpaceFactor;L=1]", t.hyps() + req, fn, model_check=e1.cover_check(t, body, node))

    chk.guarded("EnergyDependentWidth.cover", gen_cover, fn, replay=sw)


# ---- (b), (c) Blatt-Weisskopf, Hankel -------------------------------------------------------------------------
def _blatt_weisskopf(chk: Check, lmax: int) -> None:
    fb, fh = FFM + "BlattWeisskopfSquared.evaluate", FFM + "SphericalHankel1.evaluate"
    z = sp.Symbol("z", real=True)
    x = sp.Symbol("x", positive=True)
    ls = sp.Symbol("L", integer=True, nonnegative=True)
    sym = FF.BlattWeisskopfSquared(z, ls).evaluate()
    want = FF._formulate_blatt_weisskopf(ls, z)
    chk.struct("BlattWeisskopfSquared.evaluate[symbolic L]==Hankel_definition", sym == want and sym.has(FF.SphericalHankel1), fb, witness=str(sym)[:200], replay=_searcher("hankel", lmax=lmax))
    trees = {}
    for L in list(range(lmax + 1)) + list(range(lmax, -1, -1)):
        for arg in (L, sp.Integer(L)):
            tree = FF.BlattWeisskopfSquared(z, arg).evaluate()
            trees.setdefault(L, tree)
            if tree != trees[L]:
                trees[L] = None
    for L in range(lmax + 1):
        sb, sh = _searcher("bw", lmax=lmax), _searcher("hankel", lmax=lmax)
        rb = _replay(functools.partial(check_bw, L), ("z",), sb)
        chk.struct(f"BlattWeisskopfSquared[L={L}].polynomial_cache_consistent", trees[L] is not None, FFM + "_get_polynomial_blatt_weisskopf",
                   witness="repeated calls (ascending; descending; int and Integer) returned different trees", replay=sb)

        def gen_poly(L=L, sb=sb, rb=rb):
            t = S.DynTr(f"b{L}")
            node = FF.BlattWeisskopfSquared(z, L)
            n0 = len(t.wd)
            body = t.scalar(node.evaluate())
            zv = t.val(z).re
            S.add_wd(chk, f"BlattWeisskopfSquared[L={L}].evaluate", t, [zv >= 0], fb, start=n0, replay=sb)
            spec = S.blatt_weisskopf_value(t, t.val(z), L)
            chk.smt(f"BlattWeisskopfSquared[L={L}].evaluate==spec", t.hyps() + [zv >= 0], body.eq(spec), function=fb, lemma=True, replay=sb)
            c, dcs = S.bw_poly(L)
            zp = [R(1)]
            for _ in range(L):
                zp.append(zp[-1] * zv)
            den = sum((R(dk) * zp[L - k] for k, dk in enumerate(dcs)), R(0))
            chk.smt(f"BlattWeisskopfSquared[L={L}].value_1_at_z=1", t.hyps() + [zv == 1], body.eq(CONE), function=fb, replay=rb)
            chk.smt(f"BlattWeisskopfSquared[L={L}].numerator==c_L*z^L", t.hyps() + [zv >= 0], z3.And(body.imz == 0, body.re * den == R(c) * zp[L]), function=fb, replay=rb)
            chk.smt(f"BlattWeisskopfSquared[L={L}].denominator_D_L>0_on_z>=0", [zv >= 0], z3.And(den > 0, R(c) > 0, R(dcs[-1]) > 0), function=fb, lemma=True, replay=sb)
            chk.smt(f"BlattWeisskopfSquared[L={L}].bounded:0<=B<=M_L", t.hyps() + [zv >= 0], z3.And(body.re >= 0, body.re <= R(c / dcs[0])), function=fb, replay=rb)
            chk.smt(f"BlattWeisskopfSquared[L={L}].positive_for_z>0", t.hyps() + [zv > 0], body.re > 0, function=fb, replay=rb)
            chk.cover(f"BlattWeisskopfSquared[L={L}].cover", t.hyps() + [zv > 0, zv != 1], fb, model_check=e1.cover_check(t, body, node))
            # syntactic form of the returned tree: monomial numerator of degree L, denominator positive at 0
            num, dn = sp.fraction(sp.cancel(sp.together(node.evaluate())))
            pn, pd = sp.Poly(num, z), sp.Poly(dn, z)
            ok = pn.is_monomial and pn.degree() == L and pd.eval(0) * pn.LC() > 0 and pd.degree() == L
            chk.struct(f"BlattWeisskopfSquared[L={L}].tree:numerator_monomial_degree_L;denominator_nonzero_at_0", ok, fb, witness=f"{num} / {dn}"[:300], replay=rb)

        chk.guarded(f"BlattWeisskopfSquared[L={L}].evaluate", gen_poly, fb, replay=sb)

        def gen_hankel(L=L, sh=sh):
            t = S.DynTr(f"h{L}")
            node = FF.SphericalHankel1(L, x)
            n0 = len(t.wd)
            body = t.scalar(node.evaluate().doit())
            S.add_wd(chk, f"SphericalHankel1[L={L}].evaluate", t, [], fh, start=n0, replay=sh)
            spec = S.hankel_value(t, L, x)
            chk.smt(f"SphericalHankel1[L={L}].evaluate==spec", t.hyps(), body.eq(spec), function=fh, lemma=True, replay=sh)
            chk.cover(f"SphericalHankel1[L={L}].cover", t.hyps(), fh, model_check=lambda model, t=t, body=body, node=node: e1.cover_check(t, body, node)(S.true_model(t, model)))
            rh = _replay(lambda xv, L=L: check_hankel(L, xv * xv), ("x",), sh)
            for form in ("spec", "doit"):
                tt = S.DynTr(f"c{L}{form}")
                n0 = len(tt.wd)
                hd = FF._formulate_blatt_weisskopf(sp.Integer(L), x**2)
                hdef = tt.scalar(hd if form == "spec" else hd.doit())
                poly = tt.scalar(FF.BlattWeisskopfSquared(x**2, L).evaluate())
                S.add_wd(chk, f"BlattWeisskopfSquared[L={L}].Hankel_definition[{form}]", tt, [], FFM + "_formulate_blatt_weisskopf", start=n0, replay=sh)
                chk.smt(f"BlattWeisskopfSquared[L={L}].polynomial_path==Hankel_definition[{form}]", tt.hyps(), hdef.eq(poly), function=fb, replay=rh, lemma=(form == "spec"))
                if form == "spec":
                    chk.cover(f"BlattWeisskopfSquared[L={L}].Hankel_definition.cover", tt.hyps(), FFM + "_formulate_blatt_weisskopf", model_check=e1.cover_check(tt, hdef, hd))

        chk.guarded(f"SphericalHankel1[L={L}].evaluate", gen_hankel, fh, replay=sh)


# ---- FormFactor --------------------------------------------------------------------------------------------------------
def _form_factor(chk: Check, lmax: int) -> None:
    fn = FFM + "FormFactor.evaluate"
    s, _, _, ma, mb, d = _WS
    for L in range(lmax + 1):
        sf = _searcher("ff", lmax=lmax)
        rf = _replay(functools.partial(check_ff, L), ("s", "m_a", "m_b", "d"), sf)

        def gen(L=L, sf=sf, rf=rf):
            t = S.DynTr(f"f{L}")
            node = FF.FormFactor(s, ma, mb, L, d)
            n0 = len(t.wd)
            body = t.scalar(node.evaluate())
            sv = t.val(s).re
            # requires q^2 >= 0: for odd L the denominator D_L(z) has a zero at some z < 0 (sub-threshold pole of B_L^2).
            # The argument z of the Blatt-Weisskopf node is bound to a free variable (derived quantity): the conditions
            # are proved for all z >= 0, and z = q^2 d^2 >= 0 is a separate obligation.
            q2v = S.q2_value(t, t.val(s), t.val(ma), t.val(mb)).re
            bls = list(node.evaluate().atoms(FF.BlattWeisskopfSquared))
            if len(bls) == 1:
                zarg = bls[0].args[0]
                t2 = S.DynTr(f"fw{L}")
                zf = z3.Real("z")
                t2.bind(zarg, Cx(zf))
                m0_ = len(t2.wd)
                t2.scalar(node.evaluate())
                S.add_wd(chk, f"FormFactor[L={L}].evaluate", t2, [zf >= 0], fn, start=m0_, replay=sf)
                b2 = t2.scalar(node.evaluate())
                chk.smt(f"FormFactor[L={L}].evaluate^2==B_L^2(z)[z=BlattWeisskopf_argument]", t2.hyps(), z3.And((b2 * b2).eq(S.blatt_weisskopf_value(t2, Cx(zf), L)), b2.re >= 0, b2.imz >= 0),
                        function=fn, replay=rf)
                dv_ = t.val(d).re
                chk.smt(f"FormFactor[L={L}].BlattWeisskopf_argument==q^2*d^2", t.hyps() + [sv != 0], t.scalar(zarg).eq(Cx(q2v * dv_ * dv_)), function=fn, lemma=True, replay=sf)
                chk.smt(f"FormFactor[L={L}].BlattWeisskopf_argument>=0_when_q^2>=0", [q2v >= 0], q2v * dv_ * dv_ >= 0, function=fn, lemma=True, replay=sf)
            else:
                S.add_wd(chk, f"FormFactor[L={L}].evaluate", t, [sv != 0, q2v >= 0], fn, start=n0, replay=sf)
            bl = FF.BlattWeisskopfSquared(PSP.BreakupMomentumSquared(s, ma, mb) * d**2, L)
            inner = t.scalar(bl)
            chk.struct(f"FormFactor[L={L}].evaluate_is_sqrt_of_BlattWeisskopfSquared(q2*d^2)", node.evaluate() == sp.sqrt(bl), fn, witness=str(node.evaluate()), lemma=True, replay=sf)
            if L <= 4:  # direct (unbound) cross-check where cheap
                chk.smt(f"FormFactor[L={L}].evaluate^2==B_L^2(q^2*d^2)", t.hyps() + [sv != 0], (body * body).eq(inner), function=fn, replay=rf)
                chk.smt(f"FormFactor[L={L}].principal_root", t.hyps() + [sv != 0], z3.And(body.re >= 0, body.imz >= 0), function=fn, replay=rf)
            mav, mbv, dv = (t.val(v).re for v in (ma, mb, d))
            if L <= 4:
                chk.cover(f"FormFactor[L={L}].cover", t.hyps() + [mav > 0, mbv > 0, dv > 0, sv > (mav + mbv) * (mav + mbv)], fn, model_check=e1.cover_check(t, body, node))

        chk.guarded(f"FormFactor[L={L}].evaluate", gen, fn, replay=sf)


# ---- the public lineshape functions --------------------------------------------------------------------------------------
def _functions(chk: Check) -> None:
    s, m0, g0, ma, mb, d = _WS
    ell = sp.Symbol("L", integer=True, nonnegative=True)
    sb = _searcher("builder")
    t = S.DynTr("fn")
    S.opaque_classes(t, FF.FormFactor, DY.EnergyDependentWidth)
    sv, m0v, g0v = t.val(s), t.val(m0), t.val(g0)
    f1 = FD + "relativistic_breit_wigner"
    n0 = len(t.wd)
    v1 = chk.guarded("relativistic_breit_wigner", lambda: t.scalar(DY.relativistic_breit_wigner(s, m0, g0)), f1, replay=sb)
    if v1 is not None:
        S.add_wd(chk, "relativistic_breit_wigner", t, [m0v.re > 0, g0v.re > 0], f1, start=n0, replay=sb)
        chk.smt("relativistic_breit_wigner==m0*Gamma0/(m0^2-s-i*m0*Gamma0)", t.hyps(), v1.eq(S.breit_wigner_value(t, sv, m0v, g0v)), function=f1, lemma=True, replay=sb)
        chk.cover("relativistic_breit_wigner.cover", t.hyps() + [m0v.re > 0, g0v.re > 0, sv.re > 0], f1, model_check=S.cover_check_complex(t, v1, DY.relativistic_breit_wigner(s, m0, g0)))
    f2 = FD + "relativistic_breit_wigner_with_ff"
    for ph in (sp.Function("rho"), *CLASSES):
        nm = _phname(ph)

        def gen(ph=ph, nm=nm):
            v2 = t.scalar(DY.relativistic_breit_wigner_with_ff(s, m0, g0, ma, mb, ell, d, ph))
            ffv = t.scalar(FF.FormFactor(s, ma, mb, ell, d))
            wv = t.scalar(DY.EnergyDependentWidth(s, m0, g0, ma, mb, ell, d, ph))
            chk.smt(f"relativistic_breit_wigner_with_ff[{nm}]==F*m0*Gamma0/(m0^2-s-i*m0*Gamma(s))", t.hyps(), v2.eq(S.breit_wigner_ff_value(t, sv, m0v, g0v, ffv, wv)), function=f2, lemma=True, replay=sb)

        chk.guarded(f"relativistic_breit_wigner_with_ff[{nm}]", gen, f2, replay=sb)
    # default phase-space factor of the function API is PhaseSpaceFactor
    dflt = DY.relativistic_breit_wigner_with_ff(s, m0, g0, ma, mb, ell, d)
    want = DY.relativistic_breit_wigner_with_ff(s, m0, g0, ma, mb, ell, d, PSP.PhaseSpaceFactor)
    chk.smt("relativistic_breit_wigner_with_ff.default_phsp_factor_is_PhaseSpaceFactor", t.hyps(), t.scalar(dflt).eq(t.scalar(want)), function=f2, lemma=True, replay=sb)


# ---- (d) builders -----------------------------------------------------------------------------------------------------------
def _bind_params(t, particle):
    mR, gR, dR = _params(particle)
    zs = z3.Real("m_R"), z3.Real("Gamma_R"), z3.Real("d_R")
    for sym, zv in zip((mR, gR, dR), zs):
        t.bind(sym, Cx(zv))
    t.assm += [zs[0] >= 0, zs[1] >= 0, zs[2] > 0]
    return mR, gR, dR


def _defaults_ok(expr, defaults, particle, pool_syms):
    mR, gR, dR = _params(particle)
    want = {mR: particle.mass, gR: particle.width, dR: 1}
    occurring = {k: v for k, v in want.items() if k in expr.free_symbols}
    params = {x for x in expr.free_symbols - set(pool_syms) if not x.is_integer}  # a symbolic L belongs to the pool
    ok = dict(defaults) == occurring and set(defaults) == params and all(type(defaults[k]) in (int, float) or getattr(defaults[k], "is_number", False) for k in defaults)
    return ok, {"defaults": {str(k): v for k, v in defaults.items()}, "expected": {str(k): v for k, v in occurring.items()}, "parameters_in_expression": sorted(map(str, params))}


def _builders(chk: Check) -> None:
    m, ma, mb, th, ph_ = POOL
    fcall = FB + "RelativisticBreitWignerBuilder.__call__"
    rho = sp.Function("rho")
    parts = [Particle(**p) for p in (PARTICLES if chk.tier == "thorough" else PARTICLES[:1])]
    ells = [sp.Symbol("L", integer=True, nonnegative=True), 2] if chk.tier == "quick" else [sp.Symbol("L", integer=True, nonnegative=True), 2, 0, 7]
    for particle in parts:
        for ell in ells:
            tag = f"{particle.name};L={ell}"
            for nm, call, ff, edw, ph in _builder_calls((rho, *CLASSES)):
                fn = fcall if nm.startswith("Relativistic") else FB + nm
                rph = probe_phsp if ph is rho else ph
                rell = 2 if isinstance(ell, sp.Symbol) else int(ell)

                def rep(model, nm=nm, ff=ff, edw=edw, rph=rph, rell=rell, particle=particle, call=call, ph=ph):
                    c = call if not nm.startswith("Relativistic") or ph is not rho else BLD.RelativisticBreitWignerBuilder(form_factor=ff, energy_dependent_width=edw, phsp_factor=rph)
                    r = check_builder(c, ff, edw, rph, rell, particle)
                    return {"reproduced": r is not None, "builder": nm, **(r or {"note": "builder and function API agree numerically at the probe points"})}

                def gen(nm=nm, call=call, ff=ff, edw=edw, ph=ph, fn=fn, rep=rep, particle=particle, ell=ell, tag=tag):
                    t = S.DynTr("bl")
                    S.opaque_classes(t, FF.FormFactor, DY.EnergyDependentWidth)
                    mR, gR, dR = _bind_params(t, particle)
                    expr, defaults = call(particle, _pool(ell))
                    n0 = len(t.wd)
                    got = t.scalar(expr)
                    sv, m0v, g0v = t.scalar(m**2), t.val(mR), t.val(gR)
                    ffv = t.scalar(FF.FormFactor(m**2, ma, mb, ell, dR)) if ff else CONE
                    if edw:
                        wv = t.scalar(DY.EnergyDependentWidth(m**2, mR, gR, ma, mb, ell, dR, ph))
                        formula = S.breit_wigner_ff_value(t, sv, m0v, g0v, ffv, wv)
                    else:
                        formula = ffv * S.breit_wigner_value(t, sv, m0v, g0v)
                    chk.smt(f"{nm}[{tag}].expression==formula", t.hyps(), got.eq(formula), function=fn, replay=rep)
                    public = t.scalar(expected_expr(ff, edw, ph, m**2, mR, gR, ma, mb, ell, dR))
                    chk.smt(f"{nm}[{tag}].expression==function_API", t.hyps(), got.eq(public), function=fn, replay=rep)
                    ok, wit = _defaults_ok(expr, defaults, particle, POOL)
                    chk.struct(f"{nm}[{tag}].defaults=={{m_R:mass;Gamma_R:width;d_R:1}}", ok, fn, witness=wit, replay=lambda model, ok=ok, wit=wit: {"reproduced": not ok, "input": {"particle": particle.name}, **wit})
                    if nm.endswith("opaque]") or not nm.startswith("Relativistic"):
                        req = [m0v.re > 0, g0v.re > 0] + ([wv.re > 0] if edw else [])
                        S.add_wd(chk, f"{nm}[{tag}]", t, req, fn, start=n0, replay=rep)
                        chk.cover(f"{nm}[{tag}].cover", t.hyps() + req, fn)

                chk.guarded(f"{nm}[{tag}]", gen, fn, replay=rep)
            # create_non_dynamic_with_ff
            fnd = FB + "create_non_dynamic_with_ff"

            def rep_nd(model):
                r = search(("builder",))
                return r

            def gen_nd(particle=particle, ell=ell, tag=tag):
                t = S.DynTr("nd")
                S.opaque_classes(t, FF.FormFactor, DY.EnergyDependentWidth)
                mR, gR, dR = _bind_params(t, particle)
                expr, defaults = BLD.create_non_dynamic_with_ff(particle, _pool(ell))
                chk.smt(f"create_non_dynamic_with_ff[{tag}].expression==FormFactor(m^2;m_a;m_b;L;d_R)", t.hyps(), t.scalar(expr).eq(t.scalar(FF.FormFactor(m**2, ma, mb, ell, dR))), function=fnd, replay=rep_nd)
                ok, wit = _defaults_ok(expr, defaults, particle, POOL)
                chk.struct(f"create_non_dynamic_with_ff[{tag}].defaults=={{d_R:1}}", ok, fnd, witness=wit, replay=lambda model, ok=ok, wit=wit: {"reproduced": not ok, **wit})

            chk.guarded(f"create_non_dynamic_with_ff[{tag}]", gen_nd, fnd, replay=rep_nd)


# ---- engine self-tests -----------------------------------------------------------------------------------------------------------
def _selftests(chk: Check) -> None:
    z = sp.Symbol("z", real=True)
    t = S.DynTr("st")
    b1 = t.scalar(FF.BlattWeisskopfSquared(z, 1).evaluate())
    chk.mustfail("selftest.BlattWeisskopfSquared[L=1]<=1(false:M_1=2)", t.hyps() + [t.val(z).re >= 0], b1.re <= 1, function=FFM + "BlattWeisskopfSquared.evaluate")
    x = sp.Symbol("x", positive=True)
    t = S.DynTr("st2")
    hdef = t.scalar(FF._formulate_blatt_weisskopf(sp.Integer(2), x**2))
    poly = t.scalar(FF.BlattWeisskopfSquared(x**2, 1).evaluate())
    chk.mustfail("selftest.Hankel_definition[L=2]==polynomial_path[L=1]", t.hyps(), hdef.eq(poly), function=FFM + "_formulate_blatt_weisskopf")
    # builder with form factor is not the plain Breit-Wigner; different width nodes are different atoms
    t = S.DynTr("st3")
    S.opaque_classes(t, FF.FormFactor, DY.EnergyDependentWidth)
    part = Particle(**PARTICLES[0])
    mR, gR, dR = _bind_params(t, part)
    m, ma, mb, _, _ = POOL
    expr, _ = BLD.RelativisticBreitWignerBuilder(form_factor=True, energy_dependent_width=True)(part, _pool(2))
    wrong = expected_expr(True, True, PSP.PhaseSpaceFactor, m**2, mR, gR, mb, mb, 2, dR)
    chk.mustfail("selftest.builder==function_with_m_b_passed_twice", t.hyps(), t.scalar(expr).eq(t.scalar(wrong)), function=FB + "RelativisticBreitWignerBuilder.__call__")
    s, m0, g0, ma_, mb_, d = _WS
    t = S.DynTr("st4")
    S.opaque_classes(t, FF.FormFactor)
    rho = sp.Function("rho")
    ell = sp.Symbol("L", integer=True, nonnegative=True)
    body = t.scalar(DY.EnergyDependentWidth(s, m0, g0, ma_, mb_, ell, d, rho).evaluate())
    chk.mustfail("selftest.EnergyDependentWidth==Gamma0_without_s=m0^2", t.hyps() + S.congruence(t), body.eq(t.val(g0)), function=FD + "EnergyDependentWidth.evaluate")


def _builders_numeric(chk: Check) -> None:
    """Bounded, real code: builder expression vs public function API evaluated numerically, symbols-first AND numbers-first
    (exact numbers whose values coincide with other arguments), for every flag combination."""
    particle = Particle(**PARTICLES[0]) if isinstance(PARTICLES[0], dict) else PARTICLES[0]
    phs = (PSP.PhaseSpaceFactor, PSP.PhaseSpaceFactorSWave) if chk.tier == "quick" else tuple(CLASSES)
    for name, call, ff, edw, ph in _builder_calls(phs):
        for ell in ((2,) if chk.tier == "quick" else (0, 1, 2, 3)):
            def rep(_m=None, call=call, ff=ff, edw=edw, ph=ph, ell=ell):
                r = check_builder(call, ff, edw, ph, ell, particle)
                return {"reproduced": bool(r), **(r or {})}

            r = rep()
            chk.struct(f"numeric_instances.builder==function_api[{name};L={ell}]", not r["reproduced"], "ampform.dynamics.builder.RelativisticBreitWignerBuilder.__call__",
                       witness=r, replay=rep, bounded=True)


def _builders_history(chk: Check) -> None:
    """Bounded, real code, HISTORY of builder calls in one process: builders configured with caller-supplied FUNCTIONS as phase-space
    factor (closures of one factory: same module and qualified name; PhaseSpaceFactorProtocol allows any callable) are called one after
    the other for the same resonance, decay and L. Each result must be the public function API for the library class that the function
    wraps -- not the lineshape of an earlier call (SymPy caches products by ==/hash of their arguments)."""
    particle = Particle(**PARTICLES[0]) if isinstance(PARTICLES[0], dict) else PARTICLES[0]

    def named(c):
        def phsp(s, m1, m2):
            return c(s, m1, m2)

        return phsp

    order = (PSP.PhaseSpaceFactorSWave, PSP.PhaseSpaceFactorAbs, PSP.PhaseSpaceFactorComplex, PSP.PhaseSpaceFactor, PSP.PhaseSpaceFactorSWave)
    for ff in (False, True):
        def rep(_m=None, ff=ff):
            for k, c in enumerate(order):
                call = BLD.RelativisticBreitWignerBuilder(form_factor=ff, energy_dependent_width=True, phsp_factor=named(c))
                for ell in (0, 2):
                    r = check_builder(call, ff, True, c, ell, particle)
                    if r:
                        return {"reproduced": True, **r, "history": f"call {k + 1} of the sequence {[x.__name__ for x in order]}, each wrapped in a closure of one factory"}
            return {"reproduced": False}

        r = rep()
        chk.struct(f"history.builder_uses_the_phsp_factor_it_was_configured_with[ff={int(ff)};edw=1]", not r["reproduced"],
                   "ampform.dynamics.builder.RelativisticBreitWignerBuilder.__call__", witness=r, replay=rep, bounded=True)
