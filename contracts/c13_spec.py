"""C13, specification side on REAL objects (used by the bounded layer and by every replay).

Everything here is computed from the qrules transition alone (edges / nodes of the topology, states, interactions); none of
ampform's helpers (`TwoBodyDecay`, `determine_attached_final_state`, `get_invariant_mass_symbol`, ...) is used, so the
expected values are independent of the code under contract.
"""

from __future__ import annotations

import logging

import sympy as sp

from vlib import models, zoo

NONE_MARKER = sp.Symbol("L_is_None")


# ---- independent reading of a transition ---------------------------------------------------------------------------
def parent_edge(topology, node_id: int) -> int:
    (e,) = [i for i, edge in topology.edges.items() if edge.ending_node_id == node_id]
    return e


def child_edges(topology, node_id: int) -> list[int]:
    return sorted(i for i, edge in topology.edges.items() if edge.originating_node_id == node_id)


def final_state_ids(topology, edge_id: int) -> tuple[int, ...]:
    node = topology.edges[edge_id].ending_node_id
    if node is None:
        return (edge_id,)
    out: list[int] = []
    for c in child_edges(topology, node):
        out.extend(final_state_ids(topology, c))
    return tuple(sorted(out))


def mass_symbol(ids) -> sp.Symbol:
    return sp.Symbol("m_" + "".join(str(i) for i in sorted(ids)), nonnegative=True)


def ordered_children(topology, node_id: int) -> list[int]:
    """children[0] is the helicity state: the daughter whose tuple of final-state ids is the smaller one."""
    return sorted(child_edges(topology, node_id), key=lambda e: final_state_ids(topology, e))


def node_spec(transition, node_id: int) -> dict:
    topo = transition.topology
    p = parent_edge(topo, node_id)
    c0, c1 = ordered_children(topo, node_id)
    particle = transition.states[p].particle
    ell = transition.interactions[node_id].l_magnitude
    if ell is None and float(particle.spin).is_integer():
        ell = int(particle.spin)
    return {
        "parent_edge": p, "particle": particle, "children": (c0, c1),
        "s": mass_symbol(final_state_ids(topo, p)), "m_a": mass_symbol(final_state_ids(topo, c0)), "m_b": mass_symbol(final_state_ids(topo, c1)),
        "L": ell,
    }


def decay_key(transition, node_id: int):
    """Identity of 'one specific decay': the parent state with its edge id, the two daughters with theirs, the interaction."""
    topo = transition.topology
    p = parent_edge(topo, node_id)

    def st(e):
        s = transition.states[e]
        return (e, s.particle.name, float(s.spin_projection))

    return (st(p), tuple(sorted(st(c) for c in child_edges(topo, node_id))), repr(transition.interactions[node_id]))


# ---- opaque builders -------------------------------------------------------------------------------------------------
def ptag(particle) -> sp.Symbol:
    return sp.Symbol(f"particle[{particle.name}|{particle.pid}]")


def qsym(tag: str, particle) -> sp.Symbol:
    return sp.Symbol(f"q_{tag}[{particle.name}]")


def opaque_builder(tag: str, log: list | None = None, conflicting: bool = False):
    """A custom ResonanceDynamicsBuilder about which nothing is known but the protocol."""
    fn = sp.Function(tag)

    def builder(resonance, variable_pool):
        ell = variable_pool.angular_momentum
        expr = fn(ptag(resonance), variable_pool.incoming_state_mass, variable_pool.outgoing_state_mass1, variable_pool.outgoing_state_mass2,
                  NONE_MARKER if ell is None else ell)
        if conflicting:  # one parameter per resonance whose suggested value depends on the node (collisions between chains)
            value = float(sum(ord(c) for c in variable_pool.outgoing_state_mass1.name + variable_pool.incoming_state_mass.name))
            defaults = {sp.Symbol(f"w_{tag}"): value}
        else:
            defaults = {qsym(tag, resonance): float(resonance.mass)}
        if log is not None:
            log.append((resonance.name, str(expr), dict(defaults)))
        return expr, defaults

    builder.__name__ = f"opaque_{tag}"
    return builder


def expected_factor(tag: str, transition, node_id: int):
    sp_ = node_spec(transition, node_id)
    return sp.Function(tag)(ptag(sp_["particle"]), sp_["s"], sp_["m_a"], sp_["m_b"], NONE_MARKER if sp_["L"] is None else sp_["L"])


# ---- selections and histories ----------------------------------------------------------------------------------------
# op = (kind, target, tag): kind in name | particle | decay | node ; target = particle name | (transition index, node id)
def selected(op, reaction, transition, node_id: int) -> bool:
    kind, target, _ = op
    if kind in {"name", "particle"}:
        return transition.states[parent_edge(transition.topology, node_id)].particle.name == target
    t0, n0 = target
    return decay_key(reaction.transitions[t0], n0) == decay_key(transition, node_id)


def expected_choice(ops, reaction, transition, node_id: int):
    tag = None
    for op in ops:
        if selected(op, reaction, transition, node_id):
            tag = op[2]
    return tag


def find_particle(reaction, name: str):
    for t in reaction.transitions:
        for s in t.states.values():
            if s.particle.name == name:
                return s.particle
    raise KeyError(name)


def apply_ops(builder, reaction, ops, builders: dict):
    from ampform.helicity.decay import TwoBodyDecay

    for kind, target, tag in ops:
        b = builders[tag]
        if kind == "name":
            builder.dynamics.assign(target, b)
        elif kind == "particle":
            builder.dynamics.assign(find_particle(reaction, target), b)
        elif kind == "decay":
            builder.dynamics.assign(TwoBodyDecay.from_transition(reaction.transitions[target[0]], target[1]), b)
        else:
            builder.dynamics.assign((reaction.transitions[target[0]], target[1]), b)


def ops_text(ops) -> str:
    return ">".join(f"{k}:{t if isinstance(t, str) else 't%dn%d' % t}={tag}" for k, t, tag in ops)


def scenarios(reaction, tier: str) -> list[list]:
    """Selections of every kind and re-assignments in different orders for one reaction."""
    names = sorted(reaction.get_intermediate_particles().names)
    top = reaction.transitions[0].states[parent_edge(reaction.transitions[0].topology, 0)].particle.name  # decaying initial state
    r0 = names[0]
    last = len(reaction.transitions) - 1
    tn = (0, max(reaction.transitions[0].topology.nodes))  # the resonance node of the first transition
    tn2 = (last, max(reaction.transitions[last].topology.nodes))
    r_tn = reaction.transitions[tn[0]].states[parent_edge(reaction.transitions[tn[0]].topology, tn[1])].particle.name
    out = [
        [("name", r0, "B")],
        [("particle", r0, "B")],
        [("decay", tn, "B")],
        [("node", tn2, "B")],
        [("name", top, "B")],  # the same decaying particle in every topology
        [("name", r_tn, "B"), ("decay", tn, "B2")],  # by name, then one decay re-assigned
        [("decay", tn, "B2"), ("name", r_tn, "B")],  # the other order: the name selection overrides the decay
        [("name", n, "B") for n in names] + [("node", tn, "B2"), ("particle", names[-1], "B3")],
        [("name", "no such particle", "B")],
    ]
    if tier == "thorough":
        out += [
            [("particle", names[-1], "B3")] + [("name", n, "B") for n in reversed(names)] + [("decay", tn2, "B2")],
            [("node", tn, "B"), ("node", tn, "B2"), ("node", tn2, "B3"), ("name", top, "B")],
            [("name", top, "B"), ("name", r0, "B2"), ("name", top, "B3")],
        ]
    return out


def nodes_of(reaction):
    for ti, t in enumerate(reaction.transitions):
        for n in t.topology.nodes:
            yield ti, t, n


# ---- checks on the real code -----------------------------------------------------------------------------------------
def check_selector(reaction, ops) -> list[dict]:
    """The real DynamicsSelector after the history `ops` against the whole-map postcondition."""
    import ampform
    from ampform.dynamics.builder import create_non_dynamic
    from ampform.helicity.decay import TwoBodyDecay

    builders = {tag: opaque_builder(tag) for tag in ("B", "B2", "B3")}
    b = ampform.get_builder(reaction)
    before = set(b.dynamics)
    apply_ops(b, reaction, ops, builders)
    bad = []
    for ti, t, n in nodes_of(reaction):
        want = expected_choice(ops, reaction, t, n)
        got = b.dynamics[TwoBodyDecay.from_transition(t, n)]
        want_fn = create_non_dynamic if want is None else builders[want]
        if got is not want_fn:
            bad.append({"transition": ti, "node": n, "parent": t.states[parent_edge(t.topology, n)].particle.name, "expected_builder": want or "create_non_dynamic",
                        "observed_builder": getattr(got, "__name__", str(got))})
    if set(b.dynamics) != before and not any(k in {"decay", "node"} for k, _, _ in ops):
        bad.append({"keys_changed": len(set(b.dynamics) ^ before)})
    return bad


def base_model(reaction):
    import ampform

    return ampform.get_builder(reaction).formulate()


def check_model(reaction, ops, base=None) -> tuple[list[dict], dict]:
    """formulate() after the history `ops` with opaque builders: every chain component against base x expected factors."""
    import ampform

    models.quiet()
    base = base or base_model(reaction)
    builders = {tag: opaque_builder(tag) for tag in ("B", "B2", "B3")}
    b = ampform.get_builder(reaction)
    apply_ops(b, reaction, ops, builders)
    model = b.formulate()
    bad: list[dict] = []
    want_q: dict = {}
    expected: dict[str, sp.Expr] = {}
    n_affected = 0
    for t in reaction.transitions:
        name = f"A_{{{b.naming.generate_amplitude_name(t)}}}"
        factor = sp.S.One
        for n in t.topology.nodes:
            tag = expected_choice(ops, reaction, t, n)
            if tag is not None:
                factor = factor * expected_factor(tag, t, n)
                particle = t.states[parent_edge(t.topology, n)].particle
                want_q[qsym(tag, particle)] = float(particle.mass)
        if name in expected and expected[name] != factor:
            bad.append({"component": name, "note": "two chains with one name and different expected factors"})
        expected[name] = factor
    chain_names = [k for k in base.components if k.startswith("A_")]
    if set(chain_names) != set(expected) or set(model.components) != set(base.components):
        bad.append({"component_names_differ": sorted(set(chain_names) ^ set(expected))[:3] + sorted(set(model.components) ^ set(base.components))[:3]})
    for name in chain_names:
        if name not in expected or name not in model.components:
            continue
        want = base.components[name] * expected[name]
        n_affected += expected[name] != 1
        if model.components[name] != want:
            bad.append({"component": name, "expected": str(want)[:400], "observed": str(model.components[name])[:400],
                        "kind": "unaffected component changed" if expected[name] == 1 else "affected component is not base x B(expected arguments)"})
    got_q = {k: v for k, v in model.parameter_defaults.items() if k.name.startswith("q_")}
    if got_q != want_q:
        bad.append({"builder_defaults": {"expected": {str(k): v for k, v in want_q.items()}, "observed": {str(k): v for k, v in got_q.items()}}})
    rest = {k: v for k, v in model.parameter_defaults.items() if not k.name.startswith("q_")}
    if rest != dict(base.parameter_defaults.items()):
        bad.append({"other_parameter_defaults_changed": sorted(str(k) for k in set(rest) ^ set(base.parameter_defaults))[:4]})
    return bad, {"affected_components": n_affected, "components": len(chain_names)}


class _Count(logging.Handler):
    def __init__(self):
        super().__init__(level=logging.WARNING)
        self.records: list[str] = []

    def emit(self, record):
        self.records.append(record.getMessage())


def check_conflicts(reaction) -> list[dict]:
    """Defaults that collide between chains: last value wins, one warning per conflicting re-definition, nothing raised."""
    import ampform

    top = reaction.transitions[0].states[parent_edge(reaction.transitions[0].topology, 0)].particle.name
    log: list = []
    b = ampform.get_builder(reaction)
    bc = opaque_builder("Bc", log, conflicting=True)
    for nm in [top, *sorted(reaction.get_intermediate_particles().names)]:  # one shared parameter: node-dependent values collide
        b.dynamics.assign(nm, bc)
    handler = _Count()
    logger = logging.getLogger("ampform.helicity")
    old_disable = logging.root.manager.disable
    logging.disable(logging.NOTSET)
    logger.addHandler(handler)
    try:
        model = b.formulate()
    except Exception as e:  # noqa: BLE001
        return [{"raised": f"{type(e).__name__}: {e}"}]
    finally:
        logger.removeHandler(handler)
        logging.disable(old_disable)
    store: dict = {}
    n_conf = 0
    for _name, _expr, defaults in log:
        for k, v in defaults.items():
            if k in store and store[k] != v:
                n_conf += 1
            store[k] = v
    bad = []
    got = {k: v for k, v in model.parameter_defaults.items() if k.name.startswith("w_")}
    if got != store:
        bad.append({"expected_last_value_wins": {str(k): v for k, v in store.items()}, "observed": {str(k): v for k, v in got.items()}})
    warned = [m for m in handler.records if "inconsistent with existing value" in m]
    if len(warned) != n_conf:
        bad.append({"expected_warnings": n_conf, "observed_warnings": len(warned)})
    if not log:
        bad.append({"note": "builder never called"})
    return bad + ([] if n_conf else [{"vacuous": "no conflicting defaults occurred"}])


REAL_BUILDERS = ("create_relativistic_breit_wigner", "create_relativistic_breit_wigner_with_ff", "create_analytic_breit_wigner", "create_non_dynamic_with_ff")


def check_real_builder(reaction, builder_name: str, base=None) -> tuple[list[dict], dict]:
    """Real builders assigned by name to every resonance: (1) every chain component = base x builder(particle, EXPECTED
    variable set)[0] with the variable set built by the contract; (2) defaults of m_R, Gamma_R = tabulated mass, width."""
    import ampform
    from ampform.dynamics import builder as B
    from ampform.dynamics.builder import TwoBodyKinematicVariableSet

    models.quiet()
    real = getattr(B, builder_name)
    base = base or base_model(reaction)
    names = sorted(reaction.get_intermediate_particles().names)
    b = ampform.get_builder(reaction)
    for nm in names:
        b.dynamics.assign(nm, real)
    try:
        model = b.formulate()
    except ValueError as e:
        if "Angular momentum is not defined" in str(e):  # documented refusal (helicity formalism, half-integer spin)
            ok = any(node_spec(t, n)["L"] is None and node_spec(t, n)["particle"].name in names for _, t, n in nodes_of(reaction))
            return ([] if ok else [{"raised_without_cause": str(e)}]), {"refused": True}
        raise
    bad = []
    expected_defaults: dict = {}
    for t in reaction.transitions:
        name = f"A_{{{b.naming.generate_amplitude_name(t)}}}"
        factor = sp.S.One
        for n in t.topology.nodes:
            s = node_spec(t, n)
            if s["particle"].name not in names:
                continue
            topo = t.topology
            sfx_phi, sfx_theta = None, None
            # theta/phi are not used by any shipped builder; take them from the model's own naming
            from ampform.helicity.naming import get_helicity_angle_symbols

            sfx_phi, sfx_theta = get_helicity_angle_symbols(topo, s["children"][0])
            vs = TwoBodyKinematicVariableSet(incoming_state_mass=s["s"], outgoing_state_mass1=s["m_a"], outgoing_state_mass2=s["m_b"],
                                             helicity_theta=sfx_theta, helicity_phi=sfx_phi, angular_momentum=s["L"])
            expr, defaults = real(s["particle"], vs)
            factor = factor * expr
            expected_defaults.update(defaults)
        if name in model.components and model.components[name] != base.components[name] * factor:
            bad.append({"component": name, "expected": str(base.components[name] * factor)[:300], "observed": str(model.components[name])[:300]})
    n_checked = 0
    for nm in names:
        p = find_particle(reaction, nm)
        ident = p.latex or p.name
        for sym, want in ((sp.Symbol(f"m_{{{ident}}}", nonnegative=True), p.mass), (sp.Symbol(Rf"\Gamma_{{{ident}}}", nonnegative=True), p.width)):
            if builder_name == "create_non_dynamic_with_ff":
                continue
            n_checked += 1
            if sym not in model.parameter_defaults:
                bad.append({"missing_parameter": str(sym), "particle": nm})
            elif model.parameter_defaults[sym] != want:
                bad.append({"parameter": str(sym), "particle": nm, "expected_tabulated": want, "observed_default": model.parameter_defaults[sym]})
    for k, v in expected_defaults.items():
        if model.parameter_defaults[k] != v if k in model.parameter_defaults else True:
            bad.append({"default": str(k), "expected": v, "observed": model.parameter_defaults[k] if k in model.parameter_defaults else "missing"})
    return bad, {"mass_width_defaults_checked": n_checked}


# ---- particle table ----------------------------------------------------------------------------------------------------
def particle_table():
    import qrules

    table = {}
    for loader in ("load_pdg", "load_default_particles"):
        fn = getattr(qrules, loader, None) or getattr(qrules.particle, loader)
        for p in fn():
            table.setdefault(p.name, p)
    return list(table.values())


def identifier_groups():
    groups: dict[str, list] = {}
    for p in particle_table():
        groups.setdefault(p.latex or p.name, []).append(p)
    return groups


def replay_identifier(ident: str):
    """Load qrules' table, show the entries that share the identifier, and let ampform's real builder name their parameters."""
    from ampform.dynamics.builder import TwoBodyKinematicVariableSet, create_relativistic_breit_wigner

    ps = identifier_groups().get(ident, [])
    vs = TwoBodyKinematicVariableSet(*sp.symbols("m_12 m_1 m_2 theta phi", nonnegative=True), angular_momentum=0)
    produced = []
    for p in ps:
        _, defaults = create_relativistic_breit_wigner(p, vs)
        produced.append({"particle": p.name, "pid": p.pid, "latex": p.latex, "mass": p.mass, "width": p.width, "parameter_defaults": {str(k): v for k, v in defaults.items()}})
    values: dict[str, set] = {}
    for e in produced:
        for k, v in e["parameter_defaults"].items():
            values.setdefault(k, set()).add(v)
    clash = {k: sorted(v) for k, v in values.items() if len(v) > 1}
    return {"reproduced": bool(clash), "input": {"identifier": ident, "table": "qrules.load_pdg() + load_default_particles()"}, "observed": {"entries": produced, "one_symbol_several_defaults": clash},
            "expected": "equal identifier (latex or name) => equal (mass, width)"}


# ---- property-level search used as replay by the E3 obligations -----------------------------------------------------
SEARCH_ZOO = [("jpsi_pi0_pip_pim", "helicity"), ("jpsi_gamma_pi0_pi0", "canonical-helicity"), ("jpsi_k0_sigma_pbar_N", "canonical-helicity"), ("lambdac_p_k_pi", "helicity"),
              ("d1_k_k_k0", "canonical-helicity")]


def search_selector(_model=None):
    models.quiet()
    for name, formalism in SEARCH_ZOO:
        r = zoo.reaction(name, formalism)
        for ops in scenarios(r, "thorough"):
            try:
                bad = check_selector(r, ops)
            except Exception as e:  # noqa: BLE001
                bad = [{"raised": f"{type(e).__name__}: {e}"}]
            if bad:
                return {"reproduced": True, "input": {"reaction": name, "formalism": formalism, "assignments": ops_text(ops)}, "observed": bad[:3],
                        "expected": "choices' = builder if selected(d) else choices[d], for every decay d"}
    return {"reproduced": False, "note": "real DynamicsSelector agrees with the whole-map postcondition on the zoo histories"}


def search_model(_model=None):
    models.quiet()
    for name, formalism in SEARCH_ZOO:
        r = zoo.reaction(name, formalism)
        base = base_model(r)
        for ops in scenarios(r, "quick")[:8]:
            try:
                bad, _ = check_model(r, ops, base)
            except Exception as e:  # noqa: BLE001
                bad = [{"raised": f"{type(e).__name__}: {e}"}]
            if bad:
                return {"reproduced": True, "input": {"reaction": name, "formalism": formalism, "assignments": ops_text(ops), "builder": "opaque B(particle, s, m_a, m_b, L)"},
                        "observed": bad[:3], "expected": "affected chain component = unassigned component x B(invariant mass of the decaying state; daughters' masses; L of that node)"}
        try:
            bad = [b for b in check_conflicts(r) if "vacuous" not in b]
        except Exception as e:  # noqa: BLE001
            bad = [{"raised": f"{type(e).__name__}: {e}"}]
        if bad:
            return {"reproduced": True, "input": {"reaction": name, "formalism": formalism, "builder": "opaque builder with node-dependent defaults"}, "observed": bad[:3],
                    "expected": "last value wins; one warning per conflicting re-definition"}
    return {"reproduced": False, "note": "real formulate() agrees with the spec on the zoo histories"}
