"""Contracts (functional specifications) of ampform's array / kinematics expression classes.

Each `@spec(C)` function is the `ensures` clause of class C written as "result = f(arguments)"
over per-event values (A-batch: every array expression acts row-wise on its leading axis).
Whoever meets a node of class C uses this spec (modular); that C's real `evaluate()` /
`as_explicit()` / numpy code satisfies it is proved separately (C08, C07, C20 contract files).
"""

from __future__ import annotations

import sympy as sp
import z3

from ampform.kinematics import lorentz as L
from ampform.kinematics import phasespace as PS
from ampform.sympy import _array_expressions as AE
from ampform.sympy.math import ComplexSqrt
from vlib.tr import CONE, CZERO, ETA, ONE, ZERO, Ang, Cx, Tr, TrError, ident, matmul, matvec, spec


@spec(AE.ArraySymbol)
def _array_symbol(tr: Tr, e):
    """A four-momentum symbol denotes one real four-vector (E, px, py, pz) per event."""
    nm = e.name
    return [Cx(z3.Real(f"{nm}_{c}")) for c in ("E", "x", "y", "z")]


@spec(AE.ArraySum)
def _array_sum(tr: Tr, e):
    vals = [tr.val(a) for a in e.args]
    out = vals[0]
    for v in vals[1:]:
        out = [a + b for a, b in zip(out, v)]
    return out


def _slice_indices(idx, size):
    """(start, stop, step) Tuple of an ArraySlice axis -> list of positions."""
    start, stop, step = idx
    start = 0 if start in (None, AE.none) else int(start)
    stop = size if stop in (None, AE.none) else int(stop)
    step = 1 if step in (None, AE.none) else int(step)
    return list(range(start, stop, step))


@spec(AE.ArraySlice)
def _array_slice(tr: Tr, e):
    """p[:, k] and p[:, a:b] -- the leading (event) axis must be a full slice."""
    parent = tr.val(e.parent)
    idx = e.indices
    if len(idx) != 2:
        raise TrError(f"ArraySlice with {len(idx)} indices")
    first = idx[0]
    if not isinstance(first, sp.Tuple) or first[0] != 0 or first[1] not in (None, AE.none) or first[2] not in (None, AE.none, 1):
        raise TrError(f"ArraySlice whose event axis is not ':' : {e}")
    second = idx[1]
    if isinstance(second, sp.Tuple):
        return [parent[k] for k in _slice_indices(second, len(parent))]
    return parent[int(second)]


@spec(AE.ArrayAxisSum)
def _array_axis_sum(tr: Tr, e):
    if e.axis != 1:
        raise TrError("ArrayAxisSum over an axis other than 1")
    v = tr.val(e.array)
    out = CZERO
    for c in v:
        out = out + c
    return out


@spec(AE.ArrayMultiplication)
def _array_mul(tr: Tr, e):
    """M1 ... Mk v : chain of (4,4) matrices applied to a four-vector."""
    vals = [tr.val(a) for a in e.args]
    out = vals[-1]
    for m in reversed(vals[:-1]):
        out = matvec(m, out)
    return out


@spec(AE.MatrixMultiplication)
def _matrix_mul(tr: Tr, e):
    vals = [tr.val(a) for a in e.args]
    out = vals[0]
    for m in vals[1:]:
        out = matmul(out, m)
    return out


@spec(L.Energy)
def _energy(tr, e):
    return tr.val(e.args[0])[0]


@spec(L.FourMomentumX)
def _px(tr, e):
    return tr.val(e.args[0])[1]


@spec(L.FourMomentumY)
def _py(tr, e):
    return tr.val(e.args[0])[2]


@spec(L.FourMomentumZ)
def _pz(tr, e):
    return tr.val(e.args[0])[3]


@spec(L.ThreeMomentum)
def _three(tr, e):
    return tr.val(e.args[0])[1:]


@spec(L.EuclideanNormSquared)
def _norm2(tr, e):
    out = CZERO
    for c in tr.val(e.args[0]):
        out = out + c * c
    return out


@spec(L.EuclideanNorm)
def _norm(tr, e):
    """ensures: result >= 0 and result^2 = sum of squares (the non-negative root)."""
    n2 = _norm2(tr, e)
    r = tr.fresh("norm")
    tr.side += [r >= 0, r * r == n2.re]
    return Cx(r)


@spec(ComplexSqrt)
def _csqrt(tr, e):
    """ensures: x >= 0 -> result = +sqrt(x) real;  x < 0 -> result = i sqrt(-x)."""
    x = tr.scalar(e.args[0])
    if not x.is_real:
        raise TrError("ComplexSqrt of a complex-valued argument")
    return tr.sqrt_real(x.re, mode="principal")


@spec(L.InvariantMass)
def _inv_mass(tr, e):
    """ensures: result = ComplexSqrt(E^2 - |p|^2)."""
    p = tr.val(e.args[0])
    m2 = p[0] * p[0] - (p[1] * p[1] + p[2] * p[2] + p[3] * p[3])
    return tr.sqrt_real(m2.re, mode="principal")


@spec(L.NegativeMomentum)
def _neg_mom(tr, e):
    p = tr.val(e.args[0])
    return [p[0], -p[1], -p[2], -p[3]]


@spec(L.MinkowskiMetric)
def _metric(tr, e):
    return [list(r) for r in ETA]


def boost_spec(tr: Tr, p):
    """Pure boost taking the time-like four-vector p to rest, written with one root m = sqrt(p.p):
    B00 = E/m, B0i = -p_i/m, Bij = delta_ij + p_i p_j / (m (E + m))."""
    E, px, py, pz = (c.re for c in p)
    m = tr.fresh("mass")
    tr.need("boost: momentum is time-like with E > 0", z3.And(E > 0, E * E - px * px - py * py - pz * pz > 0))
    tr.side += [m >= 0, m * m == E * E - px * px - py * py - pz * pz]
    k = [px, py, pz]
    den = m * (E + m)
    rows = [[Cx(E / m)] + [Cx(-ki / m) for ki in k]]
    for i in range(3):
        row = [Cx(-k[i] / m)]
        for j in range(3):
            row.append(Cx((ONE if i == j else ZERO) + k[i] * k[j] / den))
        rows.append(row)
    return rows


@spec(L.BoostMatrix)
def _boost(tr, e):
    return boost_spec(tr, tr.val(e.args[0]))


def boostz_spec(tr: Tr, beta):
    b = beta.re
    g = tr.fresh("gamma")
    tr.need("z-boost: |beta| < 1", z3.And(b > -1, b < 1))
    tr.side += [g > 0, g * g * (1 - b * b) == 1]
    Z, O = CZERO, CONE
    return [
        [Cx(g), Z, Z, Cx(-g * b)],
        [Z, O, Z, Z],
        [Z, Z, O, Z],
        [Cx(-g * b), Z, Z, Cx(g)],
    ]


@spec(L.BoostZMatrix)
def _boostz(tr, e):
    return boostz_spec(tr, tr.scalar(e.args[0]))


def roty_spec(a: Ang):
    Z, O = CZERO, CONE
    c, s = Cx(a.c), Cx(a.s)
    return [[O, Z, Z, Z], [Z, c, Z, s], [Z, Z, O, Z], [Z, -s, Z, c]]


def rotz_spec(a: Ang):
    Z, O = CZERO, CONE
    c, s = Cx(a.c), Cx(a.s)
    return [[O, Z, Z, Z], [Z, c, -s, Z], [Z, s, c, Z], [Z, Z, Z, O]]


@spec(L.RotationYMatrix)
def _roty(tr, e):
    return roty_spec(tr.angle(e.args[0]))


@spec(L.RotationZMatrix)
def _rotz(tr, e):
    return rotz_spec(tr.angle(e.args[0]))


# ---- the printer-side implementation classes: their denotation is *defined* by the layout of the
# array literal their _numpycode emits; E2 (npvc) checks the emitted code against these.
@spec(L._BoostMatrixImplementation)
def _boost_impl(tr, e):
    _, b00, b01, b02, b03, b11, b12, b13, b22, b23, b33 = [tr.val(a) if i else None for i, a in enumerate(e.args)]
    return [
        [b00, b01, b02, b03],
        [b01, b11, b12, b13],
        [b02, b12, b22, b23],
        [b03, b13, b23, b33],
    ]


@spec(L._OnesArray)
def _ones(tr, e):
    return CONE


@spec(L._ZerosArray)
def _zeros(tr, e):
    return CZERO


@spec(L._BoostZMatrixImplementation)
def _boostz_impl(tr, e):
    _, g, gb, one, zero = [tr.val(a) if i else None for i, a in enumerate(e.args)]
    return [
        [g, zero, zero, -gb],
        [zero, one, zero, zero],
        [zero, zero, one, zero],
        [-gb, zero, zero, g],
    ]


@spec(L._RotationYMatrixImplementation)
def _roty_impl(tr, e):
    _, c, s, one, zero = [tr.val(a) if i else None for i, a in enumerate(e.args)]
    return [
        [one, zero, zero, zero],
        [zero, c, zero, s],
        [zero, zero, one, zero],
        [zero, -s, zero, c],
    ]


@spec(L._RotationZMatrixImplementation)
def _rotz_impl(tr, e):
    _, c, s, one, zero = [tr.val(a) if i else None for i, a in enumerate(e.args)]
    return [
        [one, zero, zero, zero],
        [zero, c, -s, zero],
        [zero, s, c, zero],
        [zero, zero, zero, one],
    ]


@spec(PS.Kallen)
def _kallen(tr, e):
    x, y, z = (tr.scalar(a) for a in e.args)
    two = Cx(2)
    return x * x + y * y + z * z - two * x * y - two * y * z - two * z * x


@spec(PS.Kibble)
def _kibble(tr, e):
    """ensures: lambda(lambda(s2,m2^2,m0^2), lambda(s3,m3^2,m0^2), lambda(s1,m1^2,m0^2))."""
    s1, s2, s3, m0, m1, m2, m3 = (tr.scalar(a) for a in e.args)

    def lam(x, y, z):
        two = Cx(2)
        return x * x + y * y + z * z - two * x * y - two * y * z - two * z * x

    return lam(lam(s2, m2 * m2, m0 * m0), lam(s3, m3 * m3, m0 * m0), lam(s1, m1 * m1, m0 * m0))
