"""C14 — unevaluated expressions obey substitution, equality and folding laws.

Functions under contract (ampform/sympy/_decorator.py): `_xreplace_method`, `_eval_subs_method`, the function bound to
`_get_arguments` (today `dataclasses.astuple`), `_hashable_content_method`, `_get_hashable_object`,
`_implement_new_method.new_method`, `_extract_field_values`, `_safe_sympify`, `_implement_doit.doit_method`,
`_set_assumptions`, `unevaluated` (assumption handling); every `evaluate()` / `_numpycode` of the introspected classes
on the instance level.

Contracts (postconditions taken from the property statement / DESIGN O1-O5):
 O1  C._xreplace(self, rule)      = (rule[self], True) if self in rule, else with v_k = XR(rule, field_k) for SymPy values and
                                    rule.get(field_k, field_k) for other attributes: (C(v_1..v_n), True) if rule is non-empty and
                                    some v_k was hit, else (self, False) -- for ALL field values, incl. nested unevaluated instances.
 O2  C._eval_subs(self, old, new) = C(SUBS(field_k) for SymPy values, other attributes unchanged) if some SUBS(field_k) differs from
                                    field_k, else self.
 O3  _hashable_content(self)      = (*args, *image(attribute) for non-SymPy fields); two instances of one class have equal content
                                    iff all field values are equal (image injective: assumption A-himg-inj, see NOTE).
 O4  new_method(C, *values)       builds the instance whose attributes are the (sympified) values and whose args are the SymPy ones;
                                    C(*x.args) == x for classes whose fields are all SymPy arguments.
 O5  commutative flag: observed behaviour reported in the evidence (no law in the property).
 Commutation with unfolding and folded-vs-unfolded numpy code: instance level on the real classes / E2.
"""

from __future__ import annotations

import dataclasses
import inspect
from typing import Any

import sympy as sp
import z3

from ampform.sympy import _decorator as D
from contracts import decorator_common as K
from contracts import specs_kin  # noqa: F401  (registers the E1/E2 denotation of ArraySymbol, ArraySlice, ... with vlib.tr)
from vlib import npvc
from vlib import pynatives as N
from vlib.core import Check
from vlib.pyvc import Closure, Exc, Obj, Rec, SV, State, Unsupported
from vlib.tr import Tr, TrError, flatten

LEVEL = "proof"
ENGINE = "E3 pyvc + E2 npvc + E5 harness"
CLAIM = (
    "For every class that installs the decorator's _xreplace/_eval_subs (introspected), the real source of these methods, of "
    "_hashable_content/_get_hashable_object and of the generated constructor is executed symbolically on an abstract instance whose "
    "field values are arbitrary objects (incl. nested unevaluated expressions): result = class rebuilt from the replaced field values "
    "with the correct hit flag; hashable content = args + image of every non-SymPy attribute, equal iff all fields equal; constructor "
    "establishes the class invariant and C(*x.args) == x. Commutation of xreplace/subs with evaluate(), rebuild, equality/hash and "
    "folded-vs-unfolded numpy code are checked on the real classes over an enumerated list of argument kinds (bounded, labelled)."
)
NOTE = (
    "Assumed contracts (each smoke-checked against the real dependency per run): dataclasses.astuple/fields, copy.deepcopy identity on "
    "SymPy objects, sympy Basic.__new__/_hashable_content/__eq__/__hash__/_xreplace/_subs, sp.sympify identity on Basic, _aresame = tree "
    "identity, hash() raises TypeError iff unhashable. A-himg-inj (NOT proved): the hashable image of non-SymPy attributes is injective "
    "on the values ampform uses; it is not injective in general: unhashable attributes fall back to str(obj), and None, the class "
    "NoneType and the string 'builtins.NoneType' share one image (observed: PhaseSpaceFactor(s,m1,m2,name=None) == "
    "PhaseSpaceFactor(s,m1,m2,name='builtins.NoneType')). Instance-level obligations are bounded=True and never counted as proved."
)
TECHNIQUE = (
    "contract-based deductive verification: E3 symbolic execution of the real AST of the decorator's methods on abstract instances "
    "(uninterpreted sort Obj; spec functions XR/SUBS/MK; assumed contracts on CPython/SymPy as natives), VCs discharged by z3; "
    "E2 denotation of generated numpy code; bounded instance-level execution of the real classes"
)

F_XR = K.DEC + "_xreplace_method"
F_SUBS = K.DEC + "_eval_subs_method"
F_HC = K.DEC + "_hashable_content_method"
F_HO = K.DEC + "_get_hashable_object"
F_NEW = K.DEC + "_implement_new_method.new_method"
F_EXTRACT = K.DEC + "_extract_field_values"
F_SYMPIFY = K.DEC + "_safe_sympify"
F_DOIT = K.DEC + "_implement_doit.doit_method"
F_ASSUME = K.DEC + "_set_assumptions"
F_UNEVAL = K.DEC + "unevaluated"


# =====================================================================================================
# property-level searches and replays on the REAL classes
# =====================================================================================================
def _apply(inst, op: str, rule: dict):
    if op == "xreplace":
        return inst.xreplace(rule)
    (old, new), = rule.items()
    return inst.subs(old, new)


def _spec(inst, op: str, rule: dict):
    if op == "xreplace":
        return K.spec_xreplace(inst, rule)
    (old, new), = rule.items()
    return K.spec_subs(inst, old, new)


def law_case(inst, op: str, rule: dict) -> dict[str, Any] | None:
    """O1/O2 on one real instance: None if the law holds, else a replay record."""
    try:
        want = _spec(inst, op, rule)
    except Exception:  # noqa: BLE001
        return None  # the reference construction itself is impossible for this input: not a counterexample
    try:
        got = _apply(inst, op, rule)
    except Exception as e:  # noqa: BLE001
        got = f"{type(e).__name__}: {e}"
    if isinstance(got, str) or not K.same_tree(got, want):
        return {"reproduced": True, "input": f"{inst}.{op}({rule})", "input_srepr": K.short(inst), "expected": K.short(want),
                "observed": got if isinstance(got, str) else K.short(got)}
    return None


def commute_case(inst, op: str, rule: dict) -> dict[str, Any] | None:
    """C(a).op(m).evaluate() == C(a).evaluate().op(m) as tree equality; None if it holds or is not applicable."""
    if not hasattr(inst, "evaluate"):
        return None
    try:
        unfolded = inst.evaluate()
        rhs = _apply(unfolded, op, rule) if isinstance(unfolded, sp.Basic) else unfolded
    except Exception:  # noqa: BLE001
        return None  # evaluate() is not defined for this argument shape
    try:
        replaced = _apply(inst, op, rule)
        if type(replaced) is not type(inst):
            return None  # the whole instance was a key of the map
        lhs = replaced.evaluate()
    except Exception as e:  # noqa: BLE001
        return {"reproduced": True, "input": f"{inst}.{op}({rule}).evaluate()", "expected": K.short(rhs), "observed": f"{type(e).__name__}: {e}"[:300]}
    if K.same_tree(lhs, rhs) or K.same_tree(K.renorm(lhs), K.renorm(rhs)):
        return None
    # the law itself tells which side is off: the side that differs from the independently substituted tree
    return {"reproduced": True, "input": f"{inst}.{op}({rule}).evaluate()  vs  {inst}.evaluate().{op}({rule})", "input_srepr": K.short(inst),
            "expected": "equal trees", "observed": "different trees", f"{op}_then_evaluate": K.short(lhs), f"evaluate_then_{op}": K.short(rhs)}


def cases(c: type, tier: str, groups=("plain", "nested", "nested_attr")):
    """(group, label, instance, rule) over the enumerated argument kinds of every SymPy field of c."""
    for k, f in enumerate(K.sympy_fields(c)):
        for kind, value in K.argument_kinds(c, k, tier):
            group = "nested_attr" if kind.startswith("nested_attr") else "nested" if kind.startswith("nested") else "plain"
            if group not in groups:
                continue
            try:
                inst = K.instance_with(c, k, value)
            except Exception:  # noqa: BLE001
                continue
            for rl, rule in K.rules_for(inst, value):
                yield group, f"{f.name}={kind}/{rl}", inst, rule
            if group == "plain" and kind == "symbol" and K.nonsympy_fields(c):
                try:
                    inst2 = K.instance_with(c, k, value, K.nondefault_attrs(c))
                except Exception:  # noqa: BLE001
                    continue
                for rl, rule in K.rules_for(inst2, value):
                    yield group, f"{f.name}={kind}+attrs/{rl}", inst2, rule


def search_law(c: type, op: str, tier: str = "quick"):
    """Property-level search: first enumerated input on which O1/O2 fails on the real class."""
    n = 0
    for _, label, inst, rule in cases(c, tier):
        n += 1
        r = law_case(inst, op, rule)
        if r:
            r["case"] = label
            return r
    return {"reproduced": False, "note": f"real {c.__name__}.{op} agrees with the law on {n} enumerated inputs"}


def replay_law(c: type, op: str):
    def rep(model):
        try:
            inst, keys, others = K.concretise(c, model)
            for key in [*keys, *others[:1]]:
                r = law_case(inst, op, {key: K.fresh_like(key)})
                if r:
                    r["concretised_from"] = {k: v for k, v in model.items() if k.endswith(".is_dataclass_instance")}
                    return r
        except Exception:  # noqa: BLE001
            pass
        return search_law(c, op)

    return rep


# =====================================================================================================
# E3 obligations
# =====================================================================================================
def _field_spec_xr(ex, rule_t, t):
    """(value, hit) demanded for one field value t under xreplace with `rule`."""
    mapin = ex.func("mapin", "obj", "obj", "bool")
    getitem = ex.func("getitem", "obj", "obj", "obj")
    is_map = ex.pred("isinstance_Mapping", rule_t)
    basic = ex.pred("is_basic", t)
    val = z3.If(basic, ex.fn("XRV", rule_t, t), z3.If(z3.And(is_map, mapin(rule_t, t)), getitem(rule_t, t), t))
    hit = z3.If(basic, ex.func("XRH", "obj", "obj", "bool")(rule_t, t), z3.And(is_map, mapin(rule_t, t)))
    return val, hit


def e3_xreplace(chk: Check, c: type) -> None:
    nm = c.__name__
    pre = f"O1.xreplace[{nm}]"
    search = lambda m: search_law(c, "xreplace")  # noqa: E731
    ex = K.new_executor(f"xr.{nm}")
    x, fv, inv = K.abstract_instance(ex, c)
    rule = SV(z3.Const("rule", Obj), "obj")
    try:
        outs = K.run_paths(ex, c.__dict__["_xreplace"], [x, rule], hyps=inv + K.flag_defs(ex, c, fv))
    except K.E3_ERRORS as e:
        K.left_subset(chk, pre, F_XR, e, search, [f"{pre}.returns_pair_on_every_path", f"{pre}.never_raises", f"{pre}.value", f"{pre}.hit_flag",
                                                  f"{pre}.cover_rebuild_path", f"selftest.{pre}.first_field_never_replaced"])
        return
    chk.struct(f"{pre}.in_supported_subset", True, F_XR, lemma=True)
    K.note_assumptions(chk, ex)
    me, rt = ex.as_obj(x), rule.t
    mapin = ex.func("mapin", "obj", "obj", "bool")
    getitem = ex.func("getitem", "obj", "obj", "obj")
    truthy = ex.func("truthy", "obj", "bool")(rt)
    specs = [_field_spec_xr(ex, rt, fv[f.name].t) for f in K.fields(c)]
    anyhit = z3.Or(*[h for _, h in specs])
    rebuilt = ex.mk(c, [SV(v, "obj") for v, _ in specs])
    want_val = z3.If(mapin(rt, me), getitem(rt, me), z3.If(z3.And(truthy, anyhit), rebuilt, me))
    want_hit = z3.Or(mapin(rt, me), z3.And(truthy, anyhit))
    val_ok, hit_ok, no_exc, shape = [], [], [], True
    hit_path = None
    for oc in outs:
        pc = K.conj(oc.st.pc)
        if oc.kind == "raise":
            no_exc.append(z3.Not(pc))
            continue
        if not (isinstance(oc.value, tuple) and len(oc.value) == 2):
            shape = False
            continue
        v, h = oc.value
        val_ok.append(z3.Implies(pc, ex.as_obj(v) == want_val))
        hit_ok.append(z3.Implies(pc, ex.as_bool(h) == want_hit))
        if isinstance(v, SV) and "MK_" in str(v.t)[:40]:
            hit_path = oc
    rep = replay_law(c, "xreplace")
    chk.struct(f"{pre}.returns_pair_on_every_path", shape, F_XR, replay=search)
    chk.smt(f"{pre}.never_raises", [], K.conj(no_exc), function=F_XR, replay=rep, tactics=("default",))
    chk.smt(f"{pre}.value", [], K.conj(val_ok), function=F_XR, replay=rep, tactics=("default",))
    chk.smt(f"{pre}.hit_flag", [], K.conj(hit_ok), function=F_XR, replay=rep, tactics=("default",))
    for o in ex.obligations:
        chk.smt(f"{pre}.{o.name}", o.hyps, o.claim, function=F_XR, lemma=True, replay=search, tactics=("default",))
    if hit_path is not None:
        chk.cover(f"{pre}.cover_rebuild_path", list(hit_path.st.pc), F_XR)
        # engine self-test: "the first field is never replaced" must be refuted on the rebuild path
        f0 = K.fields(c)[0]
        frozen = ex.mk(c, [fv[f0.name]] + [SV(v, "obj") for v, _ in specs[1:]])
        chk.mustfail(f"selftest.{pre}.first_field_never_replaced", list(hit_path.st.pc), ex.as_obj(hit_path.value[0]) == frozen, function=F_XR)
    else:
        chk.struct(f"{pre}.has_rebuild_path", False, F_XR, witness="no path returns self.func(*new_args)", lemma=True, replay=search)
    chk.extra.setdefault("e3_paths", {})[f"_xreplace[{nm}]"] = {"paths": len(outs), "merged_iteration_paths": ex.merged}


def e3_subs(chk: Check, c: type) -> None:
    nm = c.__name__
    pre = f"O2.subs[{nm}]"
    search = lambda m: search_law(c, "subs")  # noqa: E731
    ex = K.new_executor(f"subs.{nm}")
    x, fv, inv = K.abstract_instance(ex, c)
    old, new = SV(z3.Const("old", Obj), "obj"), SV(z3.Const("new", Obj), "obj")
    outs = []
    try:
        for hints in ({}, {"hack2": True}):
            outs += K.run_paths(ex, c.__dict__["_eval_subs"], [x, old, new], hints, hyps=inv + K.flag_defs(ex, c, fv))
    except K.E3_ERRORS as e:
        K.left_subset(chk, pre, F_SUBS, e, search, [f"{pre}.never_raises", f"{pre}.value", f"{pre}.cover_rebuild_path", f"selftest.{pre}.always_returns_self"])
        return
    chk.struct(f"{pre}.in_supported_subset", True, F_SUBS, lemma=True)
    K.note_assumptions(chk, ex)
    me = ex.as_obj(x)
    vals, hits = [], []
    for f in K.fields(c):
        t = fv[f.name].t
        s = z3.If(ex.pred("is_basic", t), ex.fn("SUBS", t, old.t, new.t), t)
        vals.append(s)
        hits.append(s != t)
    want = z3.If(z3.Or(*hits), ex.mk(c, [SV(v, "obj") for v in vals]), me)
    ok, no_exc = [], []
    hit_path = None
    for oc in outs:
        pc = K.conj(oc.st.pc)
        if oc.kind == "raise":
            no_exc.append(z3.Not(pc))
            continue
        ok.append(z3.Implies(pc, ex.as_obj(oc.value) == want))
        if isinstance(oc.value, SV):
            hit_path = oc
    rep = replay_law(c, "subs")
    chk.smt(f"{pre}.never_raises", [], K.conj(no_exc), function=F_SUBS, replay=rep, tactics=("default",))
    chk.smt(f"{pre}.value", [], K.conj(ok), function=F_SUBS, replay=rep, tactics=("default",))
    for o in ex.obligations:
        chk.smt(f"{pre}.{o.name}", o.hyps, o.claim, function=F_SUBS, lemma=True, replay=search, tactics=("default",))
    if hit_path is not None:
        chk.cover(f"{pre}.cover_rebuild_path", list(hit_path.st.pc), F_SUBS)
        chk.mustfail(f"selftest.{pre}.always_returns_self", list(hit_path.st.pc), ex.as_obj(hit_path.value) == me, function=F_SUBS)
    else:
        chk.struct(f"{pre}.has_rebuild_path", False, F_SUBS, witness="no path returns self.func(*new_args)", lemma=True, replay=search)
    chk.extra.setdefault("e3_paths", {})[f"_eval_subs[{nm}]"] = {"paths": len(outs), "merged_iteration_paths": ex.merged}


# ---- O3 --------------------------------------------------------------------------------------------------------
def himg(ex, t):
    """Hashable image of an attribute value (DESIGN O3): None and classes by qualified name, hashable objects as
    themselves, unhashable objects by str()."""
    none = ex.as_obj(None)
    qn = ex.func("fstr<{}.{}>", "obj", "obj", "obj")(ex.func("attr___module__", "obj", "obj")(t), ex.func("attr___qualname__", "obj", "obj")(t))
    return z3.If(t == none, ex.as_obj("builtins.NoneType"),
                 z3.If(ex.pred("is_class", t), qn, z3.If(ex.pred("is_hashable", t), t, ex.fn("STR", t))))


def eq_instances_search(c: type):
    """Property-level search on the real class: equal <=> all fields equal; equal => same hash."""
    try:
        a = K.plain_instance(c)
        b = K.plain_instance(c)
    except Exception as e:  # noqa: BLE001
        return {"reproduced": False, "note": f"not constructible: {e}"}
    if not (a == b and hash(a) == hash(b)):
        return {"reproduced": True, "input": f"{a} built twice", "expected": "equal, same hash", "observed": f"== {a == b}; hash equal {hash(a) == hash(b)}"}
    for k, f in enumerate(K.sympy_fields(c)):
        other = K.instance_with(c, k, K.fresh_like(K.base_symbol(f), "zdiff"))
        if a == other or a._hashable_content() == other._hashable_content():  # noqa: SLF001
            return {"reproduced": True, "input": f"{a} vs {other}", "expected": "unequal (field " + f.name + " differs)", "observed": "equal"}
    for f in K.nonsympy_fields(c):
        alt = K.nondefault_attrs(c)[f.name]
        for v1, v2 in ((getattr(a, f.name), alt), (alt, f"{alt}_2" if isinstance(alt, str) else getattr(a, f.name))):
            if v1 is v2 or v1 == v2:
                continue
            p, q = K.plain_instance(c, **{f.name: v1}), K.plain_instance(c, **{f.name: v2})
            if p == q or hash(p) == hash(q) and p._hashable_content() == q._hashable_content():  # noqa: SLF001
                return {"reproduced": True, "input": f"{nmx(c)}(..., {f.name}={v1!r}) vs {nmx(c)}(..., {f.name}={v2!r})",
                        "expected": "unequal (non-SymPy attribute differs)", "observed": f"== is {p == q}; _hashable_content {p._hashable_content()} vs {q._hashable_content()}"}  # noqa: SLF001
            p2 = K.plain_instance(c, **{f.name: v1})
            if not (p == p2 and hash(p) == hash(p2)):
                return {"reproduced": True, "input": f"{p} built twice", "expected": "equal, same hash", "observed": "unequal"}
    return {"reproduced": False, "note": f"real {c.__name__}: equality and hash agree with field-wise equality on the enumerated pairs"}


def nmx(c):
    return c.__name__


def e3_hashable(chk: Check, c: type) -> None:
    nm = c.__name__
    pre = f"O3.hashable_content[{nm}]"
    search = lambda m: eq_instances_search(c)  # noqa: E731
    ex = K.new_executor(f"hc.{nm}")
    func = c.__dict__.get("_hashable_content")
    if func is None:
        chk.struct(f"{pre}.installed", False, F_HC, witness="class does not define _hashable_content", replay=search)
        return
    x, fx, invx = K.abstract_instance(ex, c, "x")
    y, fy, invy = K.abstract_instance(ex, c, "y")
    try:
        ox = K.run_paths(ex, func, [x], hyps=invx)
        oy = K.run_paths(ex, func, [y], hyps=invy)
    except K.E3_ERRORS as e:
        K.left_subset(chk, pre, F_HC, e, search, [f"{pre}.one_entry_per_field", f"{pre}.never_raises", f"{pre}.equals_args_plus_attribute_images",
                                                  f"O3.equal_iff_fields_equal[{nm}].if", f"O3.equal_iff_fields_equal[{nm}].only_if"])
        return
    chk.struct(f"{pre}.in_supported_subset", True, F_HC, lemma=True)
    K.note_assumptions(chk, ex)
    spec_x = [fx[f.name].t for f in K.sympy_fields(c)] + [himg(ex, fx[f.name].t) for f in K.nonsympy_fields(c)]
    meets, no_exc, shape = [], [], True
    for oc in ox:
        pc = K.conj(oc.st.pc)
        if oc.kind == "raise":
            no_exc.append(z3.Not(pc))
            continue
        if not isinstance(oc.value, tuple) or len(oc.value) != len(spec_x):
            shape = False
            continue
        meets.append(z3.Implies(pc, K.conj(ex.as_obj(v) == s for v, s in zip(oc.value, spec_x))))
    chk.struct(f"{pre}.one_entry_per_field", shape, F_HC, witness=f"expected {len(spec_x)} entries", replay=search)
    chk.smt(f"{pre}.never_raises", [], K.conj(no_exc), function=F_HC, replay=search, tactics=("default",))
    chk.smt(f"{pre}.equals_args_plus_attribute_images", [], K.conj(meets), function=F_HC, replay=search, tactics=("default",))
    # equality law between two instances of the class (Basic.__eq__ compares type and _hashable_content: assumed contract)
    fields_eq = K.conj(fx[f.name].t == fy[f.name].t for f in K.fields(c))
    inj = K.conj(z3.Implies(himg(ex, fx[f.name].t) == himg(ex, fy[f.name].t), fx[f.name].t == fy[f.name].t) for f in K.nonsympy_fields(c))
    if_, only_if = [], []
    for a in ox:
        for b in oy:
            if a.kind != "return" or b.kind != "return" or not isinstance(a.value, tuple) or not isinstance(b.value, tuple):
                continue
            pc = z3.And(K.conj(a.st.pc), K.conj(b.st.pc))
            same = K.conj(ex.as_obj(u) == ex.as_obj(v) for u, v in zip(a.value, b.value)) if len(a.value) == len(b.value) else z3.BoolVal(False)
            if_.append(z3.Implies(z3.And(pc, fields_eq), same))
            only_if.append(z3.Implies(z3.And(pc, same, inj), fields_eq))
    pre2 = f"O3.equal_iff_fields_equal[{nm}]"
    chk.smt(f"{pre2}.if", [], K.conj(if_), function=F_HC, replay=search, tactics=("default",))
    chk.smt(f"{pre2}.only_if", [], K.conj(only_if), function=F_HC, replay=search, tactics=("default",))
    chk.extra.setdefault("e3_paths", {})[f"_hashable_content[{nm}]"] = {"paths": len(ox)}


# ---- O4: the generated constructor ------------------------------------------------------------------------------------
def rebuild_search(c: type, tier: str = "quick"):
    n = 0
    for k in range(len(K.sympy_fields(c))):
        for kind, value in K.argument_kinds(c, k, tier):
            try:
                x = K.instance_with(c, k, value)
            except Exception:  # noqa: BLE001
                continue
            n += 1
            try:
                y = c(*x.args) if not K.nonsympy_fields(c) else c(*[getattr(x, f.name) for f in K.fields(c)])
                bad = not K.same_tree(x, y) or any(not K._same(getattr(x, f.name), getattr(y, f.name)) for f in K.fields(c))  # noqa: SLF001
                obs = K.short(y)
            except Exception as e:  # noqa: BLE001
                bad, obs = True, f"{type(e).__name__}: {e}"
            if bad:
                return {"reproduced": True, "input": f"{c.__name__}(*x.args) for x = {x}", "case": kind, "expected": K.short(x), "observed": obs}
    return {"reproduced": False, "note": f"real {c.__name__} is reproduced from its own arguments on {n} enumerated instances"}


def keyword_construction_search(c: type):
    """C(**kwargs) with the keywords in ANY order, and C(first, **rest) -- is the instance C(*positional): same args (in field order),
    same attributes, same evaluate(). (evaluate() of several classes unpacks self.args positionally.)"""
    import random

    fs = list(K.sympy_fields(c))
    if len(fs) < 2:
        return {"reproduced": False, "note": "fewer than two SymPy fields"}
    try:
        ref = K.plain_instance(c)
    except Exception as e:  # noqa: BLE001
        return {"reproduced": False, "note": f"not constructible: {e}"}
    vals = {f.name: getattr(ref, f.name) for f in fs}
    extra = {f.name: getattr(ref, f.name) for f in K.nonsympy_fields(c) if f.default is dataclasses.MISSING and f.default_factory is dataclasses.MISSING}
    rng = random.Random(14)
    orders = [list(reversed(fs)), fs[1:] + fs[:1]] + [rng.sample(fs, len(fs)) for _ in range(2)]
    for order in orders:
        for n_pos in (0, 1):
            pos = [vals[f.name] for f in fs[:n_pos]]
            kw = {f.name: vals[f.name] for f in order if f.name not in {g.name for g in fs[:n_pos]}}
            label = f"{c.__name__}({', '.join(map(str, pos))}{', ' if pos else ''}{', '.join(k + '=' + str(v) for k, v in kw.items())})"
            try:
                got = c(*pos, **kw, **extra)
            except Exception as e:  # noqa: BLE001
                return {"reproduced": True, "input": label, "expected": K.short(ref), "observed": f"{type(e).__name__}: {e}"[:300]}
            bad = got.args != ref.args or any(not K._same(getattr(got, f.name), getattr(ref, f.name)) for f in K.fields(c))  # noqa: SLF001
            if not bad and hasattr(c, "evaluate"):
                try:
                    bad = not K.same_tree(got.evaluate(), ref.evaluate())
                except Exception:  # noqa: BLE001
                    bad = False
            if bad:
                return {"reproduced": True, "input": label, "expected": f"args {ref.args}", "observed": f"args {got.args}; evaluate() {K.short(got.evaluate()) if hasattr(c, 'evaluate') else '-'}"}
    return {"reproduced": False, "note": f"real {c.__name__}: keyword construction in {len(orders) * 2} orders equals positional construction"}


def evaluate_flag_search(c: type):
    """C(*args, evaluate=True) == C(*args).evaluate() on the real class."""
    if not hasattr(c, "evaluate"):
        return {"reproduced": False, "note": "class has no evaluate()"}
    for make in (K.plain_instance, K.attr_instance):
        try:
            x = make(c)
            args = [getattr(x, f.name) for f in K.fields(c)]
            a, b = c(*args, evaluate=True), x.evaluate()
        except Exception as e:  # noqa: BLE001
            return {"reproduced": False, "note": f"not evaluable: {type(e).__name__}: {e}"[:200]}
        if not (K.same_tree(a, b) or K.same_tree(K.renorm(a), K.renorm(b))):
            return {"reproduced": True, "input": f"{c.__name__}(*args, evaluate=True) for the field values of {x} ({dict(K.nondefault_attrs(c)) if make is K.attr_instance else 'default attributes'})",
                    "expected": K.short(b), "observed": K.short(a)}
    return {"reproduced": False, "note": "evaluate=True agrees with evaluate()"}


def run_constructor(ex, c, values: list, kwargs: dict | None = None, hyps=()):
    return K.run_paths(ex, K.real_new_method(c), [c, *values], kwargs or {}, hyps=hyps)


def e3_constructor(chk: Check, c: type) -> None:
    nm = c.__name__
    pre = f"O4.new_method[{nm}]"
    search = lambda m: rebuild_search(c)  # noqa: E731
    all_sympy = not K.nonsympy_fields(c)
    try:
        ex = K.new_executor(f"new.{nm}")
        vs = {f.name: SV(z3.Const(f"v.{f.name}", Obj), "obj") for f in K.fields(c)}
        variants = [("all_positional", [vs[f.name] for f in K.fields(c)], {})]
        req = [f for f in K.fields(c) if f.default is dataclasses.MISSING and f.default_factory is dataclasses.MISSING]
        if len(req) < len(K.fields(c)):
            variants.append(("defaults_filled", [vs[f.name] for f in req], {}))
            opt = [f for f in K.fields(c) if f not in req]
            variants.append(("keywords", [vs[f.name] for f in req], {f.name: vs[f.name] for f in opt}))
        results = [(label, vals, kw, run_constructor(ex, c, vals, dict(kw))) for label, vals, kw in variants]
        # rebuild from an abstract instance's own args / own field values
        ex2 = K.new_executor(f"rebuild.{nm}")
        x, fx, inv = K.abstract_instance(ex2, c)
        own = list(x.attrs["_args"]) if all_sympy else [fx[f.name] for f in K.fields(c)]
        rebuilt = run_constructor(ex2, c, own, hyps=inv)
        ex3 = K.new_executor(f"new_eval.{nm}")
        evaluated = run_constructor(ex3, c, [vs[f.name] for f in K.fields(c)], {"evaluate": True}) if hasattr(c, "evaluate") else None
    except K.E3_ERRORS as e:
        labels = ["all_positional"] + (["defaults_filled", "keywords"] if any(f.default is not dataclasses.MISSING or f.default_factory is not dataclasses.MISSING for f in K.fields(c)) else [])
        K.left_subset(chk, pre, F_NEW, e, search, [f"{pre}[{lb}].{n}" for lb in labels for n in ("returns_instance_with_all_fields", "attributes_are_sympified_values",
                      "args_are_sympy_fields_in_order", "raises_only_unsympifiable")] + [f"O4.rebuild[{nm}].never_raises", f"O4.rebuild[{nm}].same_fields_and_args"]
                      + ([f"{pre}[evaluate=True].returns_evaluate_of_the_new_instance"] if hasattr(c, "evaluate") else []))
        return
    chk.struct(f"{pre}.in_supported_subset", True, F_NEW, lemma=True)
    K.note_assumptions(chk, ex)
    K.note_assumptions(chk, ex2)
    for label, vals, kw, outs in results:
        given = {f.name: v for f, v in zip(K.fields(c), vals)}
        given.update(kw)
        attr_ok, args_ok, raise_ok, shape = [], [], [], True
        for oc in outs:
            pc = K.conj(oc.st.pc)
            if oc.kind == "raise":
                # only when some SymPy-field value cannot be sympified, and then as the TypeError the decorator documents
                cause = z3.Or(*[z3.Not(ex.pred("sympifiable", given[f.name].t)) for f in K.sympy_fields(c) if isinstance(given.get(f.name), SV)] or [z3.BoolVal(False)])
                raise_ok.append(z3.Implies(pc, cause) if oc.value.type_name == "TypeError" else z3.Not(pc))
                continue
            r = oc.value
            if not isinstance(r, Rec) or r.real_class is not c:
                shape = False
                continue
            want = {}
            for f in K.fields(c):
                v = given[f.name] if f.name in given else f.default
                if K.is_sympy_field(f):
                    want[f.name] = ex.fn("SYMPIFY", ex.as_obj(v)) if isinstance(v, SV) else ex.as_obj(sp.sympify(v))
                else:
                    want[f.name] = ex.as_obj(v)
            if any(f.name not in r.attrs for f in K.fields(c)) or len(r.attrs["_args"]) != len(K.sympy_fields(c)):
                shape = False
                continue
            attr_ok.append(z3.Implies(pc, K.conj(ex.as_obj(r.attrs[f.name]) == want[f.name] for f in K.fields(c))))
            args_ok.append(z3.Implies(pc, K.conj(ex.as_obj(a) == want[f.name] for a, f in zip(r.attrs["_args"], K.sympy_fields(c)))))
        chk.struct(f"{pre}[{label}].returns_instance_with_all_fields", shape and bool(attr_ok), F_NEW, replay=search, lemma=True)
        chk.smt(f"{pre}[{label}].attributes_are_sympified_values", [], K.conj(attr_ok), function=F_NEW, replay=search, lemma=True, tactics=("default",))
        chk.smt(f"{pre}[{label}].args_are_sympy_fields_in_order", [], K.conj(args_ok), function=F_NEW, replay=search, lemma=True, tactics=("default",))
        chk.smt(f"{pre}[{label}].raises_only_unsympifiable", [], K.conj(raise_ok), function=F_EXTRACT, replay=search, lemma=True, tactics=("default",))
    if evaluated is not None:
        # evaluate=True: the constructor returns evaluate() of exactly the instance it would have returned otherwise
        ok = all(o.kind == "raise" or (isinstance(o.value, SV) and str(o.value.t).startswith(f"EVALUATE(new!{nm}!")) for o in evaluated) \
            and any(o.kind == "return" for o in evaluated)
        chk.struct(f"{pre}[evaluate=True].returns_evaluate_of_the_new_instance", ok, F_NEW, witness=[str(o.value)[:80] for o in evaluated if o.kind == "return"][:2],
                   lemma=True, replay=lambda m: evaluate_flag_search(c))
    # O4 proper
    same, no_exc = [], []
    for oc in rebuilt:
        pc = K.conj(oc.st.pc)
        if oc.kind == "raise":
            no_exc.append(z3.Not(pc))
            continue
        r = oc.value
        if not isinstance(r, Rec):
            same.append(z3.Not(pc))
            continue
        same.append(z3.Implies(pc, z3.And(
            K.conj(ex2.as_obj(r.attrs[f.name]) == fx[f.name].t for f in K.fields(c) if f.name in r.attrs),
            K.conj(ex2.as_obj(a) == ex2.as_obj(b) for a, b in zip(r.attrs["_args"], x.attrs["_args"])),
            z3.BoolVal(all(f.name in r.attrs for f in K.fields(c)) and len(r.attrs["_args"]) == len(x.attrs["_args"])))))
    what = "C(*x.args)" if all_sympy else "C(*field values of x)"
    rb = f"O4.rebuild[{nm}]"
    chk.smt(f"{rb}.never_raises", [], K.conj(no_exc), function=F_NEW, replay=search, tactics=("default",), note=what)
    chk.smt(f"{rb}.same_fields_and_args", [], K.conj(same), function=F_NEW, replay=search, tactics=("default",), note=what)
    for o in ex.obligations + ex2.obligations:
        chk.smt(f"{pre}.{o.name}", o.hyps, o.claim, function=F_NEW, lemma=True, replay=search, tactics=("default",))


# ---- doit_method, _set_assumptions, O5 -----------------------------------------------------------------------------------
def e3_doit_and_assumptions(chk: Check, decorated: list[type]) -> None:
    with_doit = [c for c in decorated if "doit" in c.__dict__ and getattr(c.__dict__["doit"], "__code__", None) is not None
                 and c.__dict__["doit"].__code__.co_filename == D.__file__]
    bodies = {}
    for c in with_doit:
        bodies.setdefault(c.__dict__["doit"].__code__, c)
    chk.struct("doit_method.single_body", len(bodies) == 1, F_DOIT, witness=f"{len(bodies)} distinct code objects", lemma=True,
               replay=lambda m: doit_search(with_doit))
    for code, c in bodies.items():
        ex = K.new_executor("doit")
        x, _, inv = K.abstract_instance(ex, c)
        try:
            deep = K.run_paths(ex, c.__dict__["doit"], [x], hyps=inv)
            shallow = K.run_paths(ex, c.__dict__["doit"], [x], {"deep": False}, hyps=inv)
        except K.E3_ERRORS as e:
            chk.struct("doit_method.in_supported_subset", False, F_DOIT, witness=f"{type(e).__name__}: {e}"[:300], lemma=True, replay=lambda m: doit_search(with_doit))
            continue
        chk.struct("doit_method.in_supported_subset", True, F_DOIT, lemma=True)
        ev = ex.fn("EVALUATE", ex.as_obj(x))
        ok_deep = K.conj(z3.Implies(K.conj(o.st.pc), ex.as_obj(o.value) == ex.fn("DOIT", ev)) if o.kind == "return" else z3.Not(K.conj(o.st.pc)) for o in deep)
        ok_sh = K.conj(z3.Implies(K.conj(o.st.pc), ex.as_obj(o.value) == ev) if o.kind == "return" else z3.Not(K.conj(o.st.pc)) for o in shallow)
        chk.smt("doit_method.deep==evaluate().doit()", [], ok_deep, function=F_DOIT, replay=lambda m: doit_search(with_doit), tactics=("default",))
        chk.smt("doit_method.shallow==evaluate()", [], ok_sh, function=F_DOIT, replay=lambda m: doit_search(with_doit), tactics=("default",))
    chk.struct("doit_method.installed_on_every_class_with_evaluate",
               all(c in with_doit or "doit" in c.__dict__ for c in decorated if "evaluate" in c.__dict__ and _implements_doit(c)), F_DOIT,
               replay=lambda m: doit_search(with_doit), bounded=True)
    # _set_assumptions: every requested assumption becomes the class attribute is_<name>
    ex = K.new_executor("assume")
    try:
        (oc,) = ex.run(D._set_assumptions, [], {"commutative": True, "real": False})  # noqa: SLF001
        target = Rec("Cls", {})
        outs = list(ex.apply(oc.value, [target], {}, State()))
        ok = len(outs) == 1 and outs[0][1] is target and target.attrs == {"is_commutative": True, "is_real": False}
        chk.struct("_set_assumptions.sets_is_<name>_for_every_assumption", ok, F_ASSUME, witness=str(target.attrs), lemma=True,
                   replay=lambda m: {"reproduced": False})
    except K.E3_ERRORS as e:
        chk.struct("_set_assumptions.in_supported_subset", False, F_ASSUME, witness=f"{type(e).__name__}: {e}"[:300], lemma=True, replay=lambda m: {"reproduced": False})
    # O5: what `unevaluated(commutative=False)` does with the flag (reported, not a law)
    o5: dict[str, Any] = {}
    try:
        ex = K.new_executor("o5")
        for flag in (False, True, None):
            kw = {} if flag is None else {"commutative": flag}
            (oc,) = ex.run(D.unevaluated, [], kw)
            clo = oc.value
            o5[f"unevaluated(commutative={flag})"] = dict(clo.env.get("assumptions", {})) if isinstance(clo, Closure) else "not a closure"
    except Exception as e:  # noqa: BLE001
        o5["e3"] = f"{type(e).__name__}: {e}"
    declared = {}
    for c in decorated:
        try:
            src = inspect.getsource(c)
        except Exception:  # noqa: BLE001
            continue
        head = src.split("class ", 1)[0]
        if "commutative=False" in head:
            declared[c.__name__] = {"declared": "commutative=False", "observed_is_commutative": bool(c.is_commutative)}
    o5["classes_declared_noncommutative"] = declared
    o5["reading"] = ("`if not assumptions.get('commutative')` turns an explicit commutative=False into True; the property states no law "
                     "about this flag, so it is reported here and is not a violation")
    chk.extra["O5_commutative_flag"] = o5


def _implements_doit(c) -> bool:
    return "doit" in c.__dict__


def doit_search(classes):
    for c in classes:
        try:
            x = K.plain_instance(c)
            a, b = x.doit(deep=False), x.evaluate()
            if not K.same_tree(a, b):
                return {"reproduced": True, "input": f"{x}.doit(deep=False)", "expected": K.short(b), "observed": K.short(a)}
            a, b = x.doit(), x.evaluate().doit()
            if not K.same_tree(a, b):
                return {"reproduced": True, "input": f"{x}.doit()", "expected": K.short(b), "observed": K.short(a)}
        except Exception:  # noqa: BLE001
            continue
    return {"reproduced": False, "note": "doit()/doit(deep=False) agree with evaluate() on one instance of every class"}


# =====================================================================================================
# instance level (E5, bounded): the real classes over the enumerated argument kinds
# =====================================================================================================
GROUPS = ("plain", "nested", "nested_attr")


def instance_level(chk: Check, decorated: list[type], tier: str) -> None:
    counts: dict[str, int] = {}
    for c in decorated:
        nm = c.__name__
        fn = f"{K.qual(c)}.evaluate" if hasattr(c, "evaluate") else f"{K.qual(c)} (no evaluate(): substitution laws only)"
        per = {(op, g): [] for op in ("xreplace", "subs") for g in GROUPS}
        per_law = {(op, g): [] for op in ("xreplace", "subs") for g in GROUPS}
        n = {g: 0 for g in GROUPS}
        for group, label, inst, rule in cases(c, tier):
            n[group] += 1
            for op in ("xreplace", "subs"):
                r = commute_case(inst, op, rule)
                if r:
                    r["case"] = label
                    per[(op, group)].append(r)
                r = law_case(inst, op, rule)
                if r:
                    r["case"] = label
                    per_law[(op, group)].append(r)
        counts[nm] = sum(n.values())
        for op in ("xreplace", "subs"):
            for what, table, fun in (("commute", per, fn), ("law", per_law, F_XR if op == "xreplace" else F_SUBS)):
                fails = [r for g in GROUPS for r in table[(op, g)]]
                by_group = {g: {"cases": n[g], "failing": len(table[(op, g)])} for g in GROUPS}
                chk.struct(f"{what}.{op}[{nm}]", not fails, fun, witness={"by_argument_group": by_group, "first": fails[:1]},
                           replay=lambda m, fails=fails: fails[0] if fails else {"reproduced": False}, bounded=True)
        r = rebuild_search(c, tier)
        chk.struct(f"rebuild.instances[{nm}]", not r["reproduced"], F_NEW, witness=r, replay=lambda m, r=r: r, bounded=True)
        r = keyword_construction_search(c)
        chk.struct(f"keyword_construction.instances[{nm}]", not r["reproduced"], F_EXTRACT, witness=r, replay=lambda m, r=r: r, bounded=True)
        r = evaluate_flag_search(c)
        chk.struct(f"evaluate_flag.instances[{nm}]", not r["reproduced"], F_NEW, witness=r, replay=lambda m, r=r: r, bounded=True)
        r = eq_instances_search(c)
        chk.struct(f"equality.instances[{nm}]", not r["reproduced"], F_HC, witness=r, replay=lambda m, r=r: r, bounded=True)
    chk.extra["instance_level"] = {"argument_kinds": ["symbol", "compound", "number"] + [l for l, _ in K.nested_pool(tier)],
                                   "cases_per_class": counts, "exhaustive_over_kind_list": True, "tier": tier}


def helper_case(x) -> list[dict[str, Any]]:
    """Rebuild and substitution laws on one instance of a helper class: x.func(*x.args) == x, and replacing a free
    symbol by a fresh one (xreplace / subs) gives the instance rebuilt from the replaced arguments."""
    out = []
    try:
        y = x.func(*x.args)
        if not K.same_tree(x, y):
            out.append({"reproduced": True, "input": f"x.func(*x.args) for x = {x}", "expected": K.short(x), "observed": K.short(y)})
    except Exception as e:  # noqa: BLE001
        out.append({"reproduced": True, "input": f"x.func(*x.args) for x = {x}", "input_srepr": K.short(x), "expected": K.short(x), "observed": f"{type(e).__name__}: {e}"})
    try:
        free = [a for a in K.atoms_of(x)]
    except Exception:  # noqa: BLE001
        free = [a for arg in x.args if isinstance(arg, sp.Basic) for a in K.atoms_of(arg)]
    for key in free[:2]:
        new = K.fresh_like(key)
        if hasattr(key, "shape") and getattr(key, "shape", None):
            from sympy.tensor.array.expressions.array_expressions import ArraySymbol

            new = ArraySymbol("xnew", shape=key.shape)
        for op in ("xreplace", "subs"):
            try:
                want = x.func(*[(_apply(a, op, {key: new}) if isinstance(a, sp.Basic) else a) for a in x.args])
            except Exception:  # noqa: BLE001
                continue  # the reference construction is itself impossible: reported by the rebuild clause
            try:
                got = _apply(x, op, {key: new})
                if not K.same_tree(got, want):
                    out.append({"reproduced": True, "input": f"{x}.{op}({{{key}: {new}}})", "expected": K.short(want), "observed": K.short(got)})
            except Exception as e:  # noqa: BLE001
                out.append({"reproduced": True, "input": f"{x}.{op}({{{key}: {new}}})", "expected": K.short(want), "observed": f"{type(e).__name__}: {e}"})
    return out


def helper_level(chk: Check) -> None:
    seen = set()
    for label, x in K.helper_instances():
        c = type(x)
        seen.add(c)
        fn = f"{K.qual(c)}.__new__"
        fails = helper_case(x)
        chk.struct(f"helper.rebuild_and_substitute[{label}]", not fails, fn, witness=fails[:2],
                   replay=lambda m, fails=fails: fails[0] if fails else {"reproduced": False}, bounded=True)
    missing = [K.qual(c) for c in K.discover()["helpers"] if c not in seen]
    chk.struct("helper.every_helper_class_has_an_instance", not missing, "contracts.c14.helper_instances", witness=missing, lemma=True,
               replay=lambda m: {"reproduced": False, "note": f"no sample instance for {missing}"})


# =====================================================================================================
# E2: code generated from the folded form == code generated from the unfolded form
# =====================================================================================================
def e2_pool(decorated: list[type]) -> list[tuple[str, Any]]:
    pool: list[tuple[str, Any]] = []
    seen = []
    for c in decorated:
        try:
            x = K.plain_instance(c)
        except Exception:  # noqa: BLE001
            continue
        if hasattr(x, "_numpycode"):
            pool.append((c.__name__, x))
            seen.append(x)
        if hasattr(x, "evaluate"):
            try:
                tree = x.evaluate()
            except Exception:  # noqa: BLE001
                continue
            k = 0
            for node in sp.preorder_traversal(tree):
                if (type(node).__module__ or "").startswith("ampform") and hasattr(node, "_numpycode") and node not in seen:
                    seen.append(node)
                    pool.append((f"{c.__name__}.evaluate():{type(node).__name__}#{k}", node))
                    k += 1
    for label, x in K.helper_instances():
        if hasattr(x, "_numpycode") and x not in seen:
            seen.append(x)
            pool.append((label, x))
    # composite arguments: a printer that interpolates an argument into a template without parentheses is only wrong when the
    # argument prints with lower precedence than the template's operator (a sum, a negation, a scalar multiple)
    from ampform.sympy._array_expressions import ArraySum
    from sympy.tensor.array.expressions.array_expressions import ArraySymbol

    def other_copy(e):
        ren = {}
        for sym in e.free_symbols:
            ren[sym] = sp.Symbol(sym.name + "_b", **sym.assumptions0)
        return e.xreplace(ren)

    base = list(pool)
    for label, x in base:
        if "#" in label:
            continue  # class-level entries only
        done = 0
        for i, arg in enumerate(x.args):
            if not isinstance(arg, sp.Basic) or not arg.free_symbols or done >= 2:
                continue
            is_array = bool(arg.atoms(ArraySymbol)) or isinstance(arg, ArraySymbol)
            variants = [("sum", lambda a: a + other_copy(a)), ("neg", lambda a: -a), ("scaled", lambda a: 2 * a)]
            if is_array:
                variants.append(("arraysum", lambda a: ArraySum(a, other_copy(a))))
            for kind, f in variants:
                try:
                    new_args = list(x.args)
                    new_args[i] = f(arg)
                    y = x.func(*new_args)
                except Exception:  # noqa: BLE001
                    continue
                if y not in seen and hasattr(y, "_numpycode"):
                    seen.append(y)
                    pool.append((f"{label}|arg{i}={kind}", y))
            done += 1
    return pool


def _normalise_code(src: str) -> str:
    import re

    return re.sub(r"_Dummy_\d+", "_Dummy", src)


def numeric_code_replay(x, cse: bool):
    def rep(model):
        import numpy as np
        from sympy.tensor.array.expressions.array_expressions import ArraySymbol

        args = npvc.ordered_args(x)
        rng = np.random.default_rng(14)
        vals = []
        for a in args:
            if isinstance(a, ArraySymbol):
                v = rng.normal(size=(5, 4))
                v[:, 0] = np.sqrt((v[:, 1:] ** 2).sum(axis=1) + 1.0)
                vals.append(v)
            else:
                vals.append(rng.uniform(0.1, 0.9, size=5))
        try:
            g, _ = npvc.lambdify_source(args, x.doit(), cse)
            b = np.asarray(g(*vals))
        except Exception as e:  # noqa: BLE001
            return {"reproduced": False, "note": f"unfolded form not numerically evaluable: {type(e).__name__}: {e}"[:200]}
        try:
            f, src = npvc.lambdify_source(args, x, cse)
            a = np.asarray(f(*vals))
        except Exception as e:  # noqa: BLE001  (the unfolded code runs on these events, the folded code does not)
            return {"reproduced": True, "input": f"lambdify({x}) on 5 random events; cse={cse}", "observed": f"{type(e).__name__}: {e}"[:200], "expected": str(b.reshape(-1)[:4]) + " (code generated from doit())"}
        try:
            err = float(np.max(np.abs(a - b)))
        except Exception as e:  # noqa: BLE001
            return {"reproduced": True, "input": f"lambdify({x}) vs lambdify(doit()) cse={cse}", "observed": f"shapes {a.shape} vs {b.shape}: {e}"}
        return {"reproduced": bool(not np.isfinite(err) or err > 1e-9 * (1 + float(np.max(np.abs(b))))), "input": f"lambdify({x}) vs lambdify(doit()) on 5 random events; cse={cse}",
                "observed": str(a.reshape(-1)[:4]), "expected": str(b.reshape(-1)[:4]), "max_abs_err": err}

    return rep


def e2_folded_unfolded(chk: Check, decorated: list[type]) -> None:
    skipped = []
    for label, x in e2_pool(decorated):
        fn = f"{K.qual(type(x))}._numpycode"
        for cse in (False, True):
            tag = f"E2.folded==unfolded[{label}|cse={'on' if cse else 'off'}]"
            try:
                args = npvc.ordered_args(x)
                _, folded = npvc.lambdify_source(args, x, cse)
            except Exception as e:  # noqa: BLE001
                skipped.append(f"{label}: folded form not printable ({type(e).__name__})")
                break
            rep = numeric_code_replay(x, cse)
            try:
                _, unfolded = npvc.lambdify_source(args, x.doit(), cse)
            except Exception as e:  # noqa: BLE001
                chk.struct(f"{tag}.unfolded_printable", False, fn, witness=f"{type(e).__name__}: {e}"[:200], replay=rep)
                continue
            if _normalise_code(folded) == _normalise_code(unfolded):
                chk.struct(f"{tag}.same_code_or_same_denotation", True, fn, witness="generated sources are identical")
                continue
            # different text: compare the per-event denotations (E2)
            try:
                tr = Tr(f"e2{'c' if cse else 'n'}")
                a = flatten(npvc.Interp(tr, args).run(folded))
                b = flatten(npvc.Interp(tr, args).run(unfolded))
            except (npvc.NpvcUnsupported, npvc.UnboundName, TrError, TypeError, KeyError, IndexError, AttributeError) as e:
                chk.struct(f"{tag}.same_code_or_same_denotation", False, fn, lemma=True, replay=rep,
                           witness={"why": f"sources differ and the code left the E2 subset: {type(e).__name__}: {e}"[:200], "folded": folded[:300], "unfolded": unfolded[:300]})
                continue
            chk.struct(f"{tag}.same_code_or_same_denotation", len(a) == len(b), fn, witness={"folded": folded[:300], "unfolded": unfolded[:300]}, replay=rep)
            if len(a) == len(b):
                from vlib import e1

                e1.add_wd(chk, f"{tag}.wd", tr, [], fn, replay=rep)
                wd = [cond for _, cond, _ in tr.wd]
                chk.smt(f"{tag}.denotations_equal", tr.hyps() + wd, K.conj(u.eq(v) for u, v in zip(a, b)), function=fn, replay=rep)
    chk.extra["E2_not_printable_folded"] = sorted(set(skipped))


# =====================================================================================================
def build(chk: Check) -> None:
    tier = chk.tier
    chk.trust("z3 5.1.0 / cvc5 1.4 unsat answers")
    chk.trust("vlib/pyvc.py + contracts/decorator_common.py (symbolic executor, path merging, natives)")
    chk.trust("sympy.lambdify returns the function whose source inspect.getsource shows")
    chk.assume("A-pure: functions not under contract and not in the native table are deterministic and side-effect free (uninterpreted)")
    chk.assume("A-himg-inj (NOT proved): the hashable image of non-SymPy attributes (None / classes by qualified name / hashable objects as "
               "themselves / str(obj) for unhashable ones) is injective on the attribute values ampform uses; it is not in general "
               "(str() fallback; None, NoneType and the string 'builtins.NoneType' collide)")
    chk.assume("reading: folded code is compared only for instances that can be printed folded (classes with _numpycode whose arguments print)")
    chk.assume("reading: commutation is tree equality after renaming Dummy symbols and, where evaluate() returns evaluate=False nodes "
               "(chew_mandelstam_s_wave), after rebuilding every node of both sides through its constructor; substitution maps go from symbols "
               "to fresh symbols (replacing by compound expressions is not tree-commutative in SymPy itself: 2*(a+1) vs 2*a+2)")
    chk.functions.update({F_XR, F_SUBS, F_HC, F_HO, F_NEW, F_EXTRACT, F_SYMPIFY, F_DOIT, F_ASSUME, F_UNEVAL})
    d = K.discover()
    decorated, helpers = d["decorated"], d["helpers"]
    chk.extra["introspection"] = {
        "decorated": [K.qual(c) for c in decorated], "with_non_sympy_fields": [K.qual(c) for c in decorated if K.nonsympy_fields(c)],
        "helpers": [K.qual(c) for c in helpers], "import_failures": d["import_failures"],
    }
    chk.struct("introspection.finds_decorated_classes", len(decorated) >= 30 and not d["import_failures"], K.DEC + "unevaluated",
               witness={"decorated": len(decorated), "import_failures": d["import_failures"]}, lemma=True, replay=lambda m: {"reproduced": False})
    # which function provides the constructor arguments
    ga = K.get_arguments_function()
    chk.extra["get_arguments"] = {"module_level_function": K.describe_function(ga), "is_dataclasses_astuple": ga is dataclasses.astuple}
    chk.functions.add(f"{K.describe_function(ga)} (bound as {K.DEC}_get_arguments)")
    for name, ok, detail in K.smoke_checks():
        chk.struct(f"assumed.{name}", ok, "dependency contract (smoke check)", witness=detail, lemma=True, bounded=True,
                   replay=lambda m: {"reproduced": False, "note": "an assumed contract on a dependency does not hold"})
    # ---- E3 ----
    installers = [c for c in decorated if "_xreplace" in c.__dict__ or "_eval_subs" in c.__dict__]
    chk.struct("O1.installed_exactly_on_classes_with_non_sympy_fields", set(installers) == {c for c in decorated if K.nonsympy_fields(c)},
               K.DEC + "_implement_new_method", witness=[c.__name__ for c in installers],
               replay=lambda m: {"reproduced": False})
    def guarded_e3(fn, pre, function, search, *args):
        """Build one group of E3 obligations; if building the SPEC itself fails on the code's new shape (an abstraction with another
        arity, an opaque value where a tuple is expected, ...), that is 'outside the supported subset', never a crash or an alarm."""
        have = {o.name for o in chk.obligations}
        try:
            fn(chk, *args)
        except K.E3_ERRORS as e:
            if f"{pre}.in_supported_subset" in {o.name for o in chk.obligations} - have:
                pre = pre + ".spec"
            K.left_subset(chk, pre, function, e, search, [])

    for c in installers:
        if "_xreplace" in c.__dict__:
            guarded_e3(e3_xreplace, f"O1.xreplace[{c.__name__}]", F_XR, lambda m, c=c: search_law(c, "xreplace"), c)
        if "_eval_subs" in c.__dict__:
            guarded_e3(e3_subs, f"O2.subs[{c.__name__}]", F_SUBS, lambda m, c=c: search_law(c, "subs"), c)
    for c in decorated:
        guarded_e3(e3_hashable, f"O3.hashable_content[{c.__name__}]", F_HC, lambda m, c=c: eq_instances_search(c), c)
        guarded_e3(e3_constructor, f"O4.constructor[{c.__name__}]", F_NEW, lambda m, c=c: rebuild_search(c), c)
    guarded_e3(e3_doit_and_assumptions, "O5.doit_and_assumptions", F_DOIT, lambda m: {"reproduced": False}, decorated)
    # attribute values ampform uses: pairwise distinct values have distinct images (instance of A-himg-inj)
    used = [None, "q^2", R"\rho", "N", 0, 1] + [c for c in decorated if K.nonsympy_fields(c)][:6]

    # ... and the kinds of values a caller may pass (EnergyDependentWidth.phsp_factor takes any callable; attributes of user classes may be
    # containers): functions that share module and qualified name, lambdas, bound methods of different objects, containers that differ
    # in a value only. Equal images would make different expressions compare equal (SymPy's caches and term collection rely on ==).
    def _closure(k):
        def phsp(s, m1, m2):
            return k * s

        return phsp

    class _Cfg:
        def __init__(self, k):
            self.k = k

        def factor(self, s, m1, m2):
            return self.k * s

    used += [_closure(1), _closure(2), lambda s, a, b: s, lambda s, a, b: 2 * s, _Cfg(1).factor, _Cfg(2).factor,  # noqa: E731
             {1: 2, 2: 3}, {1: 5, 2: 7}, {1: 2, 3: 3}, [1, 2], [1, 3], (1, 2), (1, 3), {"a": [1]}, {"a": [2]}]
    imgs = [D._get_hashable_object(v) for v in used]  # noqa: SLF001
    clash = [(repr(a), repr(b)) for i, a in enumerate(used) for j, b in enumerate(used) if i < j and imgs[i] == imgs[j] and a is not b and a != b]
    def rep_clash(m=None):
        """Consequence on real expressions: two instances that differ in the attribute only must stay two expressions under xreplace."""
        from typing import Any as _Any

        from ampform.sympy import argument, unevaluated

        @unevaluated
        class Holder(sp.Expr):
            x: _Any
            attr: _Any = argument(sympify=False)

            def evaluate(self):
                return self.x

        xs = sp.Symbol("x")
        for i, a in enumerate(used):
            for j, b in enumerate(used):
                if i < j and a is not b and a != b:
                    ha, hb = Holder(xs, attr=a), Holder(xs, attr=b)
                    got = sp.Tuple(ha, hb).xreplace({hb: sp.Integer(0)})
                    if ha == hb or got.args[0] == 0:
                        return {"reproduced": True, "input": f"Tuple(Holder(x, attr={a!r}), Holder(x, attr={b!r})).xreplace({{second: 0}})", "expected": "(Holder(x, attr=first), 0)",
                                "observed": f"{got}; first == second is {ha == hb}; images {D._get_hashable_object(a)!r} / {D._get_hashable_object(b)!r}"}  # noqa: SLF001
        return {"reproduced": False, "note": "instances that differ in a non-SymPy attribute stay different expressions"}

    chk.struct("O3.hashable_image.injective_on_used_attribute_values", not clash, F_HO, witness=clash, bounded=True, replay=rep_clash)
    from ampform.dynamics.phasespace import PhaseSpaceFactor

    s_, a_, b_ = sp.symbols("s m1 m2")
    chk.extra["O3_observed_collisions_outside_assumed_domain"] = {
        "PhaseSpaceFactor(s,m1,m2,name=None) == PhaseSpaceFactor(s,m1,m2,name='builtins.NoneType')":
            bool(PhaseSpaceFactor(s_, a_, b_, name=None) == PhaseSpaceFactor(s_, a_, b_, name="builtins.NoneType")),
        "image(None)": D._get_hashable_object(None), "image([1])": D._get_hashable_object([1]),  # noqa: SLF001
    }
    # census: which SymPy classes of the package define their own equality / hash at all (the O3 contract is about the decorator's
    # _hashable_content; a hand-written one elsewhere is outside every contract here)
    import importlib
    import pkgutil

    import ampform as _amp

    own_eq = {}
    for mi in pkgutil.walk_packages(_amp.__path__, "ampform."):
        try:
            mod = importlib.import_module(mi.name)
        except Exception:  # noqa: BLE001
            continue
        for c in vars(mod).values():
            if inspect.isclass(c) and issubclass(c, sp.Basic) and c.__module__.startswith("ampform"):
                for k in ("__eq__", "__hash__", "__ne__", "_hashable_content", "compare"):
                    if k in c.__dict__ and getattr(c.__dict__[k], "__module__", None) not in ("ampform.sympy._decorator", "ampform.sympy.deprecated"):
                        own_eq.setdefault(f"{c.__module__}.{c.__qualname__}", []).append(k)
    chk.struct("census.equality_and_hash_of_expression_classes_come_from_the_decorator_only", not own_eq, F_HC, witness=own_eq, lemma=True,
               replay=lambda m: {"reproduced": False, "note": "a class with hand-written equality is not covered by the O3 contract; decided by that class's own property (PoolSum: C18)"})
    # ---- instance level ----
    instance_level(chk, decorated, tier)
    helper_level(chk)
    # ---- E2 ----
    e2_folded_unfolded(chk, decorated)
    numeric_commutation(chk, decorated)


def numeric_commutation(chk: Check, decorated: list[type]) -> None:
    """Unfolding commutes with substituting NUMBERS, also when several arguments receive the same value (bounded, real classes):
    C(sigma(args)).doit() == C(args).doit() under sigma, compared numerically. A body that manipulates its arguments by VALUE
    (xreplace / subs on a built expression) instead of by position is only wrong when two arguments coincide."""
    import itertools

    FN = "ampform.sympy._decorator (every evaluate())"
    for c in decorated:
        try:
            x = K.plain_instance(c)
            # A-path exception (DESIGN): BlattWeisskopfSquared.evaluate takes a different path for a symbolic angular momentum
            # (Hankel sum) than for a number (polynomial); the two agree for z > 0 only (C12). The angular momentum is
            # therefore a fixed number here; collisions of other arguments WITH that number are still exercised.
            fnames = [f.name for f in K.sympy_fields(c)]
            if "angular_momentum" in fnames:
                fixed = list(x.args)
                fixed[fnames.index("angular_momentum")] = sp.Integer(2)
                x = c(*fixed, **{f.name: getattr(x, f.name) for f in K.nonsympy_fields(c)})
            syms = [a for a in x.args if isinstance(a, sp.Symbol)]
            if not hasattr(x, "evaluate") or not syms or any(not (isinstance(a, sp.Symbol) or a.is_Integer) for a in x.args):
                continue
            unfolded = x.doit()
            if unfolded.atoms(sp.tensor.array.expressions.array_expressions.ArraySymbol) if hasattr(sp.tensor.array.expressions, "array_expressions") else False:
                continue
        except Exception:  # noqa: BLE001
            continue
        maps = {
            "all_ones": {s_: sp.Integer(1) for s_ in syms},
            "all_twos": {s_: sp.Integer(2) for s_ in syms},
            "counting": {s_: sp.Integer(k + 1) for k, s_ in enumerate(syms)},
            "first_equals_each_other": None,
        }
        cases = [(k, v) for k, v in maps.items() if v is not None]
        # first argument takes the value of each other argument in turn (generic distinct values elsewhere)
        for j in range(1, len(syms)):
            base = {s_: sp.Rational(3 + 2 * k, 2) if k else sp.Integer(0) for k, s_ in enumerate(syms)}
            vals = {s_: sp.Integer(k + 2) for k, s_ in enumerate(syms)}
            vals[syms[0]] = vals[syms[j]]
            cases.append((f"arg0=arg{j}", vals))
        bad = []
        tried = 0
        for name, m in cases:
            try:
                lhs = c(*[m.get(a, a) for a in x.args], **{f.name: getattr(x, f.name) for f in K.nonsympy_fields(c)}).doit()
                rhs = unfolded.xreplace(m).doit()
                a, b = complex(sp.N(lhs)), complex(sp.N(rhs))
            except Exception:  # noqa: BLE001  (zoo, nan, not numeric: this assignment is outside the expression's domain)
                continue
            if not (abs(a) < 1e300 and abs(b) < 1e300) or a != a or b != b:
                continue
            tried += 1
            if abs(a - b) > 1e-9 * (1 + abs(b)):
                bad.append({"assignment": name, "values": {str(k): str(v) for k, v in m.items()}, "numbers_first_then_unfold": str(a), "unfold_then_numbers": str(b)})

        def rep(_m=None, bad=bad, c=c):
            return {"reproduced": bool(bad), "input": f"{c.__name__} with numeric arguments", "observed": bad[:2], "expected": "same value either way"}

        chk.struct(f"commute.numeric_substitution[{c.__name__}]", not bad, FN, witness={"mismatches": bad[:3], "assignments_evaluated": tried}, replay=rep, bounded=True)
