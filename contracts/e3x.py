"""Extensions of the E3 executor shared by C16 and C18 (kept out of vlib/pyvc.py: additive, local to these contracts).

`XExecutor` adds to `vlib.pyvc.Executor`
  * properties of the real class of a `Rec` are *interpreted from their own source* (`self.indices` -> `self.args[1:]`),
  * `dict[key] = v` and `in` with symbolic keys/elements, under the contract's `requires` that the symbolic keys are pairwise
    distinct objects (the contract puts `Distinct(...)` into the path condition) -- the dictionary is then exact,
  * dict views (`d.values()/keys()/items()`),
  * f-strings as uninterpreted *template functions* of their formatted values (`f"{h}.pkl"` -> `fmt:{}.pkl(h)`),
  * hooks: `obj_attrs[name](ex, o, st)` for attributes of opaque objects, `binops[(cls_name, opname)]` for operators on
    records (`Path / str`, `set - set`), exception classes looked up in `exc_modules` as well.
Everything else (statement/expression semantics, path enumeration, obligations) is the base executor.
"""

from __future__ import annotations

import ast
import inspect

import z3

from vlib.pyvc import Exc, Executor, Rec, SV, Unsupported, _HK, _hashable, _unhash, fold_template, is_sym, render_fstring


class XExecutor(Executor):
    def __init__(self, name: str = "", **kw):
        super().__init__(name, **kw)
        self.obj_attrs: dict = {}
        self.binops: dict = {}
        self.exc_modules: list = []
        self.templates: dict[str, object] = {}  # template text -> z3 function
        self.natives.setdefault("pydict.values", _d_values)
        self.natives.setdefault("pydict.keys", _d_keys)
        self.natives.setdefault("pydict.items", _d_items)

    # -- attributes -----------------------------------------------------------------------------
    def getattr(self, o, attr: str, st):
        if isinstance(o, Rec) and attr not in o.attrs and (o.cls_name, attr) in getattr(self, "rec_props", {}):
            return self.rec_props[(o.cls_name, attr)](self, o, st)  # computed attribute of an abstract record (e.g. Path.parent)
        if isinstance(o, Rec) and attr not in o.attrs and self.lookup_native_method(o, attr) is None and o.real_class is not None:
            raw = inspect.getattr_static(o.real_class, attr, None)
            if isinstance(raw, property):
                outs = list(self.call_function(raw.fget, st, [o], {}))
                if len(outs) != 1 or outs[0][1] != "return":
                    raise Unsupported(f"property {attr} of {o.cls_name} forks or raises")
                return outs[0][2]
        if isinstance(o, SV) and o.sort == "obj" and attr in self.obj_attrs:
            return self.obj_attrs[attr](self, o, st)
        return super().getattr(o, attr, st)

    # -- symbolic dictionary keys --------------------------------------------------------------------
    def contains(self, cont, item, st):
        if isinstance(cont, (set, frozenset, list, tuple)) and any(isinstance(x, _HK) for x in cont):
            cont = [_unhash(x) for x in cont]
        if isinstance(cont, dict) and isinstance(item, SV):
            # identity-keyed symbolic keys: equality of the symbolic terms decides membership
            ors = [self.as_bool(self.equal(_unhash(k), item)) for k in cont]
            yield st, SV(z3.Or(*ors) if ors else z3.BoolVal(False), "bool")
            return
        yield from super().contains(cont, item, st)

    def getitem(self, o, k, st):
        if isinstance(o, dict) and isinstance(k, SV):
            hk = _hashable(k)
            if hk in o:
                yield st, o[hk]
                return
            raise Unsupported("lookup of a symbolic key that is not syntactically one of the dictionary's keys")
        yield from super().getitem(o, k, st)

    # -- operators on records ---------------------------------------------------------------------------
    def binop(self, op, a, b, st):
        # string concatenation of a value the contract KNOWS to be a str (hook `is_string`) with a literal: the same string as the
        # f-string with that template (s + ".pkl" == f"{s}.pkl"); for a value of unknown type `+` may raise, so nothing is assumed
        if isinstance(op, ast.Add) and getattr(self, "is_string", None) is not None:
            if isinstance(a, SV) and a.sort == "obj" and isinstance(b, str) and self.is_string(a):
                text = "{}" + b.replace("{", "{{").replace("}", "}}")
                fn = self.func("fmt:" + text, "obj", "obj")
                self.templates[text] = fn
                return SV(fn(a.t), "obj")
            if isinstance(b, SV) and b.sort == "obj" and isinstance(a, str) and self.is_string(b):
                text = a.replace("{", "{{").replace("}", "}}") + "{}"
                fn = self.func("fmt:" + text, "obj", "obj")
                self.templates[text] = fn
                return SV(fn(b.t), "obj")
        for x in (a, b):
            if isinstance(x, Rec):
                h = self.binops.get((x.cls_name, type(op).__name__))
                if h is not None:
                    return h(self, a, b, st)
        return super().binop(op, a, b, st)

    # -- f-strings ----------------------------------------------------------------------------------------
    def ev(self, n, st, frame):
        if isinstance(n, ast.JoinedStr):
            yield from self._fstring(n, st, frame)
            return
        yield from super().ev(n, st, frame)

    def _fstring(self, n: ast.JoinedStr, st, frame):
        holes = [v for v in n.values if isinstance(v, ast.FormattedValue)]
        text = ""
        for v in n.values:
            if isinstance(v, ast.Constant):
                text += str(v.value).replace("{", "{{").replace("}", "}}")
            else:
                spec = ""
                if v.format_spec is not None:
                    spec = ":" + "".join(str(c.value) for c in v.format_spec.values if isinstance(c, ast.Constant))
                text += "{" + spec + "}"
        for st2, vals in self.ev_list([h.value for h in holes], st, frame):
            if isinstance(vals, Exc):
                yield st2, vals
                continue
            if not any(is_sym(x) or isinstance(x, Rec) for x in vals):
                yield st2, render_fstring(n, vals)  # all holes concrete: the string Python builds (as in the base executor)
                continue
            text2, vals2 = fold_template(n, vals)  # concrete str/int holes are part of the literal text
            fn = self.func("fmt:" + text2, *(["obj"] * len(vals2)), "obj")
            self.templates[text2] = fn
            yield st2, SV(fn(*[self.as_obj(x) for x in vals2]), "obj")

    # -- exceptions ----------------------------------------------------------------------------------------
    def _exc_matches(self, tnode, exc: Exc, frame) -> bool:
        if super()._exc_matches(tnode, exc, frame):
            return True
        if tnode is None:
            return True
        import builtins

        real = None
        for m in self.exc_modules:
            real = real or getattr(m, exc.type_name, None)
        if not isinstance(real, type):
            return False
        for e in tnode.elts if isinstance(tnode, ast.Tuple) else [tnode]:
            nm = ast.unparse(e).split(".")[-1]
            base = getattr(builtins, nm, None)
            for m in self.exc_modules:
                base = base or getattr(m, nm, None)
            if isinstance(base, type) and issubclass(real, base):
                return True
        return False


def _d_values(ex, st, args, kwargs):
    yield st, list(args[0].values())


def _d_keys(ex, st, args, kwargs):
    yield st, [_unhash(k) for k in args[0]]


def _d_items(ex, st, args, kwargs):
    yield st, [(_unhash(k), v) for k, v in args[0].items()]


def has_quantifier(t) -> bool:
    if z3.is_quantifier(t):
        return True
    return any(has_quantifier(c) for c in t.children())


def run_guarded(ex: Executor, func, args, kwargs=None, st=None):
    """`ex.run` that reports *every* failure of the engine (not only `Unsupported`) as 'left the supported subset'.
    Returns (outcomes | None, message)."""
    try:
        return ex.run(func, args, kwargs or {}, st=st), ""
    except Unsupported as e:
        return None, f"Unsupported: {e}"
    except Exception as e:  # noqa: BLE001 - e.g. len() of an opaque value after a mutation of the code under contract
        return None, f"{type(e).__name__}: {e}"
