"""C13 layer (i): E3 symbolic execution of the real selector / variable-set / dynamics code over abstract transitions."""

from __future__ import annotations

import z3

from contracts import c13_spec as S
from contracts.e3x_sel import Ex, conj, n_warning, pc_of
from vlib.core import Check
from vlib.pyvc import Exc, Obj, Rec, SMap, SV, State, Unsupported, _HK

FSEL = "ampform.helicity.DynamicsSelector.assign"
FGET = "ampform.helicity.DynamicsSelector.__getitem__"
FINIT = "ampform.helicity.DynamicsSelector.__init__"
FVS = "ampform.helicity._generate_kinematic_variable_set"
FDYN = "ampform.helicity.HelicityAmplitudeBuilder.__formulate_dynamics"

B = z3.BoolSort()


def fn(name, *sorts):
    return z3.Function(name, *sorts)


# uninterpreted reading of an abstract transition (A-pure: the same (transition, node) always gives the same decay)
decay_of = fn("decay_of", Obj, Obj, Obj)
is_two_body = fn("is_two_body_node", Obj, Obj, B)
is_transition = fn("is_qrules_state_transition", Obj, B)
parent_id = fn("parent_edge_id", Obj, Obj, Obj)
child_id = [fn("child0_edge_id", Obj, Obj, Obj), fn("child1_edge_id", Obj, Obj, Obj)]
particle_of = fn("parent_particle", Obj, Obj, Obj)
pname = fn("particle_name", Obj, Obj)
platex = fn("particle_latex", Obj, Obj)
spin_of = fn("parent_spin", Obj, Obj, z3.RealSort())
l_of = fn("interaction_l_magnitude", Obj, Obj, z3.IntSort())
s_of = fn("interaction_s_magnitude", Obj, Obj, z3.IntSort())
topo_of = fn("topology_of", Obj, Obj)
mass_sym = fn("get_invariant_mass_symbol", Obj, Obj, Obj)  # naming functions: uninterpreted
phi_sym = fn("helicity_phi_symbol", Obj, Obj, Obj)
theta_sym = fn("helicity_theta_symbol", Obj, Obj, Obj)
mkvs = fn("TwoBodyKinematicVariableSet", Obj, Obj, Obj, Obj, Obj, Obj, Obj)
b_expr = fn("builder_expression", Obj, Obj, Obj, Obj)
b_par = [fn(f"builder_parameter{i}", Obj, Obj, Obj, Obj) for i in range(3)]
b_val = [fn(f"builder_default{i}", Obj, Obj, Obj, Obj) for i in range(3)]


def real():
    from ampform import helicity as H
    from ampform.helicity import decay as D

    return H, D


def abstract_decay(ex: Ex, tt, nn, l_none: bool) -> Rec:
    from qrules.particle import Particle

    _, D = real()
    d = decay_of(tt, nn)
    ex.sv_class[str(d)] = D.TwoBodyDecay
    p = particle_of(tt, nn)
    particle = Rec("Particle", {"name": SV(pname(p), "obj"), "latex": SV(platex(p), "obj"), "spin": Rec("Spin", {"value": SV(spin_of(tt, nn), "real")}), "__obj__": p}, real_class=Particle)
    ex.sv_class[str(pname(p))] = str

    def state(idt, part=None):
        return Rec("StateWithID", {"id": SV(idt, "obj"), **({"particle": part} if part is not None else {})}, getattr(D, "StateWithID", None))

    inter = Rec("InteractionProperties", {"l_magnitude": None if l_none else SV(l_of(tt, nn), "int"), "s_magnitude": SV(s_of(tt, nn), "int")})
    return Rec("TwoBodyDecay", {"parent": state(parent_id(tt, nn), particle), "children": (state(child_id[0](tt, nn)), state(child_id[1](tt, nn))), "interaction": inter, "__obj__": d},
               real_class=D.TwoBodyDecay)


def mk_ex(tag: str, l_none: bool = False, decay_as_record: bool = True) -> Ex:
    H, D = real()
    ex = Ex(tag)
    ex.natives["_LOGGER.warning"] = n_warning
    ex.natives["_create_two_body_decay"] = ex.singledispatch(D._create_two_body_decay, 0)
    ex.natives["TwoBodyDecay.create"] = ex.interpret(D.TwoBodyDecay.create)
    ex.natives["_is_qrules_state_transition"] = lambda e, st, a, k: iter([(st, SV(is_transition(e.as_obj(a[0])), "bool"))])
    ex.natives["DynamicsSelector.assign"] = ex.singledispatch(H.DynamicsSelector.__dict__["assign"].dispatcher, 1)
    ex.natives["DynamicsSelector.__getitem__"] = ex.interpret(H.DynamicsSelector.__getitem__)

    def n_contains(e, st, args, kw):  # collections.abc.Mapping.__contains__: try self[key] / except KeyError
        for st2, _kind, val in e.call_function(H.DynamicsSelector.__getitem__, st, list(args), {}):
            if isinstance(val, Exc):
                if val.type_name != "KeyError":
                    yield st2, val
                else:
                    yield st2, False
            else:
                yield st2, True

    ex.natives["DynamicsSelector.__contains__"] = n_contains

    def n_from_transition(e, st, args, kw):
        tt, nn = e.as_obj(args[0]), e.as_obj(args[1])
        for st2, ok in e.truth(st, SV(is_two_body(tt, nn), "bool")):
            if not ok:
                yield st2, Exc("ValueError", ("Node does not represent a 1-to-2 body decay!",))
            elif decay_as_record:
                yield st2, abstract_decay(e, tt, nn, l_none)
            else:
                e.sv_class[str(decay_of(tt, nn))] = D.TwoBodyDecay
                yield st2, SV(decay_of(tt, nn), "obj")

    ex.natives["TwoBodyDecay.from_transition"] = n_from_transition
    ex.natives["get_invariant_mass_symbol"] = lambda e, st, a, k: iter([(st, SV(mass_sym(e.as_obj(a[0]), e.as_obj(a[1])), "obj"))])
    ex.natives["get_helicity_angle_symbols"] = lambda e, st, a, k: iter([(st, (SV(phi_sym(e.as_obj(a[0]), e.as_obj(a[1])), "obj"), SV(theta_sym(e.as_obj(a[0]), e.as_obj(a[1])), "obj")))])
    ex.natives["Spin.is_integer"] = lambda e, st, a, k: iter([(st, SV(z3.IsInt(a[0].attrs["value"].t), "bool"))])

    def n_int(e, st, args, kw):
        (v,) = args
        if isinstance(v, Rec) and v.cls_name == "Spin":
            yield st, SV(z3.ToInt(v.attrs["value"].t), "int")  # spin >= 0: truncation = floor
        elif isinstance(v, SV) and v.sort == "int":
            yield st, v
        else:
            raise Unsupported("int() of this value")

    ex.natives["int"] = n_int

    def n_varset(e, st, args, kw):
        order = ["incoming_state_mass", "outgoing_state_mass1", "outgoing_state_mass2", "helicity_theta", "helicity_phi", "angular_momentum"]
        vals = dict(zip(order, args))
        vals.update(kw)
        vals.setdefault("angular_momentum", None)
        if set(vals) != set(order):
            raise Unsupported("TwoBodyKinematicVariableSet fields")
        t = mkvs(*[e.as_obj(vals[k]) for k in order])
        yield st, Rec("TwoBodyKinematicVariableSet", {**vals, "__obj__": t})

    ex.natives["TwoBodyKinematicVariableSet"] = n_varset

    def n_setdefault(e, st, args, kw):  # dict.setdefault on a symbolic map
        d, key, default = args[0], args[1], (args[2] if len(args) > 2 else None)
        m: SMap = d.attrs["__map__"]
        k = e.as_obj(key)
        for st2, present in e.truth(st, SV(z3.Select(m.has, k), "bool")):
            if present:
                yield st2, SV(z3.Select(m.val, k), "obj")
            else:
                d2 = st2.ghost["roots"]["self"].attrs["_HelicityAmplitudeBuilder__ingredients"].attrs["parameter_defaults"] if "roots" in st2.ghost and st2 is not st else d
                m2: SMap = d2.attrs["__map__"]
                d2.attrs["__map__"] = SMap(z3.Store(m2.has, k, True), z3.Store(m2.val, k, e.as_obj(default)))
                yield st2, default

    ex.natives["dict.setdefault"] = n_setdefault
    ex.inline.add(H._generate_kinematic_variables)
    ex.inline.add(H._generate_kinematic_variable_set)
    return ex


ASSUMED = [
    "TwoBodyDecay.from_transition(t, n) is a function of (t, n): raises ValueError unless the node is a 1-to-2 decay, otherwise returns the decay whose fields "
    "(parent edge, children[0], children[1], interaction) are uninterpreted functions of (t, n) (A-pure); its own order of the children is checked on the zoo (bounded)",
    "naming functions get_invariant_mass_symbol / get_helicity_angle_symbols uninterpreted (A-pure): results hold for every naming",
    "logging.Logger.warning has no effect on the program state (recorded on a ghost trace)",
    "collections.abc.Mapping.__contains__(k) = (self[k] does not raise KeyError)",
    "functools.singledispatch(method): the registry of the real dispatcher selects the implementation from the dynamic type of the selection",
    "TwoBodyKinematicVariableSet(...) stores its six fields unchanged (attrs class without converters)",
    "Spin.is_integer() / int(spin): spin is a nonnegative real; int() is the floor there (A-arith)",
    "a ResonanceDynamicsBuilder is an arbitrary deterministic function of (particle, variable set) returning (expression, dict with <= 3 distinct parameters) (A-pure; parametricity)",
    "private attributes are modelled under their mangled names (self._DynamicsSelector__choices, self._HelicityAmplitudeBuilder__ingredients)",
]


def _registry():
    H, D = real()
    from qrules.particle import Particle

    disp = H.DynamicsSelector.__dict__["assign"].dispatcher
    return {"str": disp.dispatch(str), "Particle": disp.dispatch(Particle), "TwoBodyDecay": disp.dispatch(D.TwoBodyDecay), "tuple": disp.dispatch(tuple), "object": disp.dispatch(object)}


def _run(chk: Check, ex: Ex, func, args, st, tag: str, function: str, replay):
    try:
        outs = ex.run(func, args, st=st)
    except Unsupported as e:
        chk.struct(f"{tag}.in_supported_subset", False, function, witness=str(e), lemma=True, replay=replay)
        return None
    chk.struct(f"{tag}.in_supported_subset", True, function, lemma=True)
    return outs


def _choices_of(oc) -> dict:
    return oc.st.ghost["roots"]["self"].attrs["_DynamicsSelector__choices"]


# ---- (a) assign by name (str / Particle): concrete map over k abstract decays ------------------------------------------
def assign_by_name(chk: Check, kind: str, k: int) -> int:
    from qrules.particle import Particle

    H, _ = real()
    impl = _registry()[kind]
    ex = mk_ex(f"assign_{kind}{k}")
    names = [z3.Const(f"parent_name{i}", Obj) for i in range(k)]
    latex = [z3.Const(f"parent_latex{i}", Obj) for i in range(k)]
    olds = [z3.Const(f"old_choice{i}", Obj) for i in range(k)]
    from ampform.helicity import decay as D_

    # real classes attached: a property/helper of TwoBodyDecay used by the code under contract is interpreted from its source
    decays = [Rec("TwoBodyDecay", {"parent": Rec("StateWithID", {"particle": Rec("Particle", {"name": SV(names[i], "obj"), "latex": SV(latex[i], "obj")})},
                                                 getattr(D_, "StateWithID", None)),
                                   "__obj__": z3.Const(f"decay{i}", Obj)}, getattr(D_, "TwoBodyDecay", None)) for i in range(k)]
    keys = [_HK(d) for d in decays]
    self_rec = Rec("DynamicsSelector", {"_DynamicsSelector__choices": {keys[i]: SV(olds[i], "obj") for i in range(k)}}, real_class=H.DynamicsSelector)
    sel_name, sel_latex = z3.Const("selection_name", Obj), z3.Const("selection_latex", Obj)
    ex.sv_class[str(sel_name)] = str
    ex.sv_class[str(sel_latex)] = str
    builder = z3.Const("builder", Obj)
    selection = SV(sel_name, "obj") if kind == "str" else Rec("Particle", {"name": SV(sel_name, "obj"), "latex": SV(sel_latex, "obj")}, real_class=Particle)
    st = State()
    st.pc.append(z3.Distinct(*[d.attrs["__obj__"] for d in decays]) if k > 1 else z3.BoolVal(True))
    st.ghost["roots"] = {"self": self_rec}
    tag = f"assign[{kind}/k={k}]"
    outs = _run(chk, ex, impl, [self_rec, selection, SV(builder, "obj")], st, tag, FSEL, S.search_selector)
    if outs is None:
        return 0
    whole, warn, no_raise, leak = [], [], [], []
    any_match = z3.Or(*[names[i] == sel_name for i in range(k)])
    for oc in outs:
        pc = pc_of(oc.st)
        if oc.kind == "raise":
            no_raise.append(z3.Not(pc))
            continue
        ch = _choices_of(oc)
        same_keys = list(ch) == keys
        post = [z3.BoolVal(same_keys)]
        if same_keys:
            for i in range(k):
                post.append(ex.as_obj(ch[keys[i]]) == z3.If(names[i] == sel_name, builder, olds[i]))
            leak.append(z3.Implies(pc, conj(ex.as_obj(ch[keys[i]]) == builder for i in range(k))))
        whole.append(z3.Implies(pc, conj(post)))
        warn.append(z3.Implies(pc, z3.BoolVal("warning" in oc.st.trace) == z3.Not(any_match)))
    chk.smt(f"{tag}.ens.whole_map[builder_if_parent_name_matches_else_unchanged]", [], conj(whole), function=FSEL, replay=S.search_selector, tactics=("default",))
    chk.smt(f"{tag}.ens.warns_iff_no_decay_matches", [], conj(warn), function=FSEL, replay=S.search_selector, tactics=("default",))
    chk.smt(f"{tag}.ens.never_raises", [], conj(no_raise), function=FSEL, replay=S.search_selector, tactics=("default",))
    if kind == "str" and k == 2:
        # vacuity: a path where decay 0 is selected and decay 1 is not; self-test: "the assignment reaches every decay" is false
        chk.cover(f"{tag}.cover.one_selected_one_not", [names[0] == sel_name, names[1] != sel_name] + [z3.Or(*[pc_of(oc.st) for oc in outs if oc.kind == "return"])], function=FSEL)
        chk.mustfail("selftest.assign[str/k=2].assignment_leaks_to_all_decays", [], conj(leak), function=FSEL, tactics=("default",))
    return len(outs)


# ---- (a) assign one decay / (transition, node): unbounded symbolic map --------------------------------------------------
def _smap_self():
    H, _ = real()
    has, val = z3.Array("choices_has", Obj, B), z3.Array("choices_val", Obj, Obj)
    return Rec("DynamicsSelector", {"_DynamicsSelector__choices": Rec("dict", {"__map__": SMap(has, val)})}, real_class=H.DynamicsSelector), has, val


def _final_map(oc) -> SMap:
    return oc.st.ghost["roots"]["self"].attrs["_DynamicsSelector__choices"].attrs["__map__"]


def assign_one(chk: Check) -> int:
    _, D = real()
    reg = _registry()
    n_paths = 0
    builder = z3.Const("builder", Obj)
    # TwoBodyDecay
    ex = mk_ex("assign_decay")
    self_rec, has, val = _smap_self()
    d = z3.Const("decay", Obj)
    ex.sv_class[str(d)] = D.TwoBodyDecay
    st = State()
    st.ghost["roots"] = {"self": self_rec}
    tag = "assign[TwoBodyDecay]"
    outs = _run(chk, ex, reg["TwoBodyDecay"], [self_rec, SV(d, "obj"), SV(builder, "obj")], st, tag, FSEL, S.search_selector)
    if outs is not None:
        n_paths += len(outs)
        post, no_raise = [], []
        for oc in outs:
            pc = pc_of(oc.st)
            if oc.kind == "raise":
                no_raise.append(z3.Not(pc))
                continue
            m = _final_map(oc)
            post.append(z3.Implies(pc, z3.And(m.val == z3.Store(val, d, builder), m.has == z3.Store(has, d, True))))
        chk.smt(f"{tag}.ens.whole_map[only_that_key]", [], conj(post), function=FSEL, replay=S.search_selector, tactics=("default",))
        chk.smt(f"{tag}.ens.never_raises", [], conj(no_raise), function=FSEL, replay=S.search_selector, tactics=("default",))
    # (transition, node)
    ex = mk_ex("assign_tuple", decay_as_record=False)
    self_rec, has, val = _smap_self()
    t, n = z3.Const("transition", Obj), z3.Const("node_id", Obj)
    ex.sv_class[str(n)] = int
    st = State()
    st.ghost["roots"] = {"self": self_rec}
    tag = "assign[(transition;node)]"
    outs = _run(chk, ex, reg["tuple"], [self_rec, (SV(t, "obj"), SV(n, "obj")), SV(builder, "obj")], st, tag, FSEL, S.search_selector)
    if outs is not None:
        n_paths += len(outs)
        post, exc = [], []
        dd = decay_of(t, n)
        for oc in outs:
            pc = pc_of(oc.st)
            m = _final_map(oc)
            unchanged = z3.And(m.val == val, m.has == has)
            if oc.kind == "raise":
                want = z3.If(z3.Not(is_transition(t)), z3.BoolVal(oc.value.type_name == "NotImplementedError"), z3.And(z3.Not(is_two_body(t, n)), z3.BoolVal(oc.value.type_name == "ValueError")))
                exc.append(z3.Implies(pc, z3.And(want, unchanged)))
            else:
                post.append(z3.Implies(pc, z3.And(is_transition(t), is_two_body(t, n), m.val == z3.Store(val, dd, builder), m.has == z3.Store(has, dd, True))))
        chk.smt(f"{tag}.ens.whole_map[only_the_decay_of_that_node]", [], conj(post), function=FSEL, replay=S.search_selector, tactics=("default",))
        chk.smt(f"{tag}.ens.raises_exactly_as_documented_and_leaves_the_map", [], conj(exc), function=FSEL, replay=S.search_selector, tactics=("default",))
        chk.struct(f"{tag}.paths.return_and_both_raises", {(oc.kind, getattr(oc.value, "type_name", "")) for oc in outs} == {("return", ""), ("raise", "NotImplementedError"), ("raise", "ValueError")},
                   FSEL, witness=[(oc.kind, getattr(oc.value, "type_name", "")) for oc in outs], lemma=True, replay=S.search_selector)
    # unknown selection type
    ex = mk_ex("assign_unknown")
    self_rec, has, val = _smap_self()
    st = State()
    st.ghost["roots"] = {"self": self_rec}
    tag = "assign[unknown_selection_type]"
    outs = _run(chk, ex, reg["object"], [self_rec, SV(z3.Const("selection", Obj), "obj"), SV(builder, "obj")], st, tag, FSEL, S.search_selector)
    if outs is not None:
        n_paths += len(outs)
        ok = all(oc.kind == "raise" and oc.value.type_name == "NotImplementedError" and _final_map(oc).val.eq(val) and _final_map(oc).has.eq(has) for oc in outs)
        chk.struct(f"{tag}.ens.raises_NotImplementedError_and_leaves_the_map", bool(outs) and ok, FSEL, witness=[(oc.kind, str(oc.value)) for oc in outs], replay=S.search_selector)
    return n_paths


def getitem_and_init(chk: Check) -> int:
    H, D = real()
    n_paths = 0
    ex = mk_ex("getitem")
    self_rec, has, val = _smap_self()
    d = z3.Const("decay", Obj)
    ex.sv_class[str(d)] = D.TwoBodyDecay
    st = State()
    st.ghost["roots"] = {"self": self_rec}
    outs = _run(chk, ex, H.DynamicsSelector.__getitem__, [self_rec, SV(d, "obj")], st, "getitem[TwoBodyDecay]", FGET, S.search_selector)
    if outs is not None:
        n_paths += len(outs)
        post = []
        for oc in outs:
            pc = pc_of(oc.st)
            if oc.kind == "raise":
                post.append(z3.Implies(pc, z3.And(z3.BoolVal(oc.value.type_name == "KeyError"), z3.Not(z3.Select(has, d)))))
            else:
                post.append(z3.Implies(pc, z3.And(z3.Select(has, d), ex.as_obj(oc.value) == z3.Select(val, d))))
        chk.smt("getitem[TwoBodyDecay].ens.value_of_that_key_or_KeyError", [], conj(post), function=FGET, replay=S.search_selector, tactics=("default",))
    # __init__ over 2 abstract transitions with 2 nodes each
    from ampform.dynamics.builder import create_non_dynamic

    ex = mk_ex("init")
    # assumed contract of the dependency (qrules): the identical-particle combinatorics of a transition without identical
    # final-state particles is the transition itself; _freeze is the identity on a frozen transition
    ex.natives["_perform_combinatorics"] = lambda ex_, st_, args, kw: iter([(st_, [args[0]])])
    ex.natives["_freeze"] = lambda ex_, st_, args, kw: iter([(st_, args[0])])
    chk.assume("native contract: _perform_combinatorics(t) = [t] for a transition without identical final-state particles; _freeze is the identity (qrules)")
    ts = [Rec("Transition", {"topology": Rec("Topology", {"nodes": [0, 1]}), "__obj__": z3.Const(f"transition{i}", Obj)}) for i in range(2)]
    self_rec = Rec("DynamicsSelector", {}, real_class=H.DynamicsSelector)
    st = State()
    st.pc += [is_two_body(t.attrs["__obj__"], ex.as_obj(n)) for t in ts for n in (0, 1)]
    st.ghost["roots"] = {"self": self_rec}
    outs = _run(chk, ex, H.DynamicsSelector.__init__, [self_rec, ts], st, "init[2_transitions_x_2_nodes]", FINIT, S.search_selector)
    if outs is not None:
        n_paths += len(outs)
        want = [decay_of(t.attrs["__obj__"], ex.as_obj(n)) for t in ts for n in (0, 1)]
        post = []
        opaque = [oc for oc in outs if oc.kind != "raise" and not isinstance(oc.st.ghost["roots"]["self"].attrs.get("_DynamicsSelector__choices", {}), dict)]
        if opaque:  # the map was built by a call the executor does not model: its content is unknown, not wrong
            chk.struct("init[2_transitions_x_2_nodes].result_visible_to_the_executor", False, FINIT, lemma=True, replay=S.search_selector,
                       witness=str(opaque[0].st.ghost["roots"]["self"].attrs.get("_DynamicsSelector__choices"))[:200])
            outs = []
        for oc in outs:
            pc = pc_of(oc.st)
            if oc.kind == "raise":
                post.append(z3.Not(pc))
                continue
            ch = oc.st.ghost["roots"]["self"].attrs.get("_DynamicsSelector__choices", {})
            keys = [ex.as_obj(k) for k in ch]
            post.append(z3.Implies(pc, z3.And(z3.BoolVal(bool(ch) and all(v is create_non_dynamic for v in ch.values())), *[z3.Or(*[k == d for k in keys]) for d in want],
                                              *[z3.Or(*[k == d for d in want]) for k in keys])))
        if post:
            chk.smt("init.ens.every_node_decay_maps_to_create_non_dynamic_and_nothing_else", [], conj(post), function=FINIT, replay=S.search_selector, tactics=("default",))
    return n_paths


# ---- (b) _generate_kinematic_variable_set --------------------------------------------------------------------------------
def _abstract_transition():
    t, n = z3.Const("transition", Obj), z3.Const("node_id", Obj)
    return Rec("Transition", {"topology": SV(topo_of(t), "obj"), "__obj__": t}), SV(n, "obj"), t, n


def _l_spec(ex: Ex, t, n, l_none: bool):
    """Obj term of the expected angular_momentum."""
    none = ex.as_obj(None)
    box = ex.func("box_int", "int", "obj")
    if not l_none:
        return box(l_of(t, n))
    return z3.If(z3.IsInt(spin_of(t, n)), box(z3.ToInt(spin_of(t, n))), none)


def vs_spec(ex: Ex, t, n, l_none: bool):
    topo = topo_of(t)
    return mkvs(mass_sym(topo, parent_id(t, n)), mass_sym(topo, child_id[0](t, n)), mass_sym(topo, child_id[1](t, n)), theta_sym(topo, child_id[0](t, n)),
                phi_sym(topo, child_id[0](t, n)), _l_spec(ex, t, n, l_none))


def variable_set(chk: Check) -> int:
    H, _ = real()
    n_paths = 0
    for l_none in (False, True):
        ex = mk_ex(f"varset{int(l_none)}", l_none=l_none)
        ex.sv_class[str(z3.Const("node_id", Obj))] = int
        tr, node, t, n = _abstract_transition()
        st = State()
        st.pc += [is_two_body(t, n), spin_of(t, n) >= 0]
        tag = f"variable_set[l_magnitude={'None' if l_none else 'int'}]"
        outs = _run(chk, ex, H._generate_kinematic_variable_set, [tr, node], st, tag, FVS, S.search_model)
        if outs is None:
            continue
        n_paths += len(outs)
        topo = topo_of(t)
        want = {
            "incoming_state_mass": mass_sym(topo, parent_id(t, n)), "outgoing_state_mass1": mass_sym(topo, child_id[0](t, n)),
            "outgoing_state_mass2": mass_sym(topo, child_id[1](t, n)), "helicity_theta": theta_sym(topo, child_id[0](t, n)), "helicity_phi": phi_sym(topo, child_id[0](t, n)),
            "angular_momentum": _l_spec(ex, t, n, l_none),
        }
        clauses: dict[str, list] = {k: [] for k in want}
        no_raise, wrong = [], []
        for oc in outs:
            pc = pc_of(oc.st)
            if oc.kind == "raise" or not isinstance(oc.value, Rec):
                no_raise.append(z3.Not(pc))
                continue
            for k, w in want.items():
                clauses[k].append(z3.Implies(pc, ex.as_obj(oc.value.attrs[k]) == w))
            # false whatever the code does: "the two daughters' mass symbols coincide"
            wrong.append(z3.Implies(pc, z3.And(ex.as_obj(oc.value.attrs["outgoing_state_mass1"]) == want["outgoing_state_mass2"],
                                               ex.as_obj(oc.value.attrs["outgoing_state_mass1"]) == want["outgoing_state_mass1"])))
        text = {"incoming_state_mass": "mass_symbol_of_the_parent_edge", "outgoing_state_mass1": "mass_symbol_of_children0", "outgoing_state_mass2": "mass_symbol_of_children1",
                "helicity_theta": "theta_of_the_node", "helicity_phi": "phi_of_the_node", "angular_momentum": "l_magnitude_else_int_spin_if_integral_else_None"}
        for k, cs in clauses.items():
            chk.smt(f"{tag}.ens.{k}[{text[k]}]", [], conj(cs), function=FVS, replay=S.search_model, tactics=("default",))
        chk.smt(f"{tag}.ens.never_raises_for_a_decay_node", [], conj(no_raise), function=FVS, replay=S.search_model, tactics=("default",))
        if l_none:
            chk.struct(f"{tag}.paths>=2", len(outs) >= 2, FVS, witness=len(outs), lemma=True, replay=S.search_model)
            none_paths = [pc_of(oc.st) for oc in outs if oc.kind == "return" and isinstance(oc.value, Rec) and oc.value.attrs["angular_momentum"] is None]
            chk.struct(f"{tag}.has_a_path_returning_None", bool(none_paths), FVS, witness=len(outs), lemma=True, replay=S.search_model)
            # (when the code has no such path the lemma above is the failing guard; the cover then degenerates)
            chk.cover(f"{tag}.cover.half_integer_spin_gives_None", [z3.Or(*none_paths) if none_paths else z3.BoolVal(True), spin_of(t, n) * 2 == 3], function=FVS)
        else:
            chk.mustfail("selftest.variable_set.children1_mass_for_children0", [], conj(wrong), function=FVS, tactics=("default",))
    return n_paths


# ---- (c) __formulate_dynamics -------------------------------------------------------------------------------------------------
def formulate_dynamics(chk: Check, max_params: int) -> int:
    import sympy as sp

    H, _ = real()
    meth = getattr(H.HelicityAmplitudeBuilder, "_HelicityAmplitudeBuilder__formulate_dynamics")
    n_paths = 0
    for l_none in (False, True):
        for j in range(max_params + 1):
            ex = mk_ex(f"dyn{int(l_none)}{j}", l_none=l_none)
            ex.sv_class[str(z3.Const("node_id", Obj))] = int
            tr, node, t, n = _abstract_transition()
            selector, has, val = _smap_self()
            pd_has, pd_val = z3.Array("defaults_has", Obj, B), z3.Array("defaults_val", Obj, Obj)
            ingredients = Rec("_HelicityModelIngredients", {"parameter_defaults": Rec("dict", {"__map__": SMap(pd_has, pd_val)})},
                              getattr(H, "_HelicityModelIngredients", None))
            self_rec = Rec("HelicityAmplitudeBuilder", {"_HelicityAmplitudeBuilder__dynamics": selector, "_HelicityAmplitudeBuilder__ingredients": ingredients}, real_class=H.HelicityAmplitudeBuilder)

            def sv_call(e, st_, f, args, kwargs, j=j):
                a = [f.t, e.as_obj(args[0]), e.as_obj(args[1])]
                pars = [b_par[i](*a) for i in range(j)]
                if j > 1:
                    e.assume(st_, z3.Distinct(*pars))
                yield st_, (SV(b_expr(*a), "obj"), {_HK(SV(pars[i], "obj")): SV(b_val[i](*a), "obj") for i in range(j)})

            ex.sv_call = sv_call
            st = State()
            st.pc += [is_two_body(t, n), spin_of(t, n) >= 0]
            st.ghost["roots"] = {"self": self_rec, "selector": selector}
            tag = f"formulate_dynamics[l_magnitude={'None' if l_none else 'int'}/builder_returns_{j}_parameters]"
            outs = _run(chk, ex, meth, [self_rec, tr, node], st, tag, FDYN, S.search_model)
            if outs is None:
                continue
            n_paths += len(outs)
            d = decay_of(t, n)
            choice = z3.Select(val, d)
            a = [choice, particle_of(t, n), vs_spec(ex, t, n, l_none)]
            spec_has, spec_val, n_conf = pd_has, pd_val, z3.IntVal(0)
            for i in range(j):
                p, v = b_par[i](*a), b_val[i](*a)
                n_conf = n_conf + z3.If(z3.And(z3.Select(spec_has, p), z3.Select(spec_val, p) != v), 1, 0)
                spec_has, spec_val = z3.Store(spec_has, p, True), z3.Store(spec_val, p, v)
            ret, defaults, warns, frame, no_raise, wrongnode = [], [], [], [], [], []
            for oc in outs:
                pc = pc_of(oc.st)
                if oc.kind == "raise":
                    no_raise.append(z3.Not(pc))
                    continue
                roots = oc.st.ghost["roots"]
                m = roots["self"].attrs["_HelicityAmplitudeBuilder__ingredients"].attrs["parameter_defaults"].attrs["__map__"]
                sel = roots["self"].attrs["_HelicityAmplitudeBuilder__dynamics"].attrs["_DynamicsSelector__choices"].attrs["__map__"]
                frame.append(z3.Implies(pc, z3.And(sel.has == has, sel.val == val)))
                w = sum(1 for x in oc.st.trace if x == "warning")
                if oc.value is sp.S.One and not isinstance(oc.value, SV):
                    ret.append(z3.Implies(pc, z3.Not(z3.Select(has, d))))
                    defaults.append(z3.Implies(pc, z3.And(m.has == pd_has, m.val == pd_val)))
                    warns.append(z3.Implies(pc, z3.BoolVal(w == 0)))
                else:
                    ret.append(z3.Implies(pc, z3.And(z3.Select(has, d), ex.as_obj(oc.value) == b_expr(*a))))
                    defaults.append(z3.Implies(pc, z3.And(m.has == spec_has, m.val == spec_val)))
                    warns.append(z3.Implies(pc, n_conf == w))
                    other = z3.Const("other_node", Obj)
                    wrongnode.append(z3.Implies(pc, ex.as_obj(oc.value) == b_expr(choice, particle_of(t, n), vs_spec(ex, t, other, l_none))))
            chk.smt(f"{tag}.ens.returns_builder_of_this_decay_on_this_nodes_variable_set_else_1", [], conj(ret), function=FDYN, replay=S.search_model, tactics=("default",))
            chk.smt(f"{tag}.ens.defaults_merged_last_value_wins", [], conj(defaults), function=FDYN, replay=S.search_model, tactics=("default",))
            chk.smt(f"{tag}.ens.one_warning_per_conflicting_default_and_no_other", [], conj(warns), function=FDYN, replay=S.search_model, tactics=("default",))
            chk.smt(f"{tag}.ens.selector_unchanged", [], conj(frame), function=FDYN, replay=S.search_model, tactics=("default",))
            chk.smt(f"{tag}.ens.never_raises_for_a_decay_node", [], conj(no_raise), function=FDYN, replay=S.search_model, tactics=("default",))
            if not l_none and j == 1:
                rets = [oc for oc in outs if oc.kind == "return" and oc.st.trace]
                chk.cover(f"{tag}.cover.conflicting_default_path", [z3.Or(*[pc_of(oc.st) for oc in rets])] if rets else [z3.BoolVal(False)], function=FDYN)
                chk.mustfail("selftest.formulate_dynamics.variable_set_of_another_node", [], conj(wrongnode), function=FDYN, tactics=("default",))
    return n_paths


def build_e3(chk: Check) -> None:
    for a in ASSUMED:
        chk.assume(a)
    kmax = 3 if chk.tier == "quick" else 4
    paths = 0
    for kind in ("str", "Particle"):
        for k in range(1, kmax + 1):
            paths += assign_by_name(chk, kind, k)
    paths += assign_one(chk)
    paths += getitem_and_init(chk)
    paths += variable_set(chk)
    paths += formulate_dynamics(chk, 2 if chk.tier == "quick" else 3)
    chk.extra["e3_paths_total"] = paths
    # composition: every operation's postcondition is a function of the previous map -> histories of any length
    chk.notes.append("histories: each assign postcondition expresses choices' as a function of choices, so a sequence of assignments is the composition of these functions (no bound on the length)")
