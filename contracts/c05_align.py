"""C05, clause 1 — spin alignment never changes a single-topology intensity (E1).

For a single-topology reaction with complete helicity sets the real aligned amplitude (AxisAngleAlignment / DalitzPlotDecomposition
`formulate_amplitude`, nested PoolSums unfolded by the real code) is, for each tuple of outer projections, a linear form in the
amplitude symbols A[lambda']. The matrix M (rows: outer projections, columns: amplitude symbols) is read off the REAL tree as the
coefficients of those symbols (no pattern matching on index chains), and
    ens   M^dagger M = 1   entrywise, for all rotation angles (SMT, each angle a (cos, sin) pair, half angles as needed)
which is equivalent to  sum_lambda |aligned_lambda|^2 = sum_lambda' |A_lambda'|^2  for ALL amplitude values -- the statement's
"exactly the intensity of the unaligned model at every event" (the angles' dependence on the event is irrelevant: it holds for
every angle value). Plus the per-spin lemma "D^j(alpha,beta,gamma) is unitary" for j = 0..5/2 on SymPy's explicit d-matrices.
"""

from __future__ import annotations

import itertools
import random

import sympy as sp
import z3
from sympy.physics.quantum.spin import Rotation, WignerD

from vlib import models, zoo
from vlib.core import Check
from vlib.tr import Cx, Tr, TrError

F_AXIS = "ampform.helicity.align.axisangle.AxisAngleAlignment.formulate_amplitude"
F_DPD = "ampform.helicity.align.dpd._formulate_aligned_amplitude"

SINGLE_TOPOLOGY = {
    # reaction -> alignments that apply (dpd needs exactly three final states)
    "jpsi_full_sigmabar_sigma": ["axis", "dpd1", "dpd2", "dpd3"],
    "lambdac_p_k_pi_Kstar": ["axis", "dpd1", "dpd2", "dpd3"],
    "lambdac_p_k_pi_L1520": ["axis", "dpd1", "dpd2", "dpd3"],
    "lambdac_p_k_pi_Delta": ["axis", "dpd1", "dpd2", "dpd3"],
    "d1_k_k_k0": ["axis", "dpd1", "dpd2", "dpd3"],
    "jpsi_full_p_pbar": ["axis"],
    "etac_lambda_lambdabar": ["axis"],
    "jpsi_full_gamma_pi0_pi0": ["axis", "dpd1", "dpd2", "dpd3"],
    "tau_nu_rho": ["axis"],  # massless spin-1/2 sibling of a massive spin-1 state
}
# axis-angle models that are formulated for the summation-range obligation only (their unitarity queries take > 25 min: three
# rotation chains of half-angle polynomials)
POOLS_ONLY = ["tau_nu_rho0_pi", "jpsi_gamma_pi0_pi0", "d0_k_3pi_cascade"]
QUICK = {"jpsi_full_sigmabar_sigma": ["axis", "dpd1", "dpd3"], "lambdac_p_k_pi_Kstar": ["axis", "dpd2"], "lambdac_p_k_pi_L1520": ["dpd1"], "d1_k_k_k0": ["axis", "dpd1"],
         "jpsi_full_p_pbar": ["axis"], "etac_lambda_lambdabar": ["axis"], "jpsi_full_gamma_pi0_pi0": ["axis", "dpd1"],
         "tau_nu_rho": ["axis"]}


def aligned_matrix(name: str, align: str, chk: Check | None = None, tag: str = "", replay=None):
    """(rows, amplitude atoms, M as SymPy entries, model) from the real aligned model."""
    from ampform.helicity import _unfold_poolsums

    cfg = models.Config(name, "helicity", alignment=align)
    model = models.make_builder(cfg).formulate()
    inten = model.intensity
    summand = inten.expression
    if not (summand.func == sp.Pow and summand.args[1] == 2 and isinstance(summand.args[0], sp.Abs)):
        raise TrError(f"intensity summand is not |amplitude|^2: {str(summand)[:80]}")
    aligned = summand.args[0].args[0]
    outer = [s for s, _ in inten.indices]
    pools = [list(v) for _, v in inten.indices]
    rows = []
    for combo in itertools.product(*pools):
        e = _unfold_poolsums(aligned.subs(dict(zip(outer, combo))))
        rows.append((combo, e))
    # alignment angles whose definition in the model is the literal 0 (zeta^i_k(k), C19) are not free
    zero_angles = {s: sp.S.Zero for s, d in model.kinematic_variables.items() if d == 0}
    if chk is not None and align.startswith("dpd"):
        zero_angles.update(massless_zero_angles(chk, model, tag, replay))
    rows = [(c, e.xreplace(zero_angles).doit() if zero_angles and e.has(*zero_angles) else e) for c, e in rows]
    atoms = sorted(set().union(*[e.atoms(sp.Indexed) for _, e in rows]), key=str)
    M = []
    for _, e in rows:
        if e == 0:
            M.append([sp.S.Zero] * len(atoms))
            continue
        poly = sp.Poly(e, *atoms)
        if poly.total_degree() > 1 or poly.coeff_monomial(1) != 0:
            raise TrError("aligned amplitude is not a homogeneous linear form in the amplitude symbols")
        M.append([poly.coeff_monomial(a) for a in atoms])
    return rows, atoms, M, model


def physical_point(model, seed: int):
    """A random physical event (final-state momenta summing to zero, energies from the particles' masses) and the numeric
    values of all kinematic variables of `model` on it, computed with the REAL definitions (doit + lambdify numpy)."""
    import numpy as np

    from vlib import e1

    rnd = np.random.default_rng(seed)
    fs = sorted(model.reaction_info.final_state)
    ps = {i: rnd.normal(size=3) * rnd.uniform(0.3, 1.5) for i in fs[:-1]}
    ps[fs[-1]] = -sum(ps.values())
    ev = {}
    for i in fs:
        m = float(model.reaction_info.final_state[i].mass)
        E = float(np.sqrt(m * m + ps[i] @ ps[i]))
        for c, v in zip("Exyz", (E, *ps[i])):
            ev[f"p{i}_{c}"] = float(v)
    values = {}
    for sym, definition in model.kinematic_variables.items():
        values[sym] = complex(np.asarray(e1.numeric_real_tree(definition, ev)).reshape(-1)[0]).real
    return ev, values


def numeric_replay(name: str, align: str, seeds=(5, 6, 7)):
    """Evaluate the real aligned and unaligned intensities on physical events with random amplitude values."""
    from ampform.helicity import _unfold_poolsums

    models.quiet()
    plain = models.make_builder(models.Config(name, "helicity", relabel=align.startswith("dpd"))).formulate()
    try:
        alig = models.make_builder(models.Config(name, "helicity", alignment=align)).formulate()
    except Exception as e:  # noqa: BLE001  -- "formulating an aligned model succeeds for every final-state spin"
        return {"reproduced": True, "input": {"reaction": name, "alignment": align}, "observed": f"formulate() raised {type(e).__name__}: {e}", "expected": "an aligned model"}
    for seed in seeds:
        rnd = random.Random(seed)
        amps = sorted(set(plain.amplitudes) | set(alig.amplitudes), key=str)
        vals = {a: (0 if (plain.amplitudes.get(a, alig.amplitudes.get(a)) == 0) else complex(rnd.uniform(-1, 1), rnd.uniform(-1, 1))) for a in amps}
        ev, kin = physical_point(alig, seed)

        def value(model):
            e = _unfold_poolsums(model.intensity.evaluate()).xreplace(vals)
            point = {s: sp.Float(kin[s]) for s in e.free_symbols if s in kin}
            return complex(sp.N(e.xreplace(point).doit()))

        va, vp = value(alig), value(plain)
        if abs(va - vp) > 1e-8 * (1 + abs(vp)):
            return {"reproduced": True, "input": {"reaction": name, "alignment": align, "four_momenta": ev, "amplitude_values": {str(k): str(v) for k, v in list(vals.items())[:8]},
                                                  "alignment_angles": {str(k): v for k, v in kin.items() if any(t in str(k) for t in ("zeta", "alpha", "beta", "gamma"))}},
                    "observed": f"aligned intensity {va}", "expected": f"unaligned intensity {vp}"}
    return {"reproduced": False, "note": f"aligned == unaligned on {len(seeds)} physical events"}


import re

import contracts.specs_kin  # noqa: F401  (Kallen spec)


def massless_zero_angles(chk: Check, model, tag: str, replay) -> dict:
    """DPD alignment angles zeta^i_{k(j)} of a MASSLESS state i vanish on the physical region (helicity of a massless particle
    is Lorentz invariant): obligation  N = D > 0  for the real formulate_zeta_angle(i,k,j) = +-acos(N/D) with m_i := 0, under
    m_0 > m_1+m_2+m_3, the masses >= 0 and the invariant masses strictly inside their thresholds. Returns {zeta: 0}."""
    from ampform.kinematics.angles import formulate_zeta_angle

    out = {}
    for sym in model.kinematic_variables:
        mt = re.fullmatch(r"\\zeta\^(\d)_\{(\d)\((\d)\)\}", sym.name)
        if not mt:
            continue
        i, k, j = map(int, mt.groups())
        if i == 0 or float(model.reaction_info.final_state[i].mass) != 0.0:
            continue
        zsym, expr = formulate_zeta_angle(i, k, j)
        fn = "ampform.kinematics.angles.formulate_zeta_angle"
        if expr == 0:
            out[sym] = sp.S.Zero
            continue
        core = -expr if expr.could_extract_minus_sign() else expr
        if not isinstance(core, sp.acos) or zsym != sym:
            chk.struct(f"massless_alignment_angle.shape[{tag}]:{sym.name}", False, fn, witness=str(expr)[:200], lemma=True, replay=replay)
            continue
        arg = core.args[0]
        num, den = arg.as_numer_denom()
        tr = Tr("ml")
        m = {n: sp.Symbol(f"m_{n}", nonnegative=True) for n in (0, 1, 2, 3)}
        sig = {1: sp.Symbol("m_23", nonnegative=True), 2: sp.Symbol("m_13", nonnegative=True), 3: sp.Symbol("m_12", nonnegative=True)}
        tr.bind(m[i], Cx(0))
        mv = {n: tr.scalar(m[n]).re for n in m}
        sv = {n: tr.scalar(sig[n]).re for n in sig}
        pairs = {1: (2, 3), 2: (1, 3), 3: (1, 2)}
        region = [mv[0] > mv[1] + mv[2] + mv[3]] + [mv[n] >= 0 for n in (1, 2, 3)]
        for n, (a, b) in pairs.items():
            region += [sv[n] > mv[a] + mv[b], sv[n] < mv[0] - mv[n]]
        region.append(sv[1] ** 2 + sv[2] ** 2 + sv[3] ** 2 == mv[0] ** 2 + mv[1] ** 2 + mv[2] ** 2 + mv[3] ** 2)
        try:
            nv, dv = tr.scalar(num), tr.scalar(den)
        except TrError as e:
            chk.struct(f"massless_alignment_angle.translatable[{tag}]:{sym.name}", False, fn, witness=str(e)[:200], lemma=True, replay=replay)
            continue
        from vlib import e1

        e1.add_wd(chk, f"massless_alignment_angle[{tag}]:{sym.name}", tr, region, fn, replay=replay)
        chk.smt(f"massless_alignment_angle_is_zero[{tag}]:{sym.name}", region + tr.hyps(), z3.And(nv.eq(dv), dv.re > 0), function=fn, lemma=True, replay=replay,
                tactics=("default", "nlsat"))
        out[sym] = sp.S.Zero
    return out


def _declare_half_angles(tr: Tr, exprs) -> None:
    for e in exprs:
        for w in sp.sympify(e).atoms(WignerD):
            for ang in w.args[3:]:
                for s in ang.free_symbols:
                    if s not in tr.angle_base:
                        tr.declare_angle(s, 2)


def build_alignment(chk: Check) -> None:
    models.quiet()
    plan = QUICK if chk.tier == "quick" else SINGLE_TOPOLOGY
    chk.assume("structural enumeration: single-topology zoo reactions with complete helicity sets x {axis-angle, DPD reference 1..3}; all angles and all amplitude values symbolic")
    for name, aligns in plan.items():
        for align in aligns:
            fn = F_AXIS if align == "axis" else F_DPD
            tag = f"{name}/{align}"
            rep = lambda _m=None, name=name, align=align: numeric_replay(name, align)  # noqa: E731
            try:
                models.make_builder(models.Config(name, "helicity", alignment=align)).formulate()
                chk.struct(f"aligned_model.formulates[{tag}]", True, fn, replay=rep)
            except Exception as e:  # noqa: BLE001
                chk.struct(f"aligned_model.formulates[{tag}]", False, fn, witness=f"{type(e).__name__}: {e}"[:300], replay=rep)
                continue
            try:
                rows, atoms, M, model = aligned_matrix(name, align, chk, tag, rep)
            except Exception as e:  # noqa: BLE001
                chk.struct(f"alignment.linear_form[{tag}]", False, fn, witness=f"{type(e).__name__}: {e}"[:300], lemma=True, replay=rep)
                continue
            chk.struct(f"alignment.linear_form[{tag}]", True, fn, lemma=True)
            chk.struct(f"alignment.square[{tag}]", len(rows) == len(atoms), fn, witness={"outer_tuples": len(rows), "amplitude_symbols": len(atoms)}, replay=rep,
                       note="complete helicity sets: as many amplitude symbols as outer projection tuples")
            tr = Tr("al")
            try:
                _declare_half_angles(tr, [x for r in M for x in r])
                Mv = [[tr.scalar(sp.sympify(x)) for x in r] for r in M]
            except TrError as e:
                chk.struct(f"alignment.translatable[{tag}]", False, fn, witness=str(e)[:200], lemma=True, replay=rep)
                continue
            n = len(atoms)
            hyps = tr.hyps()
            for a in range(n):
                for b in range(a, n):
                    acc = Cx(0)
                    for k in range(len(rows)):
                        acc = acc + Mv[k][a].conj() * Mv[k][b]
                    chk.smt(f"alignment.unitary[{tag}]:({a};{b})", hyps, acc.eq(Cx(1 if a == b else 0)), function=fn, replay=rep, tactics=("default", "nlsat"), lemma=True,
                            note="for ALL angle values (stronger than the statement, which is about physical events): a refutation counts only if the physical replay reproduces it")
            chk.extra.setdefault("alignment_matrices", []).append({"model": tag, "dimension": n})


def inner_pools(chk: Check) -> None:
    """Axis-angle alignment: every inner sum over a rotated spin projection of final state i runs over exactly the helicities of THAT
    state: -s_i..s_i in unit steps, without 0 iff state i is massless with integer spin (create_spin_range's contract, C05 part 1).
    Real models; the index names lambda_<i>^... carry the state id."""
    import re

    from ampform.sympy import PoolSum

    from contracts.c05_spin import _spec_list

    names = [n for n, al in (QUICK if chk.tier == "quick" else SINGLE_TOPOLOGY).items() if "axis" in al] + POOLS_ONLY
    for name in names:
        tag = f"{name}/axis"

        def run(name=name):
            from vlib import zoo

            r = zoo.reaction(name, "helicity")
            model = models.make_builder(models.Config(name, "helicity", alignment="axis")).formulate()
            bad, n = [], 0
            for ps in model.intensity.expression.atoms(PoolSum):
                for idx, values in ps.indices:
                    m = re.match(r"\\?lambda_(\d+)", idx.name)
                    if not m or int(m.group(1)) not in r.final_state:
                        continue
                    i = int(m.group(1))
                    part = r.final_state[i]
                    want = [sp.Rational(x.numerator, x.denominator) for x in _spec_list(int(2 * part.spin), part.mass == 0.0)]
                    n += 1
                    if sorted(values) != sorted(want):
                        bad.append(f"sum over {idx} (state {i} = {part.name}, spin {part.spin}, mass {part.mass}) runs over {tuple(values)}, expected {tuple(want)}")
            return bad, n

        def rep(_m=None, run=run, tag=tag):
            try:
                bad, n = run()
            except Exception as e:  # noqa: BLE001
                return {"reproduced": True, "input": tag, "observed": f"{type(e).__name__}: {e}"[:300]}
            return {"reproduced": bool(bad) or n == 0, "input": f"inner alignment sums of the axis-angle model of {tag}", "observed": bad[:4] or f"{n} sums", "expected": "each pool = helicities of the rotated state"}

        r = rep()
        chk.struct(f"alignment.inner_pools_are_the_helicities_of_the_rotated_state[{tag}]", not r["reproduced"], F_AXIS, witness=r, replay=rep, bounded=True)


def wigner_unitarity_lemmas(chk: Check) -> None:
    """D^j(alpha, beta, gamma) is unitary for j = 0..3/2 (quick) / 0..5/2 (thorough), on SymPy's explicit d^j."""
    al, be, ga = sp.symbols("alpha beta gamma", real=True)
    jmax = sp.Rational(3, 2) if chk.tier == "quick" else sp.Rational(5, 2)
    j = sp.Integer(0)
    FW = "ampform.helicity.align.axisangle.formulate_helicity_rotation"
    while j <= jmax:
        ms = [-j + k for k in range(int(2 * j) + 1)]
        tr = Tr("dj")
        for s in (al, be, ga):
            tr.declare_angle(s, 2)
        D = {(m, mp): tr.scalar(Rotation.D(j, m, mp, al, be, ga)) for m in ms for mp in ms}
        for a, b in itertools.combinations_with_replacement(ms, 2):
            acc = Cx(0)
            for m in ms:
                acc = acc + D[(m, a)].conj() * D[(m, b)]
            chk.smt(f"L-unit[j={j}]:({a};{b})".replace(",", ";"), tr.hyps(), acc.eq(Cx(1 if a == b else 0)), function=FW, lemma=True, tactics=("default", "nlsat"),
                    replay=lambda m: {"reproduced": False})
        j += sp.Rational(1, 2)


def rotation_pools(chk: Check) -> None:
    """formulate_helicity_rotation succeeds for every spin 0..5/2, massive and massless, and sums over exactly the range
    create_spin_range's contract gives (bounded instances on the real function)."""
    from ampform.helicity.align.axisangle import formulate_helicity_rotation

    from contracts.c05_spin import _spec_list

    a, b, c, i = sp.symbols("a b c i")
    for n in range(0, 6):
        for flag in (False, True):
            s = sp.Rational(n, 2)
            want = [sp.Rational(x.numerator, x.denominator) for x in _spec_list(n, flag)]

            def rep(_m=None, s=s, flag=flag, want=want):
                try:
                    ps = formulate_helicity_rotation(s, -s, i, a, b, c, no_zero_spin=flag)
                    got = list(ps.indices[0][1])
                except Exception as e:  # noqa: BLE001
                    return {"reproduced": True, "input": {"spin": str(s), "no_zero_spin": flag}, "observed": f"{type(e).__name__}: {e}", "expected": str(want)}
                return {"reproduced": got != want, "input": {"spin": str(s), "no_zero_spin": flag}, "observed": str(got), "expected": str(want)}

            r = rep()
            chk.struct(f"formulate_helicity_rotation.pool[2s={n} no_zero={flag}]", not r["reproduced"], "ampform.helicity.align.axisangle.formulate_helicity_rotation",
                       witness=r, replay=rep, bounded=True)
