"""C19 — Dalitz-plot-decomposition angles satisfy their geometry and identities.

Under contract (kinematics/angles.py): formulate_scattering_angle, formulate_theta_hat_angle,
formulate_zeta_angle, _create_mass_mandelstam_pair; consumer (shape only)
helicity/align/dpd.py: _DPDAlignmentWignerGenerator.__call__.

Structural arguments: all index pairs / triples in {0,1,2,3} are enumerated (16 + 16 + 64 real calls).
Continuous variables: no bound. Two worlds are used:
  R  (Dalitz variables)  m_1,m_2,m_3 >= 0, m_0 > m_1+m_2+m_3, sigma_k = m_ij^2 inside the box
     (m_i+m_j)^2 <= sigma_k <= (m_0-m_k)^2, sigma_1+sigma_2+sigma_3 = sum m^2, Kibble <= 0 ("interior": all strict);
  EV (events) p_2, p_3 free three-vectors, p_1 = -(p_2+p_3), E_i > 0, m_i^2 := E_i^2-|p_i|^2 >= 0, m_0 := E_1+E_2+E_3,
     sigma_k := (p_i+p_j)^2 -- the masses are *derived* (bound), so that the lemmas are polynomial identities.
Every returned arccosine is acos(N / (sqrt(Kallen) sqrt(Kallen))): this shape is itself an obligation; the chain is
  L-id   4 m0^2 (D^2 - N^2) = - w Kibble         (polynomial identity on the real N, D; w from DESIGN A7)
  range  w >= 0, Kibble <= 0, D > 0  =>  -1 <= N/D <= 1
and the geometric / trigonometric clauses are reduced to polynomial identities on the real numerators and Kallen
factors (lemmas A2, A8, A9, A10, A11, A12 of DESIGN Appendix A) plus small compositions over abstract variables.

Groups of obligations (prefix of the obligation name):
  S  call interface: one structural obligation per call (returns / raises <type>), helper and consumer shape
  A  clause (a): shape, L-id, well-definedness in the interior of the box, range; per call
  B  clause (b): theta-hat (A8, A2, composition, sign convention, antisymmetry, zero diagonal)
  C  clause (c): frame lemma A10 (contracts of the matrix classes; pure boost; the tree returned by ampform's own
     compute_helicity_angles), A9, A2, composition; A12 for theta_ij + theta_ji = pi
  D  clause (d): zeta^i_k(0) = zeta^i_k(i), zeta^i_k(k) = 0, sum rule A11 for the six permutations
  E  every physical event is a point of R (sum rule of the sigma's, Kibble <= 0, bounding box)
Property-level obligations over R carry a replay that evaluates the real functions at the counter-model; lemma obligations
and compositions over abstract variables carry `search` (real functions vs. an independent numpy four-vector computation on
a deterministic sample of events, including massless, equal-mass and nearly collinear ones).
"""

from __future__ import annotations

import inspect
import itertools
import math

import numpy as np
import sympy as sp
import z3

from ampform.kinematics import angles as A
from ampform.kinematics import phasespace as PS
from contracts import specs_kin as K
from vlib import e1
from vlib.core import Check
from vlib.tr import Ang, Cx, Tr, TrError, matmul, matvec

LEVEL = "proof"
ENGINE = "E1 exprvc"
CLAIM = (
    "For all masses and all Dalitz points (no numeric bound), with the 16+16+64 index pairs/triples in {0,1,2,3} enumerated exhaustively by calling the real functions: every returned arccosine argument N/D satisfies 4 m0^2 (D^2-N^2) = -w Kibble (z3, per call) hence lies in [-1,1] on the physical region; theta-hat_i(j) = +-angle(p_i,p_j) in the parent rest frame (Gram identities on events), antisymmetric, zero diagonal; theta_ij = helicity angle of particle i in the (ij) rest frame (frame lemma for Bz Ry Rz and for the pure boost + invariants identities) and cos theta_ij = -cos theta_ji; zeta^i_k(0) = zeta^i_k(i), zeta^i_k(k) = 0 and the sum rule zeta^a_b(c) = zeta^a_b(a) + zeta^a_a(c) for all six permutations (cos and sign-of-sin identities); which index combinations raise, and with which exception type, is stated per call."
)
NOTE = (
    "Trusted: z3 5.1 / cvc5 'unsat' answers; the SymPy-node -> SMT translation table (vlib/tr.py), cross-checked on every run at each cover model against numpy evaluation of the real tree; floats treated as exact reals (A-arith: an arccosine argument equal to +-1 in exact arithmetic, e.g. zeta^i for a massless particle i, may round outside [-1,1] in floating point; not decided here). Trig axioms are used only instantiated, each premise a named obligation: acos is the inverse of cos on [0,pi] (with sin(acos u) = +sqrt(1-u^2), acos u = pi only for u = -1); acos(-u) = pi - acos(u); x in [0,2pi), y in [0,pi], cos x = cos y, sin x >= 0 => x = y. The helicity frame Bz Ry(-theta) Rz(-phi) needs P not parallel to z (atan2(0,0)); the pure-boost variant has no such restriction. Lemma obligations are internal proof steps; a refuted lemma is reported as a violation only when the property-level numeric replay (real ampform functions vs. an independent numpy four-vector computation) reproduces a failure."
)
TECHNIQUE = (
    "contract-based deductive verification: E1 denotational VCs on the SymPy trees returned by the real functions for every "
    "index combination; lemma chain of polynomial identities (Gram, Kibble/Gram-cubic, frame lemma) + sign steps discharged by z3 / nlsat / cvc5"
)
F = "ampform.kinematics.angles."
F_SCAT = F + "formulate_scattering_angle"
F_HAT = F + "formulate_theta_hat_angle"
F_ZETA = F + "formulate_zeta_angle"
F_PAIR = F + "_create_mass_mandelstam_pair"
F_DPD = "ampform.helicity.align.dpd._DPDAlignmentWignerGenerator.__call__"

# the symbols exactly as the library creates them
M0, M1, M2, M3 = sp.symbols("m_(:4)", nonnegative=True)
MS = {0: M0, 1: M1, 2: M2, 3: M3}
RS = {1: sp.Symbol("m_23", nonnegative=True), 2: sp.Symbol("m_13", nonnegative=True), 3: sp.Symbol("m_12", nonnegative=True)}  # sigma_k = RS[k]**2
NAMES = ["m_0", "m_1", "m_2", "m_3", "m_12", "m_13", "m_23"]
CYCLIC = {(1, 2), (2, 3), (3, 1)}  # theta-hat_i(j) is the positive angle for these (DPD paper, Eq. A3), minus it for the mirrored pairs
FUNCS = {"scat": (A.formulate_scattering_angle, 2, F_SCAT), "hat": (A.formulate_theta_hat_angle, 2, F_HAT), "zeta": (A.formulate_zeta_angle, 3, F_ZETA)}


def tag(idx) -> str:
    return "".join(str(i) for i in idx)


def others(*ids):
    return sorted({1, 2, 3} - set(ids))


# ---------------------------------------------------------------------------------------------------------
# specification of the call interface: which index combinations are defined
# ---------------------------------------------------------------------------------------------------------
def expected_outcome(kind: str, idx) -> str | None:
    """None: returns (symbol, expression); otherwise the name of the exception type."""
    if kind == "scat":
        i, j = idx
        return None if {i, j} <= {1, 2, 3} and i != j else "ValueError"
    if kind == "hat":
        return None if set(idx) <= {1, 2, 3} else "ValueError"
    i, j, k = idx
    if i == 0:
        return None if {j, k} <= {1, 2, 3} else "ValueError"  # zeta^0_j(k) is theta-hat_j(k)
    if j == 0:
        return "NotImplementedError"  # no alignment angle for the decaying particle as aligned subsystem
    return None


def call(kind: str, idx):
    f = FUNCS[kind][0]
    try:
        sym, expr = f(*idx)
    except Exception as e:  # noqa: BLE001
        return ("raise", type(e).__name__, str(e)[:80])
    return ("ok", sym, expr)


def w_of(kind: str, idx):
    """DESIGN A7: the factor w in D^2 - N^2 = -4 w G."""
    if kind == "scat":
        return RS[others(*idx)[0]]
    if kind == "hat" or idx[0] == 0:
        return M0
    return MS[idx[0]]


def unpack(expr):
    """0 -> (0, None);  acos(u) -> (1, atom);  -acos(u) -> (-1, atom)."""
    if expr == 0:
        return 0, None
    if isinstance(expr, sp.acos):
        return 1, expr
    if isinstance(expr, sp.Mul) and len(expr.args) == 2 and expr.args[0] == -1 and isinstance(expr.args[1], sp.acos):
        return -1, expr.args[1]
    raise TrError(f"returned expression is not 0 / acos / -acos: {str(expr)[:80]}")


def split(arg):
    """N / (sqrt(Kallen) sqrt(Kallen)) -> (N, [Kallen, Kallen]) read off the real tree (no CAS routine involved)."""
    ks, num = [], []
    for f in sp.Mul.make_args(arg):
        if isinstance(f, sp.Pow) and f.exp == sp.Rational(-1, 2) and isinstance(f.base, PS.Kallen):
            ks.append(f.base)
        else:
            num.append(f)
    n = sp.Mul(*num, evaluate=False) if len(num) != 1 else num[0]
    if len(ks) != 2 or any(isinstance(p, sp.Pow) and p.exp.is_negative for p in sp.preorder_traversal(n)):
        raise TrError(f"arccosine argument is not N/(sqrt(Kallen) sqrt(Kallen)): {str(arg)[:100]}")
    return n, ks


# ---------------------------------------------------------------------------------------------------------
# numeric side: real functions evaluated with numpy, independent four-vector geometry
# ---------------------------------------------------------------------------------------------------------
_LAMB: dict = {}


def real_value(kind: str, idx, pt: dict) -> float:
    """Value of the expression returned by the REAL function at the point pt (names as in NAMES); nan if it raises there."""
    key = (kind, tuple(idx))
    if key not in _LAMB:
        out = call(kind, idx)
        _LAMB[key] = sp.lambdify([sp.Symbol(n, nonnegative=True) for n in NAMES], out[2].doit(), "numpy") if out[0] == "ok" else None
    fn = _LAMB[key]
    if fn is None:
        return float("nan")
    with np.errstate(all="ignore"):
        try:
            v = complex(fn(*[np.float64(pt[n]) for n in NAMES]))
        except ZeroDivisionError:
            return float("nan")
    return v.real if abs(v.imag) < 1e-300 else float("nan")


def real_cos_args(kind: str, idx, pt: dict) -> list[float]:
    """Values of the arguments of all arccosines in the tree returned by the real function."""
    out = call(kind, idx)
    if out[0] != "ok":
        return []
    vals = []
    for a in out[2].atoms(sp.acos):
        key = ("arg", a)
        if key not in _LAMB:
            _LAMB[key] = sp.lambdify([sp.Symbol(n, nonnegative=True) for n in NAMES], a.args[0].doit(), "numpy")
        with np.errstate(all="ignore"):
            try:
                vals.append(float(np.real(_LAMB[key](*[np.float64(pt[n]) for n in NAMES]))))
            except ZeroDivisionError:
                vals.append(float("nan"))
    return vals


def make_event(ms, p2, p3) -> dict:
    p2, p3 = np.asarray(p2, float), np.asarray(p3, float)
    P = {1: -(p2 + p3), 2: p2, 3: p3}
    E = {i: float(np.sqrt(ms[i - 1] ** 2 + P[i] @ P[i])) for i in (1, 2, 3)}
    pt = {"m_0": E[1] + E[2] + E[3], "m_1": float(ms[0]), "m_2": float(ms[1]), "m_3": float(ms[2])}
    for k in (1, 2, 3):
        i, j = others(k)
        pt[RS[k].name] = float(np.sqrt(max((E[i] + E[j]) ** 2 - (P[i] + P[j]) @ (P[i] + P[j]), 0.0)))
    return {"pt": pt, "P": P, "E": E}


def event_from_model(model) -> dict:
    """Concrete physical event from a counter-/cover-model of the EV world."""
    p2 = np.array([float(model.get(f"p2{c}", 0)) for c in "xyz"])
    p3 = np.array([float(model.get(f"p3{c}", 0)) for c in "xyz"])
    P = {1: -(p2 + p3), 2: p2, 3: p3}
    ms = [math.sqrt(max(float(model.get(f"E{i}", 0)) ** 2 - P[i] @ P[i], 0.0)) for i in (1, 2, 3)]
    return make_event(ms, p2, p3)


def events(n=160):
    """Deterministic sample of three-body events: generic, equal-mass, massless, small/large momenta, nearly collinear
    (approaching the boundary of the Dalitz region)."""
    rng = np.random.default_rng(19)
    for k in range(n):
        c = k % 5
        if c == 0:
            ms = rng.uniform(0.05, 1.2, size=3)
        elif c == 1:
            ms = rng.choice([0.0, 0.14, 0.5, 1.0], size=3)
        elif c == 2:
            ms = np.full(3, rng.uniform(0.1, 1.0))
        elif c == 3:
            ms = np.array([0.0, 0.0, 0.0]) if k % 2 else np.array([0.0, rng.uniform(0.1, 1), rng.uniform(0.1, 1)])[rng.permutation(3)]
        else:
            ms = rng.uniform(0.05, 1.2, size=3)
        scale = (0.2, 1.0, 4.0)[k % 3]
        p2 = rng.normal(size=3) * scale
        p3 = rng.normal(size=3) * scale
        if k % 7 == 6:
            p3 = -rng.uniform(0.2, 2.0) * p2 + 1e-3 * scale * rng.normal(size=3)
        yield make_event(ms, p2, p3)


def geo_angle(ev, i, j) -> float:
    a, b = ev["P"][i], ev["P"][j]
    return float(np.arccos(np.clip(a @ b / math.sqrt((a @ a) * (b @ b)), -1, 1)))


def geo_helicity(ev, i, j) -> float:
    """Helicity angle of particle i in the rest frame of (ij): pure boost along P = p_i + p_j, polar angle w.r.t. P."""
    P, EP = ev["P"][i] + ev["P"][j], ev["E"][i] + ev["E"][j]
    nP = math.sqrt(P @ P)
    n = P / nP
    M = math.sqrt(EP * EP - nP * nP)
    q, Eq = ev["P"][i], ev["E"][i]
    qpar = q @ n
    qperp = q - qpar * n
    qstar = (EP / M) * (qpar - (nP / EP) * Eq)
    return float(np.arccos(np.clip(qstar / math.sqrt(qstar * qstar + qperp @ qperp), -1, 1)))


def _close(a, b, tol=2e-6):
    return math.isfinite(a) and math.isfinite(b) and abs(a - b) <= tol


def check_event(ev, only=None):
    """All clauses of C19 on one event, real functions vs independent geometry. Returns a failure dict or None."""
    pt = ev["pt"]
    nondeg = all(ev["P"][i] @ ev["P"][i] > 1e-12 for i in (1, 2, 3))
    info = {"input": {**pt, "p1": ev["P"][1].tolist(), "p2": ev["P"][2].tolist(), "p3": ev["P"][3].tolist()}}

    def fail(what, observed, expected):
        return {"reproduced": True, "what": what, **info, "observed": observed, "expected": expected}

    def val(kind, idx):
        """value, or None when an argument is within rounding of +-1 (exactly on the boundary: A-arith)."""
        args = real_cos_args(kind, idx, pt)
        if any(math.isfinite(a) and 1 - 1e-9 <= abs(a) for a in args):
            return None
        return real_value(kind, idx, pt)

    if only in (None, "range") and nondeg:
        for kind, (f, n, _) in FUNCS.items():
            for idx in itertools.product(range(4), repeat=n):
                for a in real_cos_args(kind, idx, pt):
                    if not (math.isfinite(a) and abs(a) <= 1 + 1e-9):
                        return fail(f"arccosine argument of {kind}{idx} outside [-1,1] at a physical point", a, "in [-1,1]")
    if only in (None, "hat") and nondeg:
        for i, j in itertools.product((1, 2, 3), repeat=2):
            v = val("hat", (i, j))
            if v is None:
                continue
            want = 0.0 if i == j else (1 if (i, j) in CYCLIC else -1) * geo_angle(ev, i, j)
            if not _close(v, want):
                return fail(f"theta_hat_{i}({j}) vs signed angle between p_{i} and p_{j} in the parent rest frame", v, want)
            w = val("hat", (j, i))
            if w is not None and not _close(v, -w, 1e-9):
                return fail(f"theta_hat_{i}({j}) + theta_hat_{j}({i}) != 0", v + w, 0.0)
    if only in (None, "scat") and nondeg:
        for i, j in itertools.permutations((1, 2, 3), 2):
            v, w = val("scat", (i, j)), val("scat", (j, i))
            if v is None or w is None:
                continue
            want = geo_helicity(ev, i, j)
            if not _close(v, want):
                return fail(f"theta_{i}{j} vs helicity angle of particle {i} in the ({i}{j}) rest frame from four-momenta", v, want)
            if not _close(v + w, math.pi):
                return fail(f"theta_{i}{j} + theta_{j}{i} != pi", v + w, math.pi)
    if only in (None, "zeta", "sumrule") and nondeg:
        for i, k in itertools.product((1, 2, 3), repeat=2):
            a, b = val("zeta", (i, k, 0)), val("zeta", (i, k, i))
            if a is not None and b is not None and not _close(a, b, 1e-9):
                return fail(f"zeta^{i}_{k}(0) != zeta^{i}_{k}({i})", a, b)
        for i, k in itertools.product((0, 1, 2, 3), (1, 2, 3)):
            a = val("zeta", (i, k, k))
            if a is not None and not _close(a, 0.0, 1e-12):
                return fail(f"zeta^{i}_{k}({k}) != 0", a, 0.0)
        for a_, b_, c_ in itertools.permutations((1, 2, 3)):
            x, y, z = val("zeta", (a_, b_, c_)), val("zeta", (a_, b_, a_)), val("zeta", (a_, a_, c_))
            if None in (x, y, z):
                continue
            if not _close(x, y + z):
                return fail(f"sum rule zeta^{a_}_{b_}({c_}) = zeta^{a_}_{b_}({a_}) + zeta^{a_}_{a_}({c_})", x, y + z)
    return None


def search(model=None, only=None):
    """Property-level replay for lemma obligations and abstract compositions: the REAL functions on a deterministic
    sample of physical events against an independent numpy four-vector computation; first failing input is reported."""
    n = 0
    for ev in events():
        n += 1
        bad = check_event(ev, only)
        if bad is not None:
            return bad
    return {"reproduced": False, "note": f"no property-level failure on {n} sampled events (clauses: {only or 'all'})"}


def search_only(only):
    return lambda model=None: search(model, only)


# ---------------------------------------------------------------------------------------------------------
# SMT side helpers
# ---------------------------------------------------------------------------------------------------------
KIB = PS.Kibble(RS[1] ** 2, RS[2] ** 2, RS[3] ** 2, M0, M1, M2, M3)


def dot(a, b):
    return sum(u * v for u, v in zip(a, b))


def ident_tr(name="id") -> Tr:
    """Identity world: sigma_3 eliminated by sigma_1+sigma_2+sigma_3 = sum m^2 (bound, not constrained)."""
    t = Tr(name)
    t.bind(RS[3] ** 2, t.val(M0**2 + M1**2 + M2**2 + M3**2 - RS[1] ** 2 - RS[2] ** 2))
    return t


def region(t: Tr, strict: bool = True, kibble: bool = True):
    """The physical region R over the library's own symbols (interior when strict)."""
    mv = {i: t.scalar(MS[i]).re for i in range(4)}
    rv = {k: t.scalar(RS[k]).re for k in (1, 2, 3)}
    hy = [mv[0] > mv[1] + mv[2] + mv[3]]
    for k in (1, 2, 3):
        i, j = others(k)
        hy += [rv[k] > mv[i] + mv[j], rv[k] < mv[0] - mv[k]] if strict else [rv[k] >= mv[i] + mv[j], rv[k] <= mv[0] - mv[k]]
    hy.append(rv[1] * rv[1] + rv[2] * rv[2] + rv[3] * rv[3] == mv[0] * mv[0] + mv[1] * mv[1] + mv[2] * mv[2] + mv[3] * mv[3])
    if kibble:
        kv = t.scalar(KIB).re
        hy.append(kv < 0 if strict else kv <= 0)
    return hy


def ev_world(name="ev"):
    """EV world. Masses are *derived*: m_i^2 := E_i^2-|p_i|^2 bound to the node m_i**2, m_0 := E1+E2+E3,
    sigma_k := (E_i+E_j)^2 - |p_i+p_j|^2 bound to the node m_ij**2."""
    t = Tr(name)
    p2 = [z3.Real(f"p2{c}") for c in "xyz"]
    p3 = [z3.Real(f"p3{c}") for c in "xyz"]
    P = {1: [-(u + v) for u, v in zip(p2, p3)], 2: p2, 3: p3}
    E = {i: z3.Real(f"E{i}") for i in (1, 2, 3)}
    n2 = {i: dot(P[i], P[i]) for i in (1, 2, 3)}
    mass2 = {i: E[i] * E[i] - n2[i] for i in (1, 2, 3)}
    Mz = E[1] + E[2] + E[3]
    for i in (1, 2, 3):
        t.bind(MS[i] ** 2, Cx(mass2[i]))
    t.bind(M0, Cx(Mz))

    def minv2(i, j):
        s = [u + v for u, v in zip(P[i], P[j])]
        return (E[i] + E[j]) * (E[i] + E[j]) - dot(s, s)

    for k in (1, 2, 3):
        t.bind(RS[k] ** 2, Cx(minv2(*others(k))))
    evh = [E[i] > 0 for i in (1, 2, 3)] + [mass2[i] >= 0 for i in (1, 2, 3)]
    return t, P, E, Mz, n2, mass2, minv2, evh


def point_of(model):
    if not model or not all(n in model for n in NAMES):
        return None
    return {n: float(model[n]) for n in NAMES}


def _angdiff(a, b):
    return abs(((a - b + math.pi) % (2 * math.pi)) - math.pi)


def rep_same_angle(ka, ia, sign, kb, ib, only):
    """Replay of 'real(ka,ia) == sign * real(kb,ib)' (kb None: zero) at the counter-model point of R."""

    def rep(model):
        pt = point_of(model)
        if pt is None:
            return search(model, only)
        a = real_value(ka, ia, pt)
        b = sign * real_value(kb, ib, pt) if kb else 0.0
        bad = not (math.isfinite(a) and math.isfinite(b)) or _angdiff(a, b) > 1e-7
        return {"reproduced": bool(bad), "input": pt, "expected": b, "observed": a}

    return rep


def rep_finite(kind, idx):
    def rep(model):
        pt = point_of(model)
        if pt is None:
            return search(model, "range")
        v = real_value(kind, idx, pt)
        return {"reproduced": bool(not math.isfinite(v)), "input": pt, "expected": "finite real value", "observed": v}

    return rep


def rep_call(kind, idx, exp):
    def rep(model=None):
        out = call(kind, idx)
        got = None if out[0] == "ok" else out[1]
        return {"reproduced": got != exp, "input": list(idx), "expected": exp or "returns", "observed": got or "returns"}

    return rep


def add_wd(chk, prefix, tr, requires, function, replay):
    """One obligation per well-definedness condition of the translator (names free of commas and of tree text)."""
    for k, (what, cond, nside) in enumerate(tr.wd, 1):
        word = "sqrt>=0" if what.startswith("sqrt") else "denominator!=0" if what.startswith("denom") else "acos-range" if what.startswith("acos") else "wd"
        chk.smt(f"{prefix}.wd{k}[{word}]", requires + list(tr.assm) + list(tr.side[:nside]), cond, function=function, replay=replay)


def ev_cover_check(tr, value, real_expr):
    """cover_check in the EV world: the masses of the real tree are computed from the event of the model."""

    def check(model):
        ev = event_from_model(model)
        return e1.cover_check(tr, value, real_expr)({**model, **ev["pt"]})

    return check


_SAMPLE = make_event([0.31, 0.52, 0.17], [0.41, -0.23, 0.37], [-0.15, 0.62, 0.29])


def sample_value(node) -> float:
    return float(node.doit().xreplace({sp.Symbol(n, nonnegative=True): v for n, v in _SAMPLE["pt"].items()}))


def pick(node, targets: dict):
    """Discovery (numeric, at one sample event) of which geometric quantity a Kallen factor denotes; the proof is the
    SMT obligation generated for the choice."""
    v = sample_value(node)
    return min(targets, key=lambda k: abs(targets[k] - v))


# ---------------------------------------------------------------------------------------------------------
# group S: call interface (which combinations raise), shapes, helper, consumer
# ---------------------------------------------------------------------------------------------------------
def group_S(chk: Check) -> dict:
    results = {}
    for kind, (f, n, fn) in FUNCS.items():
        sig = inspect.signature(f)
        chk.struct(f"S.args_are_structural[{kind}]", all(str(p.annotation) in {"int", "<class 'int'>"} for p in sig.parameters.values()) and len(sig.parameters) == n,
                   fn, witness=str(sig), lemma=True, replay=search)
        for idx in itertools.product(range(4), repeat=n):
            out = call(kind, idx)
            results[(kind, idx)] = out
            exp = expected_outcome(kind, idx)
            got = None if out[0] == "ok" else out[1]
            ok = got == exp and (out[0] != "ok" or (isinstance(out[1], sp.Symbol) and bool(out[1].is_real)))
            chk.struct(f"S.call.{kind}[{tag(idx)}]:{'returns' if exp is None else 'raises ' + exp}", ok, fn,
                       witness=f"observed: {'returns ' + str(out[1]) if out[0] == 'ok' else out[1] + ': ' + out[2]}", replay=rep_call(kind, idx, exp))
    # _create_mass_mandelstam_pair(i) = (m_i, sigma_i) with sigma_i the squared mass of the pair complementary to i
    for i in (1, 2, 3):
        try:
            got = A._create_mass_mandelstam_pair(i)
        except Exception as e:  # noqa: BLE001
            got = f"{type(e).__name__}: {e}"
        chk.struct(f"S.mass_mandelstam_pair[{i}]==(m_{i} sigma_{i})", got == (MS[i], RS[i] ** 2), F_PAIR, witness=str(got), lemma=True, replay=search_only("sumrule"))
    # consumer: the DPD Wigner generator asks only for defined combinations and stores exactly the returned expression
    try:
        from ampform.helicity.align import dpd
        from sympy.physics.quantum.spin import Rotation

        half = sp.Rational(1, 2)
        for ref in (1, 2, 3):
            bad = []
            gen = dpd._DPDAlignmentWignerGenerator(ref)
            for rot, ali in itertools.product(range(4), (1, 2, 3)):
                try:
                    d = gen(half, half, -half, rot, ali)
                    zs, ze = A.formulate_zeta_angle(rot, ali, ref)
                    if d != Rotation.d(half, half, -half, zs) or gen.angle_definitions.get(zs) != ze:
                        bad.append((rot, ali, "shape"))
                except Exception as e:  # noqa: BLE001
                    bad.append((rot, ali, type(e).__name__))
            chk.struct(f"S.consumer.dpd[reference={ref}]:defined for rotated 0..3 x aligned 1..3", not bad, F_DPD, witness=str(bad), lemma=True, replay=search_only("zeta"))
        gen = dpd._DPDAlignmentWignerGenerator(1)
        chk.struct("S.consumer.dpd[j=0]:no angle needed", gen(sp.S.Zero, 0, 0, 1, 2) == 1 and not gen.angle_definitions, F_DPD, lemma=True, replay=search_only("zeta"))
    except ImportError as e:
        chk.struct("S.consumer.dpd.importable", False, F_DPD, witness=str(e), lemma=True, replay=search)
    return results


# ---------------------------------------------------------------------------------------------------------
# group A: every arccosine argument lies in [-1,1] on the physical region
# ---------------------------------------------------------------------------------------------------------
def range_composition(w_name: str):
    """w >= 0, Kibble <= 0, D = ra rb > 0 and the identity 4 m0^2 (D^2-N^2) = -w Kibble give -1 <= N/D <= 1."""
    n, kv, ra, rb, u, m0, wr = (z3.Real(x) for x in ("N", "Kibble", "sqrt_Ka", "sqrt_Kb", "u", "m_0", w_name))
    d2 = ra * ra * rb * rb
    hyps = [4 * m0 * m0 * (d2 - n * n) == -(wr * wr) * kv, kv <= 0, m0 > 0, ra > 0, rb > 0, u * ra * rb == n]
    return hyps, z3.And(u >= -1, u <= 1)


def group_A(chk: Check, results: dict) -> None:
    # the nested classes are used through their contracts: body meets spec (also part of C20)
    x, y, z = sp.symbols("x y z", real=True)
    t = Tr("kal")
    node = PS.Kallen(x, y, z)
    chk.smt("A.Kallen.evaluate==spec", t.hyps(), t.val(node.evaluate()).eq(K._kallen(t, node)), function="ampform.kinematics.phasespace.Kallen.evaluate", lemma=True, replay=search)
    t = Tr("kib")
    chk.smt("A.Kibble.evaluate==spec", t.hyps(), t.val(KIB.evaluate()).eq(K._kibble(t, KIB)), function="ampform.kinematics.phasespace.Kibble.evaluate", lemma=True, replay=search)
    for (kind, idx), out in results.items():
        if expected_outcome(kind, idx) is not None or out[0] != "ok":
            continue
        fn = FUNCS[kind][2]
        base = f"A.{kind}[{tag(idx)}]"
        expr = out[2]

        def shape(expr=expr):
            s, atom = unpack(expr)
            return (s, atom, *split(atom.args[0])) if atom is not None else (0, None, None, None)

        got = chk.guarded(base + ".shape(0 or +-acos(N over sqrtK sqrtK))", shape, fn, replay=search)
        if got is None or got[1] is None:
            continue
        _, atom, N, ks = got
        ti = ident_tr()
        n, la, lb = ti.scalar(N).re, ti.scalar(ks[0]).re, ti.scalar(ks[1]).re
        m0v, w2, kv = ti.scalar(M0).re, ti.scalar(w_of(kind, idx) ** 2).re, ti.scalar(KIB).re
        chk.smt(base + f".L-id:4 m0^2 (D^2-N^2)==-{w_of(kind, idx).name}^2 Kibble", [], 4 * m0v * m0v * (la * lb - n * n) == -w2 * kv,
                function=fn, lemma=True, replay=search)
        tw = Tr("wd")
        req = region(tw, strict=True, kibble=False)
        tw.scalar(atom.args[0])
        add_wd(chk, base, tw, req, fn, replay=rep_finite(kind, idx))
        hyps, claim = range_composition(w_of(kind, idx).name)
        chk.smt(base + ".acos_argument_in[-1 1]", hyps, claim, function=fn, replay=search_only("range"))
    # covers: the interior of R is inhabited and the translation of whole angles agrees with numpy on the real tree
    for kind, idx in (("scat", (1, 2)), ("hat", (3, 1)), ("hat", (1, 3)), ("zeta", (1, 2, 3)), ("zeta", (2, 2, 1)), ("zeta", (3, 2, 0))):
        out = results[(kind, idx)]
        if out[0] != "ok":
            continue
        tc = Tr("cov")
        req = region(tc, strict=True) + [tc.scalar(MS[x]).re > z3.RealVal("1/10") for x in (1, 2, 3)]  # generic point: arguments not exactly +-1
        ang = chk.guarded(f"A.cover.region[{kind}{tag(idx)}]", lambda tc=tc, out=out: tc.angle(out[2]), FUNCS[kind][2], replay=search)
        if ang is not None:
            chk.cover(f"A.cover.region[{kind}{tag(idx)}]", req + tc.hyps(), FUNCS[kind][2], model_check=e1.cover_check(tc, ang, out[2]))
    # engine self-test: the identity with the wrong w (sigma_1 instead of sigma_3 for theta_12) has to be refuted
    out = results[("scat", (1, 2))]
    if out[0] == "ok":
        try:
            N, ks = split(unpack(out[2])[1].args[0])
            ti = ident_tr()
            n, la, lb = ti.scalar(N).re, ti.scalar(ks[0]).re, ti.scalar(ks[1]).re
            m0v, w2, kv = ti.scalar(M0).re, ti.scalar(RS[1] ** 2).re, ti.scalar(KIB).re
            chk.mustfail("A.selftest.L-id_with_wrong_w", [], 4 * m0v * m0v * (la * lb - n * n) == -w2 * kv, function=F_SCAT)
        except TrError:
            pass
    hyps, _ = range_composition("m_0")
    chk.mustfail("A.selftest.range_is_not_open_interval", hyps, z3.And(z3.Real("u") > -1, z3.Real("u") < 1), function=F_SCAT)


# ---------------------------------------------------------------------------------------------------------
# group B: theta-hat_i(j) = +-angle(p_i, p_j) in the parent rest frame; antisymmetric; zero diagonal
# ---------------------------------------------------------------------------------------------------------
def same_angle(chk, name, fn, ea, eb, replay):
    """The two real trees denote the same angle (cos and sin) at every interior point of R."""
    t = Tr("same")
    req = region(t, strict=True)

    def thunk():
        return t.angle(ea), t.angle(eb)

    got = chk.guarded(name, thunk, fn, replay=search)
    if got is not None:
        a, b = got
        chk.smt(name, req + t.hyps(), z3.And(a.c == b.c, a.s == b.s), function=fn, replay=replay)


def group_B(chk: Check, results: dict) -> None:
    sample = {x: 4 * _SAMPLE["pt"]["m_0"] ** 2 * float(_SAMPLE["P"][x] @ _SAMPLE["P"][x]) for x in (1, 2, 3)}
    first_atom = None
    for i, j in itertools.permutations((1, 2, 3), 2):
        out = results[("hat", (i, j))]
        if out[0] != "ok":
            continue
        base = f"B.hat[{i}{j}]"
        try:
            s, atom = unpack(out[2])
            N, ks = split(atom.args[0]) if atom is not None else (None, None)
        except TrError:
            continue  # reported by A.hat[ij].shape
        want = 1 if (i, j) in CYCLIC else -1
        chk.struct(base + f".sign=={'+' if want > 0 else '-'}", s == want, F_HAT, witness=f"sign {s}",
                   replay=lambda model=None, i=i, j=j: search(model, "hat"))
        if atom is None:
            continue
        t, P, E, Mz, n2, mass2, minv2, evh = ev_world()
        n, lam = t.scalar(N).re, [t.scalar(k).re for k in ks]
        chk.smt(base + f".A8:N==4 m0^2 (p{i}.p{j})", [], n == 4 * Mz * Mz * dot(P[i], P[j]), function=F_HAT, lemma=True, replay=search_only("hat"))
        which = [pick(k, sample) for k in ks]
        for pos, (lv, xlab) in enumerate(zip(lam, which), 1):
            chk.smt(base + f".A2[{pos}]:Kallen==4 m0^2 |p|^2", [], lv == 4 * Mz * Mz * n2[xlab], function=F_HAT, lemma=True, replay=search_only("hat"))
        chk.struct(base + ".A2.factors_are_p_i_and_p_j", sorted(which) == sorted((i, j)), F_HAT, witness=str(which), lemma=True, replay=search_only("hat"))
        # abstract composition: N = 4 m0^2 d, Ka = 4 m0^2 a, Kb = 4 m0^2 b, |p_i|^2 = a > 0, |p_j|^2 = b > 0
        nn, ka, kb, m0, d, a, b, ra, rb, ri, rj, u, c = (z3.Real(x) for x in "N Ka Kb m_0 dot a b sqrt_Ka sqrt_Kb norm_i norm_j u cos_angle".split())
        facts = [nn == 4 * m0 * m0 * d, ka == 4 * m0 * m0 * a, kb == 4 * m0 * m0 * b, m0 > 0, a > 0, b > 0]
        chk.smt(base + ".wd:Kallen factors>0 when |p_i| |p_j|>0", facts, z3.And(ka > 0, kb > 0), function=F_HAT, replay=search_only("range"))
        roots = [ra > 0, rb > 0, ra * ra == ka, rb * rb == kb, ri > 0, rj > 0, ri * ri == a, rj * rj == b, u * ra * rb == nn, c * ri * rj == d]
        chk.smt(base + f".cos==(p{i}.p{j}) over (|p{i}||p{j}|)", facts + roots, u == c, function=F_HAT, replay=search_only("hat"))
        if first_atom is None or (chk.tier == "thorough" and (i, j) in CYCLIC):
            tcov, Pc, _, _, n2c, _, _, evhc = ev_world("evcov")
            uval = tcov.scalar(atom.args[0])
            if first_atom is None:
                chk.cover("B.cover.event[hat]", evhc + [n2c[x] > 0 for x in (1, 2, 3)] + tcov.hyps(), F_HAT, model_check=ev_cover_check(tcov, uval, atom.args[0]))
            first_atom = first_atom or (i, j, atom, t, P, n2, evh, n, Mz)
            if chk.tier == "thorough" and (i, j) in CYCLIC:
                # non-modular cross-check: the same statement directly on the real tree over event variables
                ri_, rj_ = z3.Real("norm_i"), z3.Real("norm_j")
                hy = evhc + tcov.hyps() + [ri_ > 0, rj_ > 0, ri_ * ri_ == n2c[i], rj_ * rj_ == n2c[j]]

                def rep_direct(model, i=i, j=j):
                    ev = event_from_model(model)
                    return check_event(ev, "hat") or {"reproduced": False, "input": ev["pt"]}

                chk.smt(base + ".direct:cos on the unfolded tree", hy, uval.re * ri_ * rj_ == dot(Pc[i], Pc[j]), function=F_HAT, replay=rep_direct, timeout=280)
    for i, j in ((1, 2), (2, 3), (1, 3)):
        a, b = results[("hat", (i, j))], results[("hat", (j, i))]
        if a[0] == "ok" and b[0] == "ok":
            same_angle(chk, f"B.hat.antisymmetric[{i}{j}]", F_HAT, a[2], -b[2], rep_same_angle("hat", (i, j), -1, "hat", (j, i), "hat"))
    for i in (1, 2, 3):
        a = results[("hat", (i, i))]
        if a[0] == "ok":
            same_angle(chk, f"B.hat.zero_diagonal[{i}{i}]", F_HAT, a[2], sp.S.Zero, rep_same_angle("hat", (i, i), 1, None, None, "hat"))
    if first_atom is not None:
        i, j, atom, t, P, n2, evh, n, Mz = first_atom
        chk.mustfail("B.selftest.A8_with_wrong_sign", [], n == -4 * Mz * Mz * dot(P[i], P[j]), function=F_HAT)


# ---------------------------------------------------------------------------------------------------------
# group C: theta_ij = helicity angle of particle i in the (ij) rest frame; theta_ij + theta_ji = pi
# ---------------------------------------------------------------------------------------------------------
def frame_lemmas(chk: Check) -> None:
    """A10. For a time-like P and any q, both for the helicity frame H(P) = Bz(|P|/E_P) Ry(-theta_P) Rz(-phi_P) built from
    the *contracts* of ampform's matrix classes (specs_kin, proved against the real classes in C08) and for the pure boost:
      H P = (M,0,0,0);  (H q)_z M |P| = E_P (q.P) - |P|^2 E_q;  (H q)_0 M = E_P E_q - q.P;  |H q|^2 = (H q)_0^2 - q^2
    (for the pure boost (B q)_z is replaced by the component of B q along P)."""
    fn = F_SCAT
    EP, Px, Py, Pz = (z3.Real(n) for n in ("P_E", "P_x", "P_y", "P_z"))
    Eq, qx, qy, qz = (z3.Real(n) for n in ("q_E", "q_x", "q_y", "q_z"))
    nP, PT, Mv = z3.Real("norm_P"), z3.Real("PT"), z3.Real("M")
    req0 = [nP > 0, nP * nP == Px * Px + Py * Py + Pz * Pz, EP > nP, Mv > 0, Mv * Mv == EP * EP - nP * nP]
    qP = qx * Px + qy * Py + qz * Pz
    q2 = Eq * Eq - qx * qx - qy * qy - qz * qz
    Pv = [Cx(EP), Cx(Px), Cx(Py), Cx(Pz)]
    qv = [Cx(Eq), Cx(qx), Cx(qy), Cx(qz)]
    # helicity frame (needs P not parallel to z for phi_P)
    t = Tr("frH")
    req = req0 + [PT > 0, PT * PT == Px * Px + Py * Py]
    theta, phi = Ang(Pz / nP, PT / nP), Ang(Px / PT, Py / PT)
    H = matmul(matmul(K.boostz_spec(t, Cx(nP / EP)), K.roty_spec(-theta)), K.rotz_spec(-phi))
    add_wd(chk, "C.frame.helicity", t, req, fn, replay=search_only("scat"))
    hy = req + t.hyps()
    HP, Hq = matvec(H, Pv), matvec(H, qv)
    rp = search_only("scat")
    chk.smt("C.frame.helicity.HP==(M 0 0 0)", hy, z3.And(HP[0].re == Mv, HP[1].re == 0, HP[2].re == 0, HP[3].re == 0), function=fn, lemma=True, replay=rp)
    chk.smt("C.frame.helicity.(Hq)_z", hy, Hq[3].re * Mv * nP == EP * qP - nP * nP * Eq, function=fn, lemma=True, replay=rp)
    chk.smt("C.frame.helicity.(Hq)_0", hy, Hq[0].re * Mv == EP * Eq - qP, function=fn, lemma=True, replay=rp)
    chk.smt("C.frame.helicity.|Hq|^2", hy, Hq[1].re * Hq[1].re + Hq[2].re * Hq[2].re + Hq[3].re * Hq[3].re == Hq[0].re * Hq[0].re - q2, function=fn, lemma=True, replay=rp)
    chk.cover("C.frame.helicity.cover", hy + [qx != 0, qy != 0, Eq > 0, q2 > 0], fn)
    # pure boost (no restriction on the direction of P)
    t = Tr("frB")
    B = K.boost_spec(t, Pv)
    add_wd(chk, "C.frame.boost", t, req0, fn, replay=search_only("scat"))
    hy = req0 + t.hyps()
    BP, Bq = matvec(B, Pv), matvec(B, qv)
    chk.smt("C.frame.boost.BP==(M 0 0 0)", hy, z3.And(BP[0].re == Mv, BP[1].re == 0, BP[2].re == 0, BP[3].re == 0), function=fn, lemma=True, replay=rp)
    chk.smt("C.frame.boost.(Bq).P", hy, (Bq[1].re * Px + Bq[2].re * Py + Bq[3].re * Pz) * Mv == EP * qP - nP * nP * Eq, function=fn, lemma=True, replay=rp)
    chk.smt("C.frame.boost.(Bq)_0", hy, Bq[0].re * Mv == EP * Eq - qP, function=fn, lemma=True, replay=rp)
    chk.smt("C.frame.boost.|Bq|^2", hy, Bq[1].re * Bq[1].re + Bq[2].re * Bq[2].re + Bq[3].re * Bq[3].re == Bq[0].re * Bq[0].re - q2, function=fn, lemma=True, replay=rp)
    chk.mustfail("C.selftest.frame_(Bq)_0_with_wrong_sign", hy, Bq[0].re * Mv == -(EP * Eq - qP), function=fn)
    frame_ampform(chk)


def frame_ampform(chk: Check) -> None:
    """The same frame lemma on the tree that ampform's own `compute_helicity_angles` returns for theta_1^{12} of a three-body
    isobar topology: Theta(BoostZ(|P|/E_P) RotY(-Theta(P)) RotZ(-Phi(P)) p_1), P = p_1 + p_2. This ties 'helicity angle
    computed from four-momenta' to the library's own four-momentum construction (matrix classes through their contracts)."""
    fn = F + "compute_helicity_angles"
    rp = search_only("scat")

    def make():
        from ampform.kinematics import lorentz as L
        from qrules.topology import create_isobar_topologies

        topo = create_isobar_topologies(3)[0]
        moms = L.create_four_momentum_symbols(topo)
        angs = A.compute_helicity_angles(moms, topo)
        theta = next(v for k, v in angs.items() if k.name == "theta_1^12")
        if not isinstance(theta, A.Theta) or theta.evaluate() != sp.acos(L.FourMomentumZ(theta.args[0]) / L.three_momentum_norm(theta.args[0])):
            raise TrError("theta_1^12 is not Theta(boosted p1) = acos(p_z/|p|)")
        t = Tr("amp")
        t.specs[A.Theta] = lambda tr, e: tr.angle(e.evaluate())
        t.specs[A.Phi] = lambda tr, e: tr.angle(e.evaluate())
        return t, moms, theta.args[0], t.val(theta.args[0])

    got = chk.guarded("C.frame.ampform.theta_1^12", make, fn, replay=rp)
    if got is None:
        return
    t, moms, boosted, v = got
    q, p2 = t.val(moms[1]), t.val(moms[2])
    Eq, qx, qy, qz = (c.re for c in q)
    EP, Px, Py, Pz = (a.re + b.re for a, b in zip(q, p2))
    nP, Mv = z3.Real("norm_P"), z3.Real("M")
    req = [nP > 0, nP * nP == Px * Px + Py * Py + Pz * Pz, EP > nP, Mv > 0, Mv * Mv == EP * EP - nP * nP, Px * Px + Py * Py > 0]
    qP = qx * Px + qy * Py + qz * Pz
    add_wd(chk, "C.frame.ampform", t, req, fn, replay=rp)
    hy = req + t.hyps()
    chk.smt("C.frame.ampform.(Hq)_z", hy, v[3].re * Mv * nP == EP * qP - nP * nP * Eq, function=fn, lemma=True, replay=rp)
    chk.smt("C.frame.ampform.(Hq)_0", hy, v[0].re * Mv == EP * Eq - qP, function=fn, lemma=True, replay=rp)
    chk.smt("C.frame.ampform.|Hq|^2", hy, v[1].re * v[1].re + v[2].re * v[2].re + v[3].re * v[3].re == v[0].re * v[0].re - (Eq * Eq - qx * qx - qy * qy - qz * qz),
            function=fn, lemma=True, replay=rp)

    def model_check(model):
        # e1.numeric_real_tree sorts ArraySymbols by their (symbolic) name, which fails for more than one momentum symbol; same comparison done here
        syms = [moms[k] for k in sorted(moms)]
        f = sp.lambdify(syms, boosted.doit(), "numpy", cse=True)
        num = np.asarray(f(*[np.array([[float(model.get(f"{s.name}_{c}", 0.0)) for c in "Exyz"]]) for s in syms]), dtype=complex).reshape(-1)
        smt_vals = np.array([e1.cfloat(c, model) for c in v])
        if not np.all(np.isfinite(num)):
            return f"real code gives non-finite values {num} at the cover model"
        err = float(np.max(np.abs(num - smt_vals)))
        return None if err <= 1e-6 * (1 + float(np.max(np.abs(num)))) else f"max |real - smt| = {err:.3e}: real={num} smt={smt_vals}"

    chk.cover("C.frame.ampform.cover", hy + [qx != 0, qy != 0, Eq * Eq - qx * qx - qy * qy - qz * qz > 0], fn, model_check=model_check)


def group_C(chk: Check, results: dict) -> None:
    frame_lemmas(chk)
    ev = _SAMPLE
    cov_done = False
    for i, j in itertools.permutations((1, 2, 3), 2):
        out = results[("scat", (i, j))]
        if out[0] != "ok":
            continue
        k = others(i, j)[0]
        base = f"C.scat[{i}{j}]"
        try:
            s, atom = unpack(out[2])
            N, ks = split(atom.args[0]) if atom is not None else (None, None)
        except TrError:
            continue
        chk.struct(base + ".sign==+", s == 1, F_SCAT, witness=f"sign {s}", replay=search_only("scat"))
        if atom is None:
            continue
        t, P, E, Mz, n2, mass2, minv2, evh = ev_world()
        n, lam = t.scalar(N).re, [t.scalar(kk).re for kk in ks]
        PP = [u + v for u, v in zip(P[i], P[j])]
        EP, nP2 = E[i] + E[j], dot(PP, PP)
        X = EP * dot(P[i], PP) - nP2 * E[i]  # M |P| (H p_i)_z
        Y = EP * E[i] - dot(P[i], PP)  # M (H p_i)_0
        sk = minv2(i, j)
        chk.smt(base + f".A9:N==4 m0 [E_P (p{i}.P) - |P|^2 E_{i}]", [], n == 4 * Mz * X, function=F_SCAT, lemma=True, replay=search_only("scat"))
        # numeric discovery of which factor is which
        Pn = ev["P"][i] + ev["P"][j]
        EPn = ev["E"][i] + ev["E"][j]
        skn = EPn**2 - Pn @ Pn
        targets = {"gram": 4 * ev["pt"]["m_0"] ** 2 * float(Pn @ Pn), "breakup": 4 * ((EPn * ev["E"][i] - ev["P"][i] @ Pn) ** 2 - skn * ev["pt"][f"m_{i}"] ** 2)}
        which = [pick(kk, targets) for kk in ks]
        rhs = {"gram": 4 * Mz * Mz * nP2, "breakup": 4 * (Y * Y - sk * mass2[i])}
        for pos, (lv, lab) in enumerate(zip(lam, which), 1):
            chk.smt(base + f".A2[{pos}]:Kallen==4 m0^2 |P|^2 or 4 sigma_{k} |p*|^2", [], lv == rhs[lab], function=F_SCAT, lemma=True, replay=search_only("scat"))
        chk.struct(base + ".A2.factors_are_gram_and_breakup", sorted(which) == ["breakup", "gram"], F_SCAT, witness=str(which), lemma=True, replay=search_only("scat"))
        # abstract composition with the frame lemma instantiated at P = p_i+p_j, q = p_i
        nn, ka, kb, m0, Xv, Yv, skv, mi2, nPv, Mk, ra, rb, hz, h0, hn, u, c = (
            z3.Real(x) for x in "N Ka Kb m_0 X Y sigma_k m_i_sq norm_P M_ij sqrt_Ka sqrt_Kb Hq_z Hq_0 norm_Hq u cos_helicity".split())
        facts = [nn == 4 * m0 * Xv, ka == 4 * m0 * m0 * nPv * nPv, kb == 4 * (Yv * Yv - skv * mi2), m0 > 0, nPv > 0, Mk > 0, Mk * Mk == skv,
                 hz * Mk * nPv == Xv, h0 * Mk == Yv, hn > 0, hn * hn == h0 * h0 - mi2]
        chk.smt(base + ".wd:Kallen factors>0 when |P|>0 and |p*|>0", facts, z3.And(ka > 0, kb > 0), function=F_SCAT, replay=search_only("range"))
        roots = [ra > 0, rb > 0, ra * ra == ka, rb * rb == kb, u * ra * rb == nn, c * hn == hz]
        chk.smt(base + f".cos==(H p{i})_z over |H p{i}| (helicity angle)", facts + roots, u == c, function=F_SCAT, replay=search_only("scat"))
        if not cov_done:
            cov_done = True
            tcov, Pc, _, _, n2c, _, _, evhc = ev_world("evcov")
            uval = tcov.scalar(atom.args[0])
            chk.cover("C.cover.event[scat]", evhc + [n2c[x] > 0 for x in (1, 2, 3)] + tcov.hyps(), F_SCAT, model_check=ev_cover_check(tcov, uval, atom.args[0]))
    # theta_ij + theta_ji = pi
    for i, j in ((1, 2), (2, 3), (1, 3)):
        a, b = results[("scat", (i, j))], results[("scat", (j, i))]
        if a[0] != "ok" or b[0] != "ok":
            continue
        base = f"C.scat.sum_pi[{i}{j}]"
        try:
            (sa, aa), (sb, ab) = unpack(a[2]), unpack(b[2])
            (Na, ka_), (Nb, kb_) = split(aa.args[0]), split(ab.args[0])
        except (TrError, AttributeError):
            continue
        ti = ident_tr()
        chk.smt(base + ".A12.numerators:N_ji==-N_ij", [], ti.scalar(Nb).re == -ti.scalar(Na).re, function=F_SCAT, lemma=True, replay=search_only("scat"))
        chk.smt(base + ".A12.denominators:D_ji^2==D_ij^2", [], ti.scalar(kb_[0]).re * ti.scalar(kb_[1]).re == ti.scalar(ka_[0]).re * ti.scalar(ka_[1]).re,
                function=F_SCAT, lemma=True, replay=search_only("scat"))
        chk.struct(base + ".signs==+ +", (sa, sb) == (1, 1), F_SCAT, witness=str((sa, sb)), replay=search_only("scat"))
        # composition over abstract variables (the direct statement with four root definitions is out of reach of nlsat)
        na, nb, r1, r2, r3, r4, ua, ub = (z3.Real(x) for x in "N_ij N_ji sqrt_Ka_ij sqrt_Kb_ij sqrt_Ka_ji sqrt_Kb_ji u_ij u_ji".split())
        hy = [nb == -na, r3 * r3 * r4 * r4 == r1 * r1 * r2 * r2, r1 > 0, r2 > 0, r3 > 0, r4 > 0, ua * r1 * r2 == na, ub * r3 * r4 == nb]
        chk.smt(base + f":cos theta_{i}{j}==-cos theta_{j}{i}", hy, ua == -ub, function=F_SCAT, replay=search_only("scat"))
        if (i, j) == (1, 2):
            chk.mustfail("C.selftest.A12_numerators_equal", [], ti.scalar(Nb).re == ti.scalar(Na).re, function=F_SCAT)
            chk.mustfail("C.selftest.cos_theta_12==cos_theta_21", hy, ua == ub, function=F_SCAT)
    chk.assume("AX-acos-neg (instantiated at u = cos theta_ij for the three pairs): acos(-u) = pi - acos(u) for u in [-1,1]; "
               "premises: A.scat[ij].acos_argument_in[-1 1] and C.scat.sum_pi[ij]:cos theta_ij==-cos theta_ji")


# ---------------------------------------------------------------------------------------------------------
# group D: alignment angles zeta
# ---------------------------------------------------------------------------------------------------------
def sumrule_composition():
    """A = acos(a), B = acos(b), C = acos(c) with a = N_A/D_A etc.  From the L-id of B and C, S1, S2, S3:
    cos A = cos(B+C), sin(B+C) >= 0, and B + C < 2 pi (one of b, c exceeds -1)."""
    nA, nB, nC, dA, dB, dC, kv, m0, ma, lam, a, b, c, sB, sC, g = (z3.Real(x) for x in "N_A N_B N_C D_A D_B D_C Kibble m_0 m_a Lambda a b c sin_B sin_C g".split())
    # step 1 (bridge): the three identities that mention Kibble, with g := D_B^2 - N_B^2 (= -4 m_a^2 G)
    lemmas = [4 * m0 * m0 * (dB * dB - nB * nB) == -(ma * ma) * kv, 4 * m0 * m0 * (dC * dC - nC * nC) == -(ma * ma) * kv,
              4 * m0 * m0 * (nA * lam - nB * nC) == ma * ma * kv, kv <= 0, m0 > 0, g == dB * dB - nB * nB]
    gform = [g >= 0, nC * nC + g == dC * dC, nA * lam == nB * nC - g]
    # step 2: the trigonometric statement from the g-form (root-free in Kibble, m_0, m_a)
    hyps = [nB * nB + g == dB * dB, *gform, nB + nC == lam, dB * dB * dC * dC == lam * lam * dA * dA,
            lam > 0, dA > 0, dB > 0, dC > 0, a * dA == nA, b * dB == nB, c * dC == nC,
            sB >= 0, sC >= 0, sB * sB == 1 - b * b, sC * sC == 1 - c * c]
    return lemmas, z3.And(*gform), hyps, {"cos A==cos(B+C)": a == b * c - sB * sC, "sin(B+C)>=0": sB * c + b * sC >= 0, "B+C<2pi": z3.Or(b > -1, c > -1)}


def group_D(chk: Check, results: dict) -> None:
    for i, k in itertools.product((1, 2, 3), repeat=2):
        a, b = results[("zeta", (i, k, 0))], results[("zeta", (i, k, i))]
        if a[0] == "ok" and b[0] == "ok":
            same_angle(chk, f"D.zeta^{i}_{k}(0)==zeta^{i}_{k}({i})", F_ZETA, a[2], b[2], rep_same_angle("zeta", (i, k, 0), 1, "zeta", (i, k, i), "zeta"))
    for i, k in itertools.product((0, 1, 2, 3), (1, 2, 3)):
        a = results[("zeta", (i, k, k))]
        if a[0] == "ok":
            same_angle(chk, f"D.zeta^{i}_{k}({k})==0", F_ZETA, a[2], sp.S.Zero, rep_same_angle("zeta", (i, k, k), 1, None, None, "zeta"))
    for j, k in itertools.product((1, 2, 3), repeat=2):
        a, b = results[("zeta", (0, j, k))], results[("hat", (j, k))]
        if a[0] == "ok" and b[0] == "ok":
            chk.struct(f"D.zeta^0_{j}({k})==theta_hat_{j}({k})", a[2] == b[2], F_ZETA, lemma=True, replay=search_only("zeta"))
    lem_c, gform_c, hyps_c, claims_c = sumrule_composition()
    chk.smt("D.sumrule.composition.bridge:L-id(B) L-id(C) S1 and Kibble<=0 give the g-form", lem_c, gform_c, function=F_ZETA, replay=search_only("sumrule"))
    for nm, cl in claims_c.items():
        chk.smt("D.sumrule.composition:" + nm, hyps_c, cl, function=F_ZETA, replay=search_only("sumrule"))
    first = None
    for a_, b_, c_ in itertools.permutations((1, 2, 3)):
        base = f"D.sumrule[{a_}{b_}{c_}]"
        outs = [results[("zeta", idx)] for idx in ((a_, b_, c_), (a_, b_, a_), (a_, a_, c_))]
        if any(o[0] != "ok" for o in outs):
            continue
        try:
            parts = [unpack(o[2]) for o in outs]
            if any(p[1] is None for p in parts):
                raise TrError("zero term in the sum rule")
            sp_ = [split(p[1].args[0]) for p in parts]
        except TrError as e:
            chk.struct(base + ".three arccosines", False, F_ZETA, witness=str(e), replay=search_only("sumrule"))
            continue
        chk.struct(base + ".three arccosines", True, F_ZETA)
        signs = [p[0] for p in parts]
        chk.struct(base + ".signs_equal", len(set(signs)) == 1, F_ZETA, witness=str(signs), replay=search_only("sumrule"))
        ti = ident_tr()
        (nA, kA), (nB, kB), (nC, kC) = [(ti.scalar(n).re, [ti.scalar(kk).re for kk in ks]) for n, ks in sp_]
        lam = ti.scalar(PS.Kallen(M0**2, MS[a_] ** 2, RS[a_] ** 2)).re
        m0v, ma2, kv = ti.scalar(M0).re, ti.scalar(MS[a_] ** 2).re, ti.scalar(KIB).re
        rp = search_only("sumrule")
        chk.smt(base + f".A11.S1:4 m0^2 (N_A Lambda - N_B N_C)==m_{a_}^2 Kibble", [], 4 * m0v * m0v * (nA * lam - nB * nC) == ma2 * kv, function=F_ZETA, lemma=True, replay=rp)
        chk.smt(base + f".A11.S2:N_B+N_C==Lambda=Kallen(m0^2 m{a_}^2 sigma{a_})", [], nB + nC == lam, function=F_ZETA, lemma=True, replay=rp)
        chk.smt(base + ".A11.S3:D_B^2 D_C^2==Lambda^2 D_A^2", [], kB[0] * kB[1] * kC[0] * kC[1] == lam * lam * kA[0] * kA[1], function=F_ZETA, lemma=True, replay=rp)
        tw = Tr("lam")
        req = region(tw, strict=True, kibble=False)
        chk.smt(base + ".Lambda>0 in the interior", req + tw.hyps(), tw.scalar(PS.Kallen(M0**2, MS[a_] ** 2, RS[a_] ** 2)).re > 0, function=F_ZETA, lemma=True, replay=rp)
        if first is None:
            first = (nB, nC, lam)
            tc = Tr("covD")
            reqc = region(tc, strict=True) + [tc.scalar(MS[x]).re > z3.RealVal("1/10") for x in (1, 2, 3)]
            got = chk.guarded("D.cover.sumrule", lambda tc=tc, outs=outs: (tc.angle(outs[0][2]), tc.angle(outs[1][2]) + tc.angle(outs[2][2])), F_ZETA, replay=search)
            if got is not None:
                chk.cover("D.cover.sumrule", reqc + tc.hyps(), F_ZETA, model_check=e1.cover_check(tc, got[1], outs[1][2] + outs[2][2]))
    if first is not None:
        nB, nC, lam = first
        chk.mustfail("D.selftest.S2_with_wrong_sign", [], nB + nC == -lam, function=F_ZETA)
    chk.mustfail("D.selftest.sumrule_sin(B+C)<0", hyps_c, claims_c["sin(B+C)>=0"] == z3.BoolVal(False), function=F_ZETA)
    chk.assume("AX-acos-inv (instantiated at every returned arccosine argument u): for u in [-1,1], acos(u) in [0,pi], cos(acos u) = u, sin(acos u) = +sqrt(1-u^2), "
               "and acos(u) = pi only for u = -1; premise: A.<call>.acos_argument_in[-1 1]")
    chk.assume("AX-cos-inj (instantiated at x = zeta^a_b(a)+zeta^a_a(c), y = zeta^a_b(c) for the six permutations): x in [0,2pi), y in [0,pi], cos x = cos y, sin x >= 0 => x = y; "
               "premises: D.sumrule.composition:cos A==cos(B+C) / :sin(B+C)>=0 / :B+C<2pi (whose hypotheses are the per-permutation obligations D.sumrule[abc].A11.S1/S2/S3, "
               ".Lambda>0, the L-id and wd obligations of the three calls in group A), D.sumrule[abc].signs_equal, and AX-acos-inv")


# ---------------------------------------------------------------------------------------------------------
# group E: every physical event is a point of R (so that clause (a), stated on R, covers the events of (b), (c))
# ---------------------------------------------------------------------------------------------------------
def group_E(chk: Check, results: dict) -> None:
    fn = "ampform.kinematics.phasespace.Kibble.evaluate"
    rp = search_only("range")
    t, P, E, Mz, n2, mass2, minv2, evh = ev_world()
    s = {k: t.scalar(RS[k] ** 2).re for k in (1, 2, 3)}
    chk.smt("E.event_in_R.sum:sigma1+sigma2+sigma3==sum m^2", [], s[1] + s[2] + s[3] == Mz * Mz + mass2[1] + mass2[2] + mass2[3], function=fn, lemma=True, replay=rp)
    # Kibble(event) = -64 m0^4 |p2 x p3|^2 <= 0: Gram identities (A2) fed forward into the real Kibble.evaluate(), then Lagrange (A3)
    t2, P2, E2, Mz2, n22, _, _, _ = ev_world("ev2")
    g = {i: z3.Real(f"g{i}") for i in (1, 2, 3)}
    for i in (1, 2, 3):
        node = PS.Kallen(RS[i] ** 2, MS[i] ** 2, M0**2)
        chk.smt(f"E.event_in_R.A2[{i}]:Kallen(sigma{i} m{i}^2 m0^2)==4 m0^2 |p{i}|^2", [], t.scalar(node).re == 4 * Mz * Mz * n2[i], function=fn, lemma=True, replay=rp)
        t2.bind(node, Cx(g[i]))
    cross = [P2[2][1] * P2[3][2] - P2[2][2] * P2[3][1], P2[2][2] * P2[3][0] - P2[2][0] * P2[3][2], P2[2][0] * P2[3][1] - P2[2][1] * P2[3][0]]
    c2 = dot(cross, cross)
    M4 = Mz2 * Mz2 * Mz2 * Mz2
    kval = chk.guarded("E.event_in_R.Kibble.evaluate", lambda: t2.val(KIB.evaluate()), fn, replay=rp)
    if kval is not None:
        chk.smt("E.event_in_R.A3:Kibble(event)==-64 m0^4 |p2 x p3|^2", [g[i] == 4 * Mz2 * Mz2 * n22[i] for i in (1, 2, 3)], kval.eq(Cx(-64 * M4 * c2)), function=fn, lemma=True, replay=rp)
    kv = z3.Real("Kibble")
    chk.smt("E.event_in_R.Kibble<=0", [kv == -64 * M4 * c2], kv <= 0, function=fn, lemma=True, replay=rp)
    # the bounding box
    sv, M, mk, Ek, a = (z3.Real(x) for x in "sigma_k m_0 m_k E_k norm2_k".split())
    Ei, Ej, mi, mj, ai, aj, d, cc = (z3.Real(x) for x in "E_i E_j m_i m_j norm2_i norm2_j dot cross2".split())
    for k in (1, 2, 3):
        i, j = others(k)
        chk.smt(f"E.event_in_R.box[{k}].upper.id:sigma{k}==m0^2+m{k}^2-2 m0 E{k}", [], s[k] == Mz * Mz + mass2[k] - 2 * Mz * E[k], function=fn, lemma=True, replay=rp)
        chk.smt(f"E.event_in_R.box[{k}].lower.id:sigma{k}==m{i}^2+m{j}^2+2(E{i} E{j}-p{i}.p{j})", [], s[k] == mass2[i] + mass2[j] + 2 * (E[i] * E[j] - dot(P[i], P[j])),
                function=fn, lemma=True, replay=rp)
        ci = [P[i][1] * P[j][2] - P[i][2] * P[j][1], P[i][2] * P[j][0] - P[i][0] * P[j][2], P[i][0] * P[j][1] - P[i][1] * P[j][0]]
        chk.smt(f"E.event_in_R.box[{k}].lagrange:|p{i}|^2|p{j}|^2-(p{i}.p{j})^2==|p{i} x p{j}|^2", [], n2[i] * n2[j] - dot(P[i], P[j]) * dot(P[i], P[j]) == dot(ci, ci),
                function=fn, lemma=True, replay=rp)
    chk.smt("E.event_in_R.box.upper:sigma_k<=(m0-m_k)^2", [sv == M * M + mk * mk - 2 * M * Ek, Ek * Ek == mk * mk + a, a >= 0, Ek > 0, mk >= 0, M > 0], sv <= (M - mk) * (M - mk),
            function=fn, lemma=True, replay=rp)
    chk.smt("E.event_in_R.box.lower:sigma_k>=(m_i+m_j)^2",
            [Ei * Ei == mi * mi + ai, Ej * Ej == mj * mj + aj, ai * aj - d * d == cc, cc >= 0, Ei > 0, Ej > 0, mi >= 0, mj >= 0, ai >= 0, aj >= 0, sv == mi * mi + mj * mj + 2 * (Ei * Ej - d)],
            sv >= (mi + mj) * (mi + mj), function=fn, lemma=True, replay=rp)
    chk.cover("E.cover.event", evh + [n2[x] > 0 for x in (1, 2, 3)] + [mass2[x] > 0 for x in (1, 2, 3)], fn)


def build(chk: Check) -> None:
    chk.assume("A-arith: floats treated as exact reals (an arccosine argument that is exactly +-1, e.g. zeta^i for massless i, may round outside [-1,1])")
    chk.assume("A-denote: SymPy node -> SMT translation table (vlib/tr.py), cross-checked at every cover model against numpy evaluation of the real tree")
    chk.assume("R: 'physical point of the Dalitz region' = masses >= 0, m_0 > m_1+m_2+m_3, (m_i+m_j)^2 <= sigma_k <= (m_0-m_k)^2, sigma_1+sigma_2+sigma_3 = sum m^2, Kibble <= 0; "
               "interior (all strict) where a denominator needs it")
    chk.trust("z3 5.1.0 / cvc5 1.4 unsat answers")
    results = group_S(chk)
    group_A(chk, results)
    group_B(chk, results)
    group_C(chk, results)
    group_D(chk, results)
    group_E(chk, results)
    group_N(chk)


def group_N(chk: Check) -> None:
    """Numbers first (bounded, real functions): a massless particle given as the exact number 0 BEFORE the expression is unfolded --
    `expr.xreplace({m_k: 0}).doit()` -- equals the unfolded expression evaluated with m_k = 0 afterwards, at physical events with that
    particle massless. (evaluate() of the nodes involved may look at is_zero / is_number of its arguments; symbols-first obligations
    cannot see such a branch.)"""
    evs = {k: [] for k in (1, 2, 3)}
    rng = np.random.default_rng(1919)
    for k in (1, 2, 3):
        for _ in range(4):
            ms = list(rng.uniform(0.15, 1.0, size=3))
            ms[k - 1] = 0.0
            evs[k].append(make_event(ms, rng.normal(size=3), rng.normal(size=3)))
    for kind, (f, arity, fname) in FUNCS.items():
        idxs = [i for i in itertools.product((0, 1, 2, 3) if kind == "zeta" else (1, 2, 3), repeat=arity)]
        def rep(_m=None, kind=kind, idxs=idxs):
            n = 0
            for idx in idxs:
                out = call(kind, idx)
                if out[0] != "ok" or out[2] == 0:
                    continue
                for k in (1, 2, 3):
                    try:
                        first = out[2].xreplace({MS[k]: sp.Integer(0)}).doit()
                    except Exception as e:  # noqa: BLE001
                        return {"reproduced": True, "input": f"{kind}{tuple(idx)} with m_{k} = 0 substituted before doit()", "observed": f"{type(e).__name__}: {e}"[:200]}
                    fn = sp.lambdify([sp.Symbol(nm, nonnegative=True) for nm in NAMES], first, "numpy")
                    for ev in evs[k]:
                        try:
                            b = real_value(kind, idx, ev["pt"])
                        except Exception:  # noqa: BLE001  (the symbols-first form does not evaluate either: other groups' subject)
                            continue
                        with np.errstate(all="ignore"):
                            try:
                                a = complex(fn(*[np.float64(ev["pt"][nm]) for nm in NAMES]))
                            except ZeroDivisionError:
                                continue
                            except Exception as e:  # noqa: BLE001
                                if np.isfinite(b):  # symbols first evaluates at this event, numbers first does not
                                    return {"reproduced": True, "input": {"function": kind, "indices": list(idx), "massless": f"m_{k} = 0 (exact, before doit)", "point": ev["pt"]},
                                            "observed": f"{type(e).__name__}: {e}"[:200], "expected": b, "what": "numbers first == symbols first"}
                                continue
                        if not (np.isfinite(a.real) and np.isfinite(b)):
                            continue
                        n += 1
                        if abs(a.real - b) > 1e-6 or abs(a.imag) > 1e-9:
                            return {"reproduced": True, "input": {"function": kind, "indices": list(idx), "massless": f"m_{k} = 0 (exact, before doit)", "point": ev["pt"]},
                                    "observed": a.real, "expected": b, "what": "numbers first == symbols first"}
            return {"reproduced": n == 0, "note": f"{n} comparisons"}

        r = rep()
        chk.struct(f"N.numbers_first==symbols_first[{kind}]", not r["reproduced"], fname, witness=r, replay=rep, bounded=True)
