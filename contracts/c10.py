"""C10 — production vectors solve the K-matrix equation and honour their arguments.

Under contract (dynamics/kmatrix.py): NonRelativisticPVector.{_create_matrices, parametrization, formulate},
RelativisticPVector.{_create_matrices, parametrization, formulate}, RelativisticKMatrix.{parametrization, formulate},
NonRelativisticKMatrix.{parametrization, formulate}; (dynamics) relativistic_breit_wigner,
relativistic_breit_wigner_with_ff, EnergyDependentWidth.evaluate (linearity in gamma0).

(a) (1 - iK) F = P entrywise; relativistic: (1 - i K-hat rho) F-hat = P with K-hat = conj(sqrt rho)^-1 K sqrt(rho)^-1
    and F = sqrt(rho) F-hat (sqrt(rho_i) ANY non-zero complex number, so s below a threshold is included), on the real
    _create_matrices output (K real free, P complex free) and on the real formulate output with K_ij, P_i the library's own
    parametrisations called with the caller's arguments (pole sums opaque).
(b) pass-through: the real formulate / parametrization / relativistic_breit_wigner_with_ff are run with an opaque SymPy
    function X as phsp_factor and fresh symbols as angular_momentum / meson_radius; structural obligations over the real
    tree (every EnergyDependentWidth / FormFactor node carries exactly those objects, no concrete phase-space class of
    ampform occurs, rho_i = X(s, m_a[i], m_b[i])).  The code cannot inspect X: decides it for every factor (A-pure).
(c) n_channels = n_poles = 1: the documented reductions to relativistic_breit_wigner(_with_ff), E1 identities with the
    width / form factor / phase-space nodes opaque.
"""

from __future__ import annotations

import numpy as np
import sympy as sp
import z3

from ampform.dynamics import (
    EnergyDependentWidth,
    FormFactor,
    PhaseSpaceFactor,
    PhaseSpaceFactorComplex,
    PhaseSpaceFactorSWave,
    relativistic_breit_wigner,
    relativistic_breit_wigner_with_ff,
)
from ampform.dynamics import kmatrix as KM
from contracts import kmatrix_common as C
from contracts.kmatrix_common import CONCRETE_PHSP, FD, FK, KTr, add_wd, numeric, oname
from vlib.core import Check
from vlib.tr import CI, CONE, CZERO, Cx, TrError, det

LEVEL = "proof"
ENGINE = "E1 exprvc"
CLAIM = (
    "(a) (1 - iK) F = P and its relativistic analogue (both values of return_f_hat; sqrt(rho_i) any non-zero complex number) entrywise on the real _create_matrices output for all real K and complex P with det != 0, and on the real formulate output with the library's own parametrisations called with the caller's arguments, n_channels 1..2 (thorough: 3 for the non-relativistic vector), n_poles 1..2 (thorough 1..3); (b) a phase-space factor, angular momentum and meson radius passed by the caller are the only ones in the result: structural obligations on the real trees built with an opaque factor X and fresh symbols, for every n_channels, n_poles and flag value enumerated - decides it for every PhaseSpaceFactorProtocol implementation (A-pure); (c) for n = n_R = 1 the documented reductions to relativistic_breit_wigner / relativistic_breit_wigner_with_ff as E1 identities for L = 0..4 and symbolic L."
)
NOTE = (
    "Trusted: z3 5.1 / cvc5 1.4 'unsat' answers; the SymPy-node -> SMT translation table (vlib/tr.py plus Indexed leaves and finite Sum in contracts/kmatrix_common.py), cross-checked at cover models against numpy evaluation of the real tree; floats as exact reals (A-arith); A-pure (functions not under contract, in particular the caller's phase-space factor, are deterministic and cannot be inspected by the code: one opaque X stands for all). SymPy's Matrix.inv() is not trusted (its output is checked). RelativisticPVector._create_matrices(3) is outside the bound: SymPy needs more than 50 minutes to build it, n_channels = 3 is checked for the non-relativistic vector only (thorough). The reduction (c) for the P-vectors is stated as gamma * F = beta * BW(Gamma -> gamma^2 Gamma) (and F = beta * BW at gamma = 1, what the documentation displays)."
)
TECHNIQUE = (
    "contract-based deductive verification: E1 denotational VCs on the SymPy trees returned by the real P-vector / K-matrix functions "
    "(pole sums, widths, form factors, phase-space factors opaque), structural obligations over the real trees built with an opaque "
    "phase-space factor (parametricity); z3 / nlsat / cvc5"
)

NRK, RLK = KM.NonRelativisticKMatrix, KM.RelativisticKMatrix
NRP, RLP = KM.NonRelativisticPVector, KM.RelativisticPVector
X = sp.Function("X")  # the opaque phase-space factor (complies with PhaseSpaceFactorProtocol: X(s, m1, m2) -> Expr)
L_SYM = sp.Symbol("L_caller", integer=True, nonnegative=True)
D_SYM = sp.Symbol("d_caller", positive=True)


def cubed_factor(s, m1, m2):
    """A cheap concrete factor that complies with PhaseSpaceFactorProtocol and is not the default one: rho^3. Used in the
    numeric replays in place of the opaque X (EnergyDependentWidth depends on it through rho(s)/rho(m0^2))."""
    return PhaseSpaceFactor(s, m1, m2) ** 3


def lib_symbols():
    """The symbols formulate() creates."""
    B = {k: sp.IndexedBase(k, nonnegative=True) for k in ("m", "Gamma", "gamma", "m_a", "m_b", "beta")}
    return sp.Symbol("s", nonnegative=True), B, sp.Symbol("R", integer=True, positive=True)


def lib_K(cls, i, j, p, kw):
    """The library's own K parametrisation for the arguments the caller passed to formulate."""
    s, B, R = lib_symbols()
    if cls is NRP:
        return NRK.parametrization(i=i, j=j, s=s, pole_position=B["m"], pole_width=B["Gamma"], residue_constant=B["gamma"], n_poles=p, pole_id=R)
    extra = {k: kw[k] for k in ("angular_momentum", "meson_radius", "phsp_factor") if k in kw}
    return RLK.parametrization(i=i, j=j, s=s, pole_position=B["m"], pole_width=B["Gamma"], m_a=B["m_a"], m_b=B["m_b"], residue_constant=B["gamma"],
                               n_poles=p, pole_id=R, **extra)


def lib_P(cls, i, p, kw):
    s, B, R = lib_symbols()
    if cls is NRP:
        return NRP.parametrization(i=i, s=s, pole_position=B["m"], pole_width=B["Gamma"], residue_constant=B["gamma"], beta_constant=B["beta"], n_poles=p, pole_id=R)
    extra = {k: kw[k] for k in ("angular_momentum", "meson_radius") if k in kw}
    return RLP.parametrization(i=i, s=s, pole_position=B["m"], pole_width=B["Gamma"], m_a=B["m_a"], m_b=B["m_b"], beta_constant=B["beta"],
                               residue_constant=B["gamma"], n_poles=p, pole_id=R, **extra)


def rho_node(i, kw):
    s, B, _ = lib_symbols()
    return kw.get("phsp_factor", PhaseSpaceFactor)(s, B["m_a"][i], B["m_b"][i])


# ======================================================================================================================
# numeric evaluation of the real functions (replays)
# ======================================================================================================================
def _residual(cls, n, p, kw, vals):
    """max_i |((1 - i K-hat rho) F-hat - P)_i| with F from the real formulate(), K and P from the library's parametrisations
    (called with the same arguments) and rho_i from the caller's factor -- all evaluated numerically at `vals`."""
    hat = bool(kw.get("return_f_hat"))
    F = numeric(cls.formulate(n_channels=n, n_poles=p, **kw), vals, default=1.0).reshape(-1)
    K = np.array([[complex(numeric(lib_K(cls, i, j, p, kw), vals, default=1.0)) for j in range(n)] for i in range(n)])
    P = np.array([complex(numeric(lib_P(cls, i, p, kw), vals, default=1.0)) for i in range(n)])
    if cls is NRP:
        res = (np.eye(n) - 1j * K) @ F - P
    else:
        rho = np.array([complex(numeric(rho_node(i, kw), vals, default=1.0)) for i in range(n)])
        sq = np.sqrt(rho)
        Fh = F if hat else F / sq
        Kh = K / np.outer(np.conj(sq), sq)
        res = (np.eye(n) - 1j * Kh @ np.diag(rho)) @ Fh - P
    scale = 1.0 + float(np.max(np.abs(F))) + float(np.max(np.abs(P)))
    return float(np.max(np.abs(res))) / scale, F, K, P


NUMERIC_CONFIGS = [
    (NRP, {}),
    (RLP, {}),
    (RLP, {"return_f_hat": True}),
    (RLP, {"angular_momentum": 1, "meson_radius": 2}),
    (RLP, {"phsp_factor": PhaseSpaceFactorSWave, "angular_momentum": 1}),
    (RLP, {"phsp_factor": PhaseSpaceFactorComplex, "return_f_hat": True}),
]


def _bw_numeric(vals):
    """(c) numerically on the real functions: returns the first failing reduction or None."""
    s, B, R = lib_symbols()
    m, G, g, b = B["m"][1], B["Gamma"][1, 0], B["gamma"][1, 0], B["beta"][1]
    bw = relativistic_breit_wigner(s, m, g**2 * G)
    t = NRK.formulate(1, 1)[0, 0]
    f = NRP.formulate(1, 1)[0]
    checks = [("NonRelativisticKMatrix T == BW(Gamma->gamma^2 Gamma)", t, bw), ("gamma * NonRelativisticPVector F == beta * BW(Gamma->gamma^2 Gamma)", g * f, b * bw)]
    for ell in (0, 2):
        fr = RLP.formulate(1, 1, angular_momentum=ell)[0]
        rho = sp.sqrt(rho_node(0, {}))
        fr = fr.xreplace({rho: 1, sp.conjugate(rho): 1})
        bwff = relativistic_breit_wigner_with_ff(s, m, g**2 * G, B["m_a"][0], B["m_b"][0], ell, 1)
        checks.append((f"gamma * RelativisticPVector F[sqrt rho -> 1; L={ell}] == beta * BW_ff(Gamma->gamma^2 Gamma)", g * fr, b * bwff))
    for what, lhs, rhs in checks:
        a, c = complex(numeric(lhs, vals, default=1.0)), complex(numeric(rhs, vals, default=1.0))
        if not (abs(a - c) <= 1e-8 * (1 + abs(a) + abs(c))):
            return {"reproduced": True, "what": what, "input": vals, "expected": str(c), "observed": str(a)}
    return None


_SEARCH_CACHE: dict = {}


def search(model=None):
    """(deterministic, so evaluated once per run)"""
    if "out" not in _SEARCH_CACHE:
        _SEARCH_CACHE["out"] = _search()
    return _SEARCH_CACHE["out"]


def _search():
    """Property-level replay for lemma obligations: the statement of C10 itself on the real functions at deterministic random
    real points: the residual of the F equation with the library's parametrisations, and the Breit-Wigner reductions."""
    rng = np.random.default_rng(10)
    tried = 0
    for cls, kw in NUMERIC_CONFIGS:
        for n in (1, 2):
            for p in (1, 2):
                for k in range(3):
                    vals = C.sample_point(rng, n, p)
                    if k == 2 and cls is RLP:
                        vals = C.s_below(vals, n, rng)
                    try:
                        res, F, K, P = _residual(cls, n, p, kw, vals)
                    except Exception as e:  # noqa: BLE001
                        return {"reproduced": True, "what": f"real code raised {type(e).__name__}: {e}"[:300], "input": vals,
                                "function": f"{cls.__name__}.formulate(n_channels={n}; n_poles={p}; {C.kw_tag(kw)})"}
                    tried += 1
                    if not res <= 1e-8:
                        return {"reproduced": True, "what": "(1 - i K-hat rho) F-hat = P with the library's own parametrisations and the caller's arguments",
                                "function": f"{cls.__name__}.formulate(n_channels={n}; n_poles={p}; {C.kw_tag(kw)})", "input": vals,
                                "expected": "residual 0", "observed": {"relative_residual": res, "F": str(F.round(9).tolist())}}
    for _ in range(4):
        out = _bw_numeric(C.sample_point(rng, 1, 1))
        tried += 1
        if out:
            return out
    return {"reproduced": False, "note": f"no property-level failure at {tried} sampled points"}


def replay_create(cls, n, hat):
    """Replay of an (a)-obligation on _create_matrices at the counter-model (K, P, sqrt(rho) are the model's values)."""

    def rep(model):
        mv = C.model_values(model)
        out = cls._create_matrices(n) if cls is NRP else cls._create_matrices(n, hat)
        f_m, k_m, p_m = out
        vals = dict(mv)
        sig = []
        for i in range(n):
            sg = complex(mv.get(f"sig{i}_re", 1.0), mv.get(f"sig{i}_im", 0.0))
            sig.append(sg)
        sub = {}
        for i in range(n):
            rho = sp.Symbol(f"rho{i}")
            # the real tree contains sqrt(rho_i): give rho_i the value whose principal root is sigma_i when possible
            sub[sp.sqrt(rho)] = sp.sympify(sig[i])
            sub[sp.conjugate(sp.sqrt(rho))] = sp.sympify(np.conj(sig[i]))
            sub[rho] = sp.sympify(sig[i] ** 2)
        tree = f_m.xreplace(sub) if cls is RLP else f_m
        F = numeric(tree, vals, default=0.0).reshape(-1)
        K = np.array([[mv.get(C.zname(k_m[i, j]), 0.0) for j in range(n)] for i in range(n)], dtype=complex)
        P = np.array([complex(mv.get(C.zname(p_m[i, 0]) + "__re", 0.0), mv.get(C.zname(p_m[i, 0]) + "__im", 0.0)) for i in range(n)])
        if cls is NRP:
            res = (np.eye(n) - 1j * K) @ F - P
        else:
            sq = np.array(sig)
            Fh = F if hat else F / sq
            Kh = K / np.outer(np.conj(sq), sq)
            res = (np.eye(n) - 1j * Kh @ np.diag(sq**2)) @ Fh - P
        err = float(np.max(np.abs(res)))
        bad = bool(not np.all(np.isfinite(F)) or err > 1e-7 * (1 + float(np.max(np.abs(F))) + float(np.max(np.abs(P)))))
        return {"reproduced": bad, "input": {"K": K.real.tolist(), "P": [str(x) for x in P], "sqrt_rho": [str(x) for x in sig]},
                "expected": "(1 - i K-hat rho) F-hat - P = 0", "observed": {"F(real tree)": [str(x) for x in F], "residual": [str(x) for x in res]}}

    return rep


def concrete_kw(kw):
    """The same call with a concrete factor / numbers instead of the opaque X, L, d (for numeric replays)."""
    out = dict(kw)
    if out.get("phsp_factor") is X:
        out["phsp_factor"] = cubed_factor
    if out.get("angular_momentum") is L_SYM:
        out["angular_momentum"] = 1
    if out.get("meson_radius") is D_SYM:
        out["meson_radius"] = 2
    return out


def replay_formulate(cls, n, p, kw):
    """Replay of a formulate-level obligation: numeric residual on the real code at sampled real points (the opaque X
    replaced by a concrete factor that is not the default, L and d by numbers)."""

    cache = {}

    def rep(model):
        if "out" not in cache:
            cache["out"] = _rep(model)
        return cache["out"]

    def _rep(model):
        ckw = concrete_kw(kw)
        rng = np.random.default_rng(100 + 10 * n + p)
        worst = None
        for k in range(6):
            vals = C.sample_point(rng, n, p)
            if k % 2 and cls is RLP:
                vals = C.s_below(vals, n, rng)  # "all real parameter points": s below a threshold, rho_i imaginary there
            try:
                res, F, K, P = _residual(cls, n, p, ckw, vals)
            except Exception as e:  # noqa: BLE001
                return {"reproduced": True, "what": f"real code raised {type(e).__name__}: {e}"[:300], "input": vals}
            if worst is None or res > worst[0]:
                worst = (res, vals, F, K, P)
            if not res <= 1e-8:
                break
        res, vals, F, K, P = worst
        return {"reproduced": bool(not res <= 1e-8), "function": f"{cls.__name__}.formulate(n_channels={n}; n_poles={p}; {C.kw_tag(ckw)})", "input": vals,
                "expected": "(1 - i K-hat rho) F-hat = P with K = RelativisticKMatrix.parametrization(..., same phsp_factor / L / d), relative residual 0",
                "observed": {"relative_residual": res, "F": [str(x) for x in F], "K(library parametrisation with the caller's arguments)": [[str(x) for x in r] for r in K]}}

    return rep


def _with_callers_objects(tree, ph, ell, d):
    """The same tree with every EnergyDependentWidth / FormFactor node carrying the caller's objects (what (b) demands)."""
    exprs = tree if isinstance(tree, sp.MatrixBase) else sp.Matrix([tree])
    sub = {}
    for e in exprs.atoms(EnergyDependentWidth):
        sub[e] = EnergyDependentWidth(*e.args[:5], ell, d, ph)
    for f in exprs.atoms(FormFactor):
        sub[f] = FormFactor(*f.args[:3], ell, d)
    return exprs.xreplace(sub)


def replay_passthrough(build_tree, describe):
    """Replay of a structural pass-through obligation: run the real code with a concrete non-default factor and numbers
    for L and d; list what the EnergyDependentWidth / FormFactor nodes carry and evaluate the result numerically at a real
    point next to the value it has when every node carries the caller's objects."""

    cache = {}

    def rep(model):
        if "out" not in cache:
            cache["out"] = _rep(model)
        return cache["out"]

    def _rep(model):
        ph, ell, d = cubed_factor, sp.Integer(1), sp.Integer(2)
        tree = build_tree(ph, ell, d)
        nodes = _nodes(tree)
        foreign = sorted({getattr(n_.phsp_factor, "__name__", str(n_.phsp_factor)) for n_ in nodes["edw"] if n_.phsp_factor is not ph})
        wrongL = sorted({str((n_.args[5], n_.args[6])) for n_ in nodes["edw"] if (n_.args[5], n_.args[6]) != (ell, d)} | {str((n_.args[3], n_.args[4])) for n_ in nodes["ff"] if (n_.args[3], n_.args[4]) != (ell, d)})
        out = {"reproduced": bool(foreign or wrongL), "input": describe + " with phsp_factor=cubed_factor (rho^3); angular_momentum=1; meson_radius=2",
               "expected": "every EnergyDependentWidth carries cubed_factor; (L; d) = (1; 2) everywhere",
               "observed": {"EnergyDependentWidth.phsp_factor other than the caller's": foreign, "(L; d) other than the caller's": wrongL}}
        exprs = tree if isinstance(tree, sp.MatrixBase) else sp.Matrix([tree])
        if all(lim[2].is_Integer for sm in exprs.atoms(sp.Sum) for lim in sm.limits):
            try:
                vals = C.sample_point(np.random.default_rng(5), 2, 3)
                vals.update({"m0": vals["m_1"], "Gamma0": 0.3, "m1": vals["m_a_0"], "m2": vals["m_b_0"]})
                for e_ in sorted(nodes["edw"], key=str)[:4]:
                    s_, m0_, g0_, m1_, m2_, l_, d_ = e_.args
                    doc = g0_ * (FormFactor(s_, m1_, m2_, l_, d_) / FormFactor(m0_**2, m1_, m2_, l_, d_)) ** 2 * ph(s_, m1_, m2_) / ph(m0_**2, m1_, m2_)
                    a_, b_ = complex(numeric(e_, vals, default=1.0)), complex(numeric(doc, vals, default=1.0))
                    if not abs(a_ - b_) <= 1e-9 * (1 + abs(b_)):
                        out["reproduced"] = True
                        out["width"] = {"node": str(e_), "point": vals, "observed": str(a_), "expected gamma0 (F/F0)^2 rho(s)/rho(m0^2) with the caller's factor": str(b_)}
                        break
                got = numeric(exprs, vals, default=1.0).reshape(-1)
                want = numeric(_with_callers_objects(tree, ph, ell, d), vals, default=1.0).reshape(-1)
                out["numeric"] = {"point": vals, "value of the returned expression": [str(x) for x in got],
                                  "value with the caller's factor / L / d in every node": [str(x) for x in want], "max_abs_difference": float(np.max(np.abs(got - want)))}
                if float(np.max(np.abs(got - want))) > 1e-9:
                    out["reproduced"] = True
            except Exception as e:  # noqa: BLE001
                out["numeric"] = f"not evaluated: {type(e).__name__}: {e}"[:200]
        return out

    return rep


# ======================================================================================================================
# (a) on _create_matrices
# ======================================================================================================================
# The trees are translated division-free (C.frac: value = num/den, every denominator recorded). The equation is proved
# wherever the returned expression is defined (hypothesis: its denominators are non-zero), for K real, P complex and
# sqrt(rho_i) any non-zero complex number; that it IS defined is proved on the physical domain K real symmetric, rho_i > 0
# (the expression SymPy's Gaussian elimination builds has removable singularities elsewhere, see NOTE).
def _wd_conds(tr, start=0):
    return [c for _, c, _ in tr.wd[start:]]


def _sym_real(tr, k_m, n):
    for i in range(n):
        for j in range(i + 1, n):
            tr.bind(k_m[j, i], tr.scalar(k_m[i, j]))


def _at_point(chk, name, hyps, claim, fn, rep):
    """instance-level companion of an identity obligation (bounded: never counted as proved)."""
    chk.smt(name + "@generic_point", hyps + C.point_hyps(hyps, claim), claim, function=fn, replay=rep, bounded=True)


def create_matrices_nr(chk: Check, n: int) -> None:
    fn = FK + "NonRelativisticPVector._create_matrices"
    f_m, k_m, p_m = NRP._create_matrices(n)
    chk.struct(f"NonRelativisticPVector._create_matrices[n={n}].shapes", f_m.shape == (n, 1) and k_m.shape == (n, n) and p_m.shape == (n, 1)
               and len(set(k_m)) == n * n and len(set(p_m)) == n and all(isinstance(x, sp.Indexed) for x in list(k_m) + list(p_m)), fn, witness=str((f_m.shape, k_m.shape, p_m.shape)),
               lemma=True, replay=search)
    tr = KTr(f"nrp{n}", kinds={"K": "real", "P": "complex"})
    Kv = [[tr.scalar(k_m[i, j]) for j in range(n)] for i in range(n)]
    Pv = [tr.scalar(p_m[i, 0]) for i in range(n)]
    M = C.one_minus_i(Kv)
    rep = replay_create(NRP, n, False)
    Fv = chk.guarded(f"NonRelativisticPVector._create_matrices[n={n}]", lambda: [row[0] for row in C.frac(tr, f_m)], fn, replay=search)
    if Fv is None:
        return
    defined = _wd_conds(tr)
    for i in range(n):
        acc = C.Frac(CZERO)
        for j in range(n):
            acc = acc + C.Frac(M[i][j]) * Fv[j]
        chk.smt(f"NonRelativisticPVector._create_matrices[n={n}].(1-iK)F==P[{i}]", defined + tr.hyps(), acc.eq(C.Frac(Pv[i])), function=fn, replay=rep)
        _at_point(chk, f"NonRelativisticPVector._create_matrices[n={n}].(1-iK)F==P[{i}]", defined + tr.hyps(), acc.eq(C.Frac(Pv[i])), fn, rep)
    chk.cover(f"NonRelativisticPVector._create_matrices[n={n}].cover", defined + tr.hyps() + [Kv[0][0].re > 1, Pv[0].im > 1, Pv[n - 1].re < -1], fn, model_check=C.cover_cmp(Fv, f_m))
    if n == 1:
        chk.mustfail("selftest.NonRelativisticPVector.(1-iK)F==2P", defined + tr.hyps(), (C.Frac(CONE - CI * Kv[0][0]) * Fv[0]).eq(C.Frac(Cx(2) * Pv[0])), function=fn)
    # defined on the physical domain
    trs = KTr(f"nrps{n}", kinds={"K": "real", "P": "complex"})
    _sym_real(trs, k_m, n)
    if chk.guarded(f"NonRelativisticPVector._create_matrices[n={n}]|K_real_symmetric", lambda: C.frac(trs, f_m), fn, replay=search) is not None:
        add_wd(chk, f"NonRelativisticPVector._create_matrices[n={n}]|K_real_symmetric", trs, [], fn, replay=rep, lemma=False)


def _sigma(tr, n, nodes):
    """sqrt(rho_i) := sigma_i, any non-zero complex number; rho_i := sigma_i^2."""
    sig = []
    for i in range(n):
        sg = Cx(z3.Real(f"sig{i}_re"), z3.Real(f"sig{i}_im"))
        tr.bind(sp.sqrt(nodes[i]), sg)
        tr.bind(nodes[i], sg * sg)
        sig.append(sg)
    return sig


def _rpos(tr, n, nodes):
    """the physical domain: rho_i = r_i^2 with r_i > 0."""
    r = [z3.Real(f"r{i}") for i in range(n)]
    for i in range(n):
        tr.bind(nodes[i], Cx(r[i] * r[i]))
        tr.bind(sp.sqrt(nodes[i]), Cx(r[i]))
    return r


def _rel_equation(Kv, sig, Fhat, i):
    """((1 - i K-hat rho) F-hat)_i as Frac, K-hat_ij = K_ij / (conj(sigma_i) sigma_j), rho_j = sigma_j^2 (sigma_i != 0)."""
    acc = Fhat[i]
    for j in range(len(Kv)):
        khat_rho = C.Frac(Kv[i][j] * sig[j] * sig[j], sig[i].conj() * sig[j])
        acc = acc - C.Frac(CI) * khat_rho * Fhat[j]
    return acc


def create_matrices_rel(chk: Check, n: int) -> None:
    fn = FK + "RelativisticPVector._create_matrices"
    fh_m, k_m, p_m = RLP._create_matrices(n, True)
    f_m, k_m2, p_m2 = RLP._create_matrices(n, False)
    chk.struct(f"RelativisticPVector._create_matrices[n={n}].shapes_and_same_symbols", f_m.shape == (n, 1) and fh_m.shape == (n, 1) and k_m == k_m2 and p_m == p_m2
               and len(set(k_m)) == n * n and len(set(p_m)) == n, fn, lemma=True, replay=search)
    rho_syms = [sp.Symbol(f"rho{i}") for i in range(n)]
    tr = KTr(f"rlp{n}", kinds={"K": "real", "P": "complex"})
    sig = _sigma(tr, n, rho_syms)
    Kv = [[tr.scalar(k_m[i, j]) for j in range(n)] for i in range(n)]
    Pv = [tr.scalar(p_m[i, 0]) for i in range(n)]
    nz = [C.nonzero(x) for x in sig]
    keep = {}
    for hat, tree in ((True, fh_m), (False, f_m)):
        tag = f"n={n};hat={hat}"
        rep = replay_create(RLP, n, hat)
        Fv = chk.guarded(f"RelativisticPVector._create_matrices[{tag}]", lambda: [row[0] for row in C.frac(tr, tree)], fn, replay=search)
        if Fv is None:
            continue
        keep[hat] = Fv
        defined = nz + _wd_conds(tr)
        Fhat = Fv if hat else [Fv[i] * C.Frac(CONE, sig[i]) for i in range(n)]
        for i in range(n):
            chk.smt(f"RelativisticPVector._create_matrices[{tag}].(1-i Khat rho)Fhat==P[{i}]", defined + tr.hyps(), _rel_equation(Kv, sig, Fhat, i).eq(C.Frac(Pv[i])), function=fn, replay=rep)
            _at_point(chk, f"RelativisticPVector._create_matrices[{tag}].(1-i Khat rho)Fhat==P[{i}]", defined + tr.hyps(), _rel_equation(Kv, sig, Fhat, i).eq(C.Frac(Pv[i])), fn, rep)
        if not hat and True in keep:
            for i in range(n):
                chk.smt(f"RelativisticPVector._create_matrices[n={n}].F==sqrt(rho) Fhat[{i}]", defined + tr.hyps(), Fv[i].eq(C.Frac(sig[i]) * keep[True][i]), function=fn, replay=rep)
    if n == 1 and True in keep:
        chk.mustfail("selftest.RelativisticPVector.(1-i Khat rho)Fhat==2P", nz + _wd_conds(tr) + tr.hyps(), _rel_equation(Kv, sig, keep[True], 0).eq(C.Frac(Cx(2) * Pv[0])), function=fn)
    # defined on the physical domain (K real symmetric, rho_i > 0), with the numeric cross-check of the translation
    for hat, tree in ((True, fh_m), (False, f_m)):
        trs = KTr(f"rlps{n}", kinds={"K": "real", "P": "complex"})
        r = _rpos(trs, n, rho_syms)
        _sym_real(trs, k_m, n)
        Fc = chk.guarded(f"RelativisticPVector._create_matrices[n={n};hat={hat}]|K_real_symmetric;rho>0", lambda: [row[0] for row in C.frac(trs, tree)], fn, replay=search)
        if Fc is None:
            continue
        add_wd(chk, f"RelativisticPVector._create_matrices[n={n};hat={hat}]|K_real_symmetric;rho>0", trs, [x > 0 for x in r], fn, replay=replay_create(RLP, n, hat), lemma=False)
        chk.cover(f"RelativisticPVector._create_matrices[n={n};hat={hat}].cover", _wd_conds(trs) + trs.hyps() + [x > 1 for x in r] + [trs.scalar(k_m[0, 0]).re > 1, trs.scalar(p_m[0, 0]).im > 1], fn,
                  model_check=C.cover_cmp(Fc, tree, extra=lambda vals: {f"rho{i}": vals.get(f"r{i}", 0.0) ** 2 for i in range(n)}))


# ======================================================================================================================
# (a) on formulate with the library's parametrisations
# ======================================================================================================================
def formulate_equation(chk: Check, cls, n: int, p: int, kw: dict) -> None:
    cname = cls.__name__
    fn = FK + cname + ".formulate"
    tag = f"n={n};poles={p}" + (";" + C.kw_tag(kw) if kw else "")
    hat = bool(kw.get("return_f_hat"))
    fm = cls.formulate(n_channels=n, n_poles=p, **kw)
    rep = replay_formulate(cls, n, p, kw)
    KE = [[lib_K(cls, i, j, p, kw) for j in range(n)] for i in range(n)]
    PE = [lib_P(cls, i, p, kw) for i in range(n)]
    expected = {x for row in KE for x in row} | set(PE)
    sums = fm.atoms(sp.Sum)
    stray = sorted((str(x)[:160] for x in sums - expected))
    chk.struct(f"{cname}.formulate[{tag}].pole_sums_are_the_library_parametrisations_for_the_callers_arguments", not stray and bool(sums), fn,
               witness={"pole sums in the result that are not K_ij / P_i of the library for these arguments": stray[:3]}, replay=rep)
    nodes = sorted(expected | sums, key=str)
    rho_nodes = [rho_node(i, kw) for i in range(n)] if cls is RLP else []
    if cls is RLP:
        left = sorted(x.name for x in fm.atoms(sp.Symbol) if x.name.startswith("rho"))
        chk.struct(f"{cname}.formulate[{tag}].all_rho_symbols_replaced_by_the_callers_factor", not left and all(fm.has(nd) for nd in rho_nodes), fn, witness=str(left), replay=rep)
    # the equation, wherever the expression is defined: pole sums complex, sqrt(rho_i) any non-zero complex number
    # (relativistic, n >= 2: the K pole sums are real variables -- their values for real parameters with s and the poles above
    #  threshold, C09 -- because the cross-multiplied identity in 14 real unknowns is beyond the solvers' budget)
    tr = KTr(f"fe{cname}")
    k_real = cls is RLP and n >= 2
    kset = {x for row in KE for x in row}
    for k, node in enumerate(nodes):
        if k_real and node in kset:
            tr.bind(node, Cx(z3.Real(f"sum{k}_re")))
        else:
            tr.bind(node, Cx(z3.Real(f"sum{k}_re"), z3.Real(f"sum{k}_im")))
    Kv = [[tr.scalar(KE[i][j]) for j in range(n)] for i in range(n)]
    Pv = [tr.scalar(PE[i]) for i in range(n)]
    sig = _sigma(tr, len(rho_nodes), rho_nodes)
    nz = [C.nonzero(x) for x in sig]
    Fv = chk.guarded(f"{cname}.formulate[{tag}]", lambda: [row[0] for row in C.frac(tr, fm)], fn, replay=search)
    if Fv is None:
        return
    defined = nz + _wd_conds(tr)
    for i in range(n):
        if cls is NRP:
            acc = C.Frac(CZERO)
            for j in range(n):
                acc = acc + C.Frac((CONE if i == j else CZERO) - CI * Kv[i][j]) * Fv[j]
        else:
            Fhat = Fv if hat else [Fv[k] * C.Frac(CONE, sig[k]) for k in range(n)]
            acc = _rel_equation(Kv, sig, Fhat, i)
        # (a pole sum that is not the library's parametrisation is a free unknown: the claim is then false and the solver has to
        #  find a point of a large polynomial disequality; the structural obligation above already carries that violation)
        chk.smt(f"{cname}.formulate[{tag}].(1-iK)F==P[{i}]|library_parametrisations", defined + tr.hyps(), acc.eq(C.Frac(Pv[i])), function=fn, replay=rep,
                timeout=20.0 if stray else None)
    if (n, p) == (1, 1):
        chk.cover(f"{cname}.formulate[{tag}].cover", defined + tr.hyps() + [Pv[0].re > 1], fn)
    # defined on the physical domain: pole sums real (C09), rho_i > 0
    trs = KTr(f"fs{cname}")
    for k, node in enumerate(nodes):
        trs.bind(node, Cx(z3.Real(f"sum{k}")))
    r = _rpos(trs, len(rho_nodes), rho_nodes)
    if chk.guarded(f"{cname}.formulate[{tag}]|pole_sums_real;rho>0", lambda: C.frac(trs, fm), fn, replay=search) is not None:
        add_wd(chk, f"{cname}.formulate[{tag}]|pole_sums_real;rho>0", trs, [x > 0 for x in r], fn, replay=rep, lemma=False)


# ======================================================================================================================
# (b) pass-through
# ======================================================================================================================
def _nodes(tree):
    """EnergyDependentWidth / FormFactor / concrete phase-space nodes anywhere in the tree, widths unfolded one level."""
    exprs = list(tree) if isinstance(tree, sp.MatrixBase) else [tree]
    edw, ff, concrete, xs, syms = set(), set(), set(), set(), set()
    todo = list(exprs)
    seen = set()
    while todo:
        e = todo.pop()
        for a in sp.preorder_traversal(e):
            if a in seen:
                continue
            seen.add(a)
            if isinstance(a, EnergyDependentWidth):
                edw.add(a)
                todo.append(a.evaluate())
            elif isinstance(a, FormFactor):
                ff.add(a)
            elif isinstance(a, CONCRETE_PHSP):
                concrete.add(a)
            elif isinstance(a, sp.core.function.AppliedUndef):
                xs.add(a)
            elif isinstance(a, sp.Symbol):
                syms.add(a)
    return {"edw": edw, "ff": ff, "concrete": concrete, "X": xs, "symbols": syms}


def passthrough(chk: Check, name: str, fn: str, build_tree, n: int | None, p, needs_width: bool, needs_ff: bool, has_rho: bool) -> None:
    """build_tree(phsp, L, d) runs the real function. Obligations on the tree built with (X, L_SYM, D_SYM)."""
    tree = build_tree(X, L_SYM, D_SYM)
    nd = _nodes(tree)
    rep = replay_passthrough(build_tree, name)
    bad_phsp = sorted(str(a.phsp_factor) for a in nd["edw"] if a.phsp_factor is not X)
    chk.struct(f"{name}.every_EnergyDependentWidth_carries_the_callers_phsp_factor", not bad_phsp and (bool(nd["edw"]) or not needs_width), fn,
               witness={"phsp_factor of EnergyDependentWidth nodes other than the caller's": bad_phsp[:4], "n_width_nodes": len(nd["edw"])}, replay=rep)
    conc = sorted({type(a).__name__ for a in nd["concrete"]})
    chk.struct(f"{name}.no_concrete_phase_space_class_occurs", not conc, fn, witness={"concrete phase-space classes in the result (widths unfolded one level)": conc}, replay=rep)
    bad_l = sorted({str((a.args[5], a.args[6])) for a in nd["edw"] if (a.args[5], a.args[6]) != (L_SYM, D_SYM)} | {str((a.args[3], a.args[4])) for a in nd["ff"] if (a.args[3], a.args[4]) != (L_SYM, D_SYM)})
    chk.struct(f"{name}.every_width_and_form_factor_carries_the_callers_L_and_meson_radius", not bad_l and (bool(nd["ff"]) or not needs_ff), fn,
               witness={"(L; d) other than the caller's": bad_l[:4], "n_form_factor_nodes": len(nd["ff"])}, replay=rep)
    if has_rho:
        s, B, R = lib_symbols()
        want = {X(s, B["m_a"][i], B["m_b"][i]) for i in range(n)}
        # inside the unfolded widths the factor is evaluated at s and at the pole masses of the channel
        allowed = set(want)
        for i in range(n):
            allowed.add(X(B["m"][R] ** 2, B["m_a"][i], B["m_b"][i]))
        left = sorted(x.name for x in nd["symbols"] if x.name.startswith("rho"))
        chk.struct(f"{name}.rho_i_is_the_callers_factor_of_(s;m_a[i];m_b[i])", not left and want <= nd["X"] and nd["X"] <= allowed, fn,
                   witness={"rho symbols left": left, "missing": [str(x) for x in want - nd["X"]], "unexpected": [str(x) for x in nd["X"] - allowed][:4]}, replay=rep)


def passthrough_all(chk: Check, ns, poles) -> None:
    s, B, R = lib_symbols()
    for n in ns:
        for p in poles:
            for hat in (False, True):
                passthrough(chk, f"RelativisticPVector.formulate[n={n};poles={p};hat={hat};phsp=X]", FK + "RelativisticPVector.formulate",
                            lambda ph, ell, d, n=n, p=p, hat=hat: RLP.formulate(n, p, return_f_hat=hat, phsp_factor=ph, angular_momentum=ell, meson_radius=d), n, p, True, True, True)
                passthrough(chk, f"RelativisticKMatrix.formulate[n={n};poles={p};hat={hat};phsp=X]", FK + "RelativisticKMatrix.formulate",
                            lambda ph, ell, d, n=n, p=p, hat=hat: RLK.formulate(n, p, return_t_hat=hat, phsp_factor=ph, angular_momentum=ell, meson_radius=d), n, p, True, False, True)
            # the non-relativistic classes accept and ignore the keywords: nothing of a phase-space factor may appear
            passthrough(chk, f"NonRelativisticPVector.formulate[n={n};poles={p};phsp=X]", FK + "NonRelativisticPVector.formulate",
                        lambda ph, ell, d, n=n, p=p: NRP.formulate(n, p, phsp_factor=ph, angular_momentum=ell, meson_radius=d), None, p, False, False, False)
            passthrough(chk, f"NonRelativisticKMatrix.formulate[n={n};poles={p};phsp=X]", FK + "NonRelativisticKMatrix.formulate",
                        lambda ph, ell, d, n=n, p=p: NRK.formulate(n, p, phsp_factor=ph, angular_momentum=ell, meson_radius=d), None, p, False, False, False)
    nsym = sp.Symbol("n_R", integer=True, positive=True)
    for p in list(poles) + [nsym]:
        for i, j in ((0, 0), (0, 1), (1, 0)):
            passthrough(chk, f"RelativisticKMatrix.parametrization[{i}{j};poles={p};phsp=X]", FK + "RelativisticKMatrix.parametrization",
                        lambda ph, ell, d, i=i, j=j, p=p: RLK.parametrization(i, j, s, B["m"], B["Gamma"], B["m_a"], B["m_b"], B["gamma"], p, R, angular_momentum=ell, meson_radius=d, phsp_factor=ph),
                        None, p, True, False, False)
        for i in (0, 1):
            passthrough(chk, f"RelativisticPVector.parametrization[{i};poles={p}]", FK + "RelativisticPVector.parametrization",
                        lambda ph, ell, d, i=i, p=p: RLP.parametrization(i, s, B["m"], B["Gamma"], B["m_a"], B["m_b"], B["beta"], B["gamma"], p, R, angular_momentum=ell, meson_radius=d),
                        None, p, False, True, False)
    m0, g0, m1, m2 = sp.symbols("m0 Gamma0 m1 m2", nonnegative=True)
    passthrough(chk, "relativistic_breit_wigner_with_ff[phsp=X]", FD + "relativistic_breit_wigner_with_ff",
                lambda ph, ell, d: relativistic_breit_wigner_with_ff(s, m0, g0, m1, m2, ell, d, ph), None, None, True, True, False)


# ======================================================================================================================
# (c) Breit-Wigner reductions for n_channels = n_poles = 1
# ======================================================================================================================
def opaque_contracts(tr: KTr) -> None:
    """Width / form factor / phase-space nodes opaque: FormFactor and phase-space nodes one complex variable per node;
    EnergyDependentWidth(.., gamma0, ..) = gamma0 * c with c one complex variable per (all other arguments) -- justified by
    the lemma `EnergyDependentWidth.evaluate.linear_in_gamma0`."""

    def opaque(tr, e):
        return tr.opaque_atom(e)

    for cls in CONCRETE_PHSP + (FormFactor,):
        tr.specs[cls] = opaque

    def edw(tr, e):
        s, m0, g0, m1, m2, ell, d = e.args
        key = ("edw", s, m0, m1, m2, ell, d, e.phsp_factor)
        if key not in tr.contract_vars:
            tr.n += 1
            tr.contract_vars[key] = Cx(z3.Real(f"edwc!{tr.n}_re"), z3.Real(f"edwc!{tr.n}_im"))
        return tr.scalar(g0) * tr.contract_vars[key]

    tr.specs[EnergyDependentWidth] = edw


def replay_bw(lhs_fn, rhs_fn, what):
    def rep(model):
        rng = np.random.default_rng(7)
        mv = C.model_values(model)
        cands = []
        if all(k in mv for k in ("s", "m_1")):
            base = C.sample_point(rng, 1, 1)
            base.update({k: v for k, v in mv.items() if k in base})
            cands.append(base)
        cands += [C.sample_point(rng, 1, 1) for _ in range(4)]
        last = None
        for vals in cands:
            a, c = complex(numeric(lhs_fn(), vals, default=1.0)), complex(numeric(rhs_fn(), vals, default=1.0))
            last = {"reproduced": bool(not abs(a - c) <= 1e-8 * (1 + abs(a) + abs(c))), "what": what, "input": vals, "expected": str(c), "observed": str(a)}
            if last["reproduced"]:
                return last
        return last

    return rep


def breit_wigner(chk: Check, ells) -> None:
    s, B, R = lib_symbols()
    m, G, g, b = B["m"][1], B["Gamma"][1, 0], B["gamma"][1, 0], B["beta"][1]
    ma, mb = B["m_a"][0], B["m_b"][0]
    # -- relativistic_breit_wigner itself: gamma0 m / (m^2 - s - i gamma0 m)
    fn = FD + "relativistic_breit_wigner"
    tr = KTr("bw")
    w = sp.Symbol("w", real=True)
    v = tr.scalar(relativistic_breit_wigner(s, m, w))
    sv, mv_, wv = tr.scalar(s).re, tr.scalar(m).re, tr.scalar(w).re
    req = [z3.Or(mv_ * mv_ != sv, wv * mv_ != 0)]
    add_wd(chk, "relativistic_breit_wigner|denominator!=0", tr, req, fn, replay=search)
    den = Cx(mv_ * mv_ - sv, -wv * mv_)
    chk.smt("relativistic_breit_wigner==gamma0 m/(m^2-s-i gamma0 m)", req + tr.hyps(), (v * den).eq(Cx(wv * mv_)), function=fn, lemma=True, replay=search)
    # -- (c1) non-relativistic K-matrix
    fn = FK + "NonRelativisticKMatrix.formulate"
    t11 = NRK.formulate(1, 1)[0, 0]
    bw = relativistic_breit_wigner(s, m, g**2 * G)
    tr = KTr("c1")
    req = [tr.scalar(m**2).re != tr.scalar(s).re]
    rep = replay_bw(lambda: NRK.formulate(1, 1)[0, 0], lambda: bw, "NonRelativisticKMatrix.formulate(1;1)[0;0] == relativistic_breit_wigner(s; m; gamma^2 Gamma)")
    lhs = chk.guarded("NonRelativisticKMatrix.formulate[n=1;poles=1]==BW", lambda: (tr.scalar(t11), tr.scalar(bw)), fn, replay=search)
    if lhs is not None:
        add_wd(chk, "NonRelativisticKMatrix.formulate[n=1;poles=1]==BW|s!=m^2", tr, req, fn, replay=rep, lemma=False)
        chk.smt("NonRelativisticKMatrix.formulate[n=1;poles=1].T==relativistic_breit_wigner(Gamma->gamma^2 Gamma)", req + tr.hyps(), lhs[0].eq(lhs[1]), function=fn, replay=rep)
        chk.cover("NonRelativisticKMatrix.formulate[n=1;poles=1]==BW.cover", req + tr.hyps() + [tr.scalar(G).re > 0, tr.scalar(g).re > 0, tr.scalar(m).re > 0], fn,
                  model_check=C.cover_cmp(lhs[0], t11))
    # -- (c2) non-relativistic P-vector
    fn = FK + "NonRelativisticPVector.formulate"
    f11 = NRP.formulate(1, 1)[0]
    tr = KTr("c2")
    req = [tr.scalar(m**2).re != tr.scalar(s).re]
    rep = replay_bw(lambda: g * NRP.formulate(1, 1)[0], lambda: b * bw, "gamma * NonRelativisticPVector.formulate(1;1)[0] == beta * relativistic_breit_wigner(s; m; gamma^2 Gamma)")
    val = chk.guarded("NonRelativisticPVector.formulate[n=1;poles=1]==beta BW", lambda: (tr.scalar(f11), tr.scalar(bw), tr.scalar(relativistic_breit_wigner(s, m, G)),
                                                                                         tr.scalar(C.expand_sums(f11).xreplace({g: sp.Integer(1)}))), fn, replay=search)
    if val is not None:
        fv, bwv, bw1, f1 = val
        add_wd(chk, "NonRelativisticPVector.formulate[n=1;poles=1]==beta BW|s!=m^2", tr, req, fn, replay=rep, lemma=False)
        chk.smt("NonRelativisticPVector.formulate[n=1;poles=1].gamma*F==beta*relativistic_breit_wigner(Gamma->gamma^2 Gamma)", req + tr.hyps(),
                (tr.scalar(g) * fv).eq(tr.scalar(b) * bwv), function=fn, replay=rep)
        chk.smt("NonRelativisticPVector.formulate[n=1;poles=1].F==beta*relativistic_breit_wigner|gamma=1", req + tr.hyps(), f1.eq(tr.scalar(b) * bw1), function=fn, replay=rep)
    # -- lemma: EnergyDependentWidth is linear in gamma0 (factor independent of gamma0), inner nodes opaque
    fn = FD + "EnergyDependentWidth.evaluate"
    m0, g0, m1, m2 = sp.symbols("m0 Gamma0 m1 m2", nonnegative=True)
    for ph, ell, tagl in [(PhaseSpaceFactor, L_SYM, "L=symbolic;PhaseSpaceFactor"), (X, L_SYM, "L=symbolic;X")] + [(PhaseSpaceFactor, sp.Integer(e), f"L={e};PhaseSpaceFactor") for e in ells]:
        node = EnergyDependentWidth(s, m0, g0, m1, m2, ell, D_SYM, ph)
        body = node.evaluate()
        tr = KTr("lin")
        opaque_contracts(tr)
        del tr.specs[EnergyDependentWidth]
        inner = [a for a in sp.preorder_traversal(body) if isinstance(a, (FormFactor, sp.core.function.AppliedUndef) + CONCRETE_PHSP)]
        chk.struct(f"EnergyDependentWidth.evaluate[{tagl}].inner_nodes_independent_of_gamma0", bool(inner) and all(g0 not in a.free_symbols for a in inner), fn,
                   witness=str(inner)[:200], lemma=True, replay=search)
        v = chk.guarded(f"EnergyDependentWidth.evaluate[{tagl}]", lambda: (tr.scalar(body), tr.scalar(body.xreplace({g0: sp.Integer(1)}))), fn, replay=search)
        if v is None:
            continue
        wd = [c for _, c, _ in tr.wd]
        chk.smt(f"EnergyDependentWidth.evaluate[{tagl}].linear_in_gamma0", wd + tr.hyps(), v[0].eq(tr.scalar(g0) * v[1]), function=fn, lemma=True, replay=search)
    # -- (c3) relativistic P-vector, sqrt(rho) -> 1 as the documentation does
    fn = FK + "RelativisticPVector.formulate"
    for ph, ell, tagl in [(PhaseSpaceFactor, sp.Integer(e), f"L={e}") for e in ells] + [(PhaseSpaceFactor, L_SYM, "L=symbolic"), (X, L_SYM, "L=symbolic;phsp=X")]:
        for hat in (False, True):
            kw = {"angular_momentum": ell, "meson_radius": D_SYM, "return_f_hat": hat}
            if ph is not PhaseSpaceFactor:
                kw["phsp_factor"] = ph
            tag = f"n=1;poles=1;{tagl};hat={hat}"

            def reduced(kw=kw, ph=ph):
                fr = RLP.formulate(1, 1, **kw)[0]
                rho = sp.sqrt(ph(s, ma, mb))
                return fr.xreplace({rho: sp.Integer(1), sp.conjugate(rho): sp.Integer(1)})

            fr = reduced()
            bwff = relativistic_breit_wigner_with_ff(s, m, g**2 * G, ma, mb, ell, D_SYM, ph)
            bwff1 = relativistic_breit_wigner_with_ff(s, m, G, ma, mb, ell, D_SYM, ph)
            ckw = concrete_kw(kw)

            def lhs_num(ckw=ckw):
                fr_ = RLP.formulate(1, 1, **ckw)[0]
                rho_ = sp.sqrt(ckw.get("phsp_factor", PhaseSpaceFactor)(s, ma, mb))
                return g * fr_.xreplace({rho_: sp.Integer(1), sp.conjugate(rho_): sp.Integer(1)})

            def rhs_num(ckw=ckw):
                return b * relativistic_breit_wigner_with_ff(s, m, g**2 * G, ma, mb, ckw["angular_momentum"], ckw["meson_radius"], ckw.get("phsp_factor", PhaseSpaceFactor))

            rep = replay_bw(lhs_num, rhs_num, f"gamma * RelativisticPVector.formulate(1;1;{C.kw_tag(ckw)})[0] with sqrt(rho)->1 == beta * relativistic_breit_wigner_with_ff(Gamma->gamma^2 Gamma)")
            left = [a for a in sp.preorder_traversal(fr) if isinstance(a, sp.Pow) and a.exp == sp.Rational(1, 2) and isinstance(a.base, (sp.core.function.AppliedUndef,) + CONCRETE_PHSP)]
            chk.struct(f"RelativisticPVector.formulate[{tag}].sqrt_rho_removed_by_the_documented_substitution", not left, fn, witness=str(left)[:200], replay=rep)
            tr = KTr("c3")
            opaque_contracts(tr)
            val = chk.guarded(f"RelativisticPVector.formulate[{tag}]==beta BW_ff", lambda: (tr.scalar(fr), tr.scalar(bwff), tr.scalar(bwff1), tr.scalar(C.expand_sums(fr).xreplace({g: sp.Integer(1)}))), fn, replay=search)
            if val is None:
                continue
            fv, bwv, bw1, f1 = val
            wd = [c for _, c, _ in tr.wd]
            chk.smt(f"RelativisticPVector.formulate[{tag}].gamma*F[sqrt rho->1]==beta*relativistic_breit_wigner_with_ff(Gamma->gamma^2 Gamma)", wd + tr.hyps(),
                    (tr.scalar(g) * fv).eq(tr.scalar(b) * bwv), function=fn, replay=rep)
            chk.smt(f"RelativisticPVector.formulate[{tag}].F[sqrt rho->1]==beta*relativistic_breit_wigner_with_ff|gamma=1", wd + tr.hyps(), f1.eq(tr.scalar(b) * bw1), function=fn, replay=rep)
            if tagl == "L=1" and not hat:
                chk.cover(f"RelativisticPVector.formulate[{tag}]==beta BW_ff.cover", wd + tr.hyps() + [tr.scalar(b).re > 0, tr.scalar(g).re > 1], fn)


# ======================================================================================================================
def build(chk: Check) -> None:
    quick = chk.tier == "quick"
    chk.assume("A-arith: floats treated as exact reals")
    chk.assume("A-denote: translation table (vlib/tr.py; Indexed leaves = variables, Sum with integer limits = finite sum), cross-checked at cover models")
    chk.assume("A-pure: the caller's phase-space factor is a deterministic function the code under contract cannot inspect (one opaque SymPy function X stands for every "
               "PhaseSpaceFactorProtocol implementation); likewise the symbols passed as angular_momentum and meson_radius")
    chk.assume("opaque nodes: pole sums, EnergyDependentWidth (= gamma0 * c by the lemma linear_in_gamma0), FormFactor and phase-space nodes are one variable per syntactically distinct node "
               "(sound for validity: fewer equalities are known than are true)")
    chk.assume("(a) relativistic: sqrt(rho_i) is any non-zero complex number sigma_i with rho_i = sigma_i^2 (the principal root is one of them)")
    chk.assume("requires det(1 - iK) != 0 (relativistic: det(1 - i K-hat rho) != 0 and rho_i != 0): F is undefined otherwise")
    chk.assume("(c) requires s != m^2 (K and P have their pole there) and non-zero denominators of the Breit-Wigner")
    chk.trust("z3 5.1.0 / cvc5 1.4 unsat answers")
    chk.trust("numpy evaluation (lambdify) of the real trees in replays and cover cross-checks")
    ns = (1, 2)
    poles = (1, 2) if quick else (1, 2, 3)
    ells = tuple(range(5))

    for n in ns if quick else (1, 2, 3):
        create_matrices_nr(chk, n)
    for n in ns:
        create_matrices_rel(chk, n)

    for n in ns if quick else (1, 2, 3):
        for p in poles:
            formulate_equation(chk, NRP, n, p, {})
    for n in ns:
        for p in poles:
            for kw in ({}, {"return_f_hat": True}, {"angular_momentum": 1, "meson_radius": D_SYM},
                       {"phsp_factor": X, "angular_momentum": L_SYM, "meson_radius": D_SYM}, {"phsp_factor": X, "angular_momentum": L_SYM, "meson_radius": D_SYM, "return_f_hat": True}):
                formulate_equation(chk, RLP, n, p, kw)
    C.phsp_factor_history(chk, RLP, FK + "RelativisticPVector.formulate")
    C.phsp_factor_history(chk, RLP, FK + "RelativisticPVector.formulate", {"return_f_hat": True})

    passthrough_all(chk, ns, poles)
    breit_wigner(chk, ells)
