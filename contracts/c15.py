"""C15 — pickle round trip of a model (and of every expression the library builds) is the identity.

Assumed protocol (pickle documentation + sympy.Basic, smoke-checked per class on every run): an expression x is rebuilt as
`type(x).__new__(type(x), *x.__getnewargs__())` (or `*args, **kwargs` of `__getnewargs_ex__`), `Basic.__getstate__` is None, so
nothing else is restored; children of the argument tuple are pickled first (structural induction).

Obligations
 O-rt[C]      (E3, per decorated class, induction step) new_method(C, *C.__getnewargs__(x)) has the same fields and args as x for an
              arbitrary instance x whose field values are arbitrary objects (incl. nested unevaluated instances), given that the
              children round-trip. Base case (SymPy's own node classes, None / str / classes as attributes): assumed, smoke-checked.
 legacy       deprecated UnevaluatedExpression: __new__(cls, *a, **kw) of __getnewargs_ex__() reproduces args and name (E3).
 helper.*     C(*x.args) == x for instances of the non-decorated helper classes (bounded).
 converter.*  the three attrs converters of HelicityModel are idempotent (shape of the real source + assumed contract of sorted;
              executed on real mappings, bounded).
 pickle.*     real round trips in the same process and in a fresh interpreter of one instance of every expression class (plain,
              nested unevaluated arguments, non-SymPy attributes) and of formulated zoo models; every attribute compared with == and
              srepr (bounded).
"""

from __future__ import annotations

import ast
import copyreg
import dataclasses
import inspect
import textwrap
from typing import Any

import sympy as sp
import z3

from ampform.helicity import HelicityModel
from ampform.sympy import _decorator as D
from contracts import decorator_common as K
from vlib.core import Check
from vlib.pyvc import Exc, Obj, Rec, SV, State, Unsupported

LEVEL = "proof"
ENGINE = "E3 pyvc + E5 harness"
CLAIM = (
    "Per introspected decorated class, the induction step of the round trip -- the generated constructor applied to the class's real "
    "__getnewargs__ (today dataclasses.astuple, under its assumed contract) reproduces every field and the args of an arbitrary instance, "
    "for all field values incl. nested unevaluated instances -- is a VC from the real source, discharged by z3; likewise the deprecated "
    "__getnewargs_ex__/__new__ pair. Helper-class rebuild, converter idempotence and real same-process / fresh-process round trips of "
    "every expression class and of zoo models are executed on the real code (bounded, labelled)."
)
NOTE = (
    "Assumed: pickle protocol 2+ reconstruction via copyreg.__newobj__(cls, *__getnewargs__()) with Basic.__getstate__() = None "
    "(smoke-checked per class), round trip of SymPy's own node classes and of None/str/class attributes (base case, smoke-checked), "
    "dataclasses.astuple/fields, sp.sympify identity on Basic, Basic.__new__, sorted() stable and idempotent on its own output. "
    "'Numerically identical when evaluated' follows from tree equality; there is no separate obligation. Round trips of whole models are "
    "instance-level (zoo x configurations), never counted as proved."
)
TECHNIQUE = (
    "contract-based deductive verification: E3 symbolic execution of the real __getnewargs__ binding and generated constructor on "
    "abstract instances (structural induction step), z3; bounded execution of real pickle round trips in the same and in a fresh process"
)

F_NEW = K.DEC + "_implement_new_method.new_method"
F_GNA = K.DEC + "_implement_new_method (cls.__getnewargs__ binding)"
F_LEGACY = "ampform.sympy.deprecated.UnevaluatedExpression.__getnewargs_ex__"
F_MODEL = "ampform.helicity.HelicityModel"


# =====================================================================================================
# O-rt (E3)
# =====================================================================================================
def search_roundtrip(c: type):
    n = 0
    for label, x in K.expression_pool():
        if type(x) is c:
            n += 1
            r = K.roundtrip_same(x)
            if r["reproduced"]:
                r["case"] = label
                return r
    return {"reproduced": False, "note": f"{n} real instances of {c.__name__} round-trip"}


def replay_roundtrip(c: type):
    def rep(model):
        try:
            inst, _, _ = K.concretise(c, model)
            r = K.roundtrip_same(inst)
            if r["reproduced"]:
                r["concretised_from"] = {k: v for k, v in model.items() if k.endswith(".is_dataclass_instance")}
                return r
        except Exception:  # noqa: BLE001
            pass
        return search_roundtrip(c)

    return rep


def getnewargs_of(c: type):
    f = K.get_arguments_function(c)
    return f


def e3_roundtrip(chk: Check, c: type) -> bool:
    nm = c.__name__
    pre = f"O-rt[{nm}]"
    search = lambda m: search_roundtrip(c)  # noqa: E731
    gna = getnewargs_of(c)
    ex = K.new_executor(f"rt.{nm}")
    if gna is not dataclasses.astuple and inspect.isfunction(gna):
        ex.inline.add(gna)
    x, fx, inv = K.abstract_instance(ex, c)
    st = State()
    st.pc += inv + K.flag_defs(ex, c, fx)
    finals = []
    try:
        for st2, b in ex.apply(gna, [x], {}, st):
            if isinstance(b, Exc):
                finals.append((st2, "raise", b))
                continue
            if isinstance(b, SV):
                raise Unsupported("__getnewargs__ returns an opaque object (not a tuple of field values)")
            for st3, kind, val in ex.call_function(K.real_new_method(c), st2, [c, *b], {}):
                finals.append((st3, kind, val))
    except K.E3_ERRORS as e:
        K.left_subset(chk, pre, F_GNA, e, search, [f"{pre}.never_raises", f"{pre}.same_fields_and_args", f"{pre}.cover", f"selftest.{pre}.first_field_always_differs"])
        return False
    chk.struct(f"{pre}.in_supported_subset", True, F_GNA, lemma=True)
    K.note_assumptions(chk, ex)
    same, no_exc, first = [], [], None
    for st3, kind, val in finals:
        pc = K.conj(st3.pc)
        if kind == "raise":
            no_exc.append(z3.Not(pc))
            continue
        if not isinstance(val, Rec) or any(f.name not in val.attrs for f in K.fields(c)) or len(val.attrs["_args"]) != len(x.attrs["_args"]):
            same.append(z3.Not(pc))
            continue
        same.append(z3.Implies(pc, z3.And(
            K.conj(ex.as_obj(val.attrs[f.name]) == fx[f.name].t for f in K.fields(c)),
            K.conj(ex.as_obj(a) == ex.as_obj(b) for a, b in zip(val.attrs["_args"], x.attrs["_args"])))))
        first = first or (st3, val)
    rep = replay_roundtrip(c)
    chk.smt(f"{pre}.never_raises", [], K.conj(no_exc), function=F_NEW, replay=rep, tactics=("default",))
    chk.smt(f"{pre}.same_fields_and_args", [], K.conj(same), function=F_NEW, replay=rep, tactics=("default",))
    for o in ex.obligations:
        chk.smt(f"{pre}.{o.name}", o.hyps, o.claim, function=F_NEW, lemma=True, replay=search, tactics=("default",))
    if first is not None:
        st3, val = first
        f0 = K.fields(c)[0]
        chk.cover(f"{pre}.cover", list(st3.pc), F_NEW)
        chk.mustfail(f"selftest.{pre}.first_field_always_differs", list(st3.pc), ex.as_obj(val.attrs[f0.name]) != fx[f0.name].t, function=F_NEW)
    else:
        chk.struct(f"{pre}.has_return_path", False, F_NEW, witness="constructor never returns", lemma=True, replay=search)
    return True


def protocol_checks(chk: Check, decorated: list[type]) -> None:
    """The assumed reconstruction protocol, observed on one real instance per class."""
    for c in decorated:
        try:
            x = K.attr_instance(c) if K.nonsympy_fields(c) else K.plain_instance(c)
            red = x.__reduce_ex__(2)
            ok = red[0] is copyreg.__newobj__ and red[1][0] is c and tuple(red[1][1:]) == tuple(c.__getnewargs__(x)) and red[2] is None
            detail = f"reduce_ex(2) = ({getattr(red[0], '__name__', red[0])}, {red[1]!r:.120}, state={red[2]!r})"
        except Exception as e:  # noqa: BLE001
            ok, detail = False, f"{type(e).__name__}: {e}"
        chk.struct(f"assumed.pickle_protocol[{c.__name__}]", ok, "pickle protocol (smoke check)", witness=detail, lemma=True, bounded=True,
                   replay=lambda m, c=c: search_roundtrip(c))
    # base case of the induction
    from sympy.tensor.array.expressions.array_expressions import ArraySymbol

    a, b = sp.symbols("a b")
    pos = sp.Symbol("m", nonnegative=True)
    base = [a, pos, a + b**2, sp.Integer(3), sp.Rational(1, 2), sp.Float(1.5), sp.Tuple(a, b), ArraySymbol("p", shape=[]), sp.IndexedBase("A")[a, 1],
            sp.Piecewise((a, a > 0), (b, True)), sp.sqrt(a), sp.I * sp.pi, sp.Dummy("k"), sp.Function("f")(a)]
    bad = [str(v) for v in base if K.roundtrip_same(v)["reproduced"]]
    chk.struct("assumed.sympy_own_classes_roundtrip", not bad, "pickle / sympy (smoke check)", witness=bad, lemma=True, bounded=True,
               replay=lambda m: {"reproduced": False})
    import pickle

    attrs = [None, "name", 1, decorated[0], K.LegacyExpr]
    bad = [repr(v) for v in attrs if pickle.loads(pickle.dumps(v)) != v and pickle.loads(pickle.dumps(v)) is not v]  # noqa: S301
    chk.struct("assumed.non_sympy_attributes_roundtrip", not bad, "pickle (smoke check)", witness=bad, lemma=True, bounded=True, replay=lambda m: {"reproduced": False})


# ---- deprecated UnevaluatedExpression ------------------------------------------------------------------------------
def n_object_new(ex, st, args, kwargs):
    cls = args[0]
    if not inspect.isclass(cls):
        raise Unsupported("object.__new__ of an abstract class")
    ex.fresh_n += 1
    yield st, Rec("Inst", {"__obj__": z3.Const(f"new!{cls.__name__}!{ex.fresh_n}", Obj)}, real_class=cls)


def legacy_search():
    a, b = sp.symbols("a b")
    for x in (K.LegacyExpr(a, b, name="nm"), K.LegacyExpr(a, b), K.LegacyExpr(a, K.LegacyExpr(b, a, name="inner"))):
        r = K.roundtrip_same(x)
        if r["reproduced"] or x.func(*x.args, name=x._name) != x:  # noqa: SLF001
            r["reproduced"] = True
            return r
    return {"reproduced": False, "note": "deprecated-style instances round-trip"}


def e3_legacy(chk: Check) -> None:
    from ampform.sympy.deprecated import UnevaluatedExpression as U

    pre = "legacy.getnewargs_ex"
    search = lambda m: legacy_search()  # noqa: E731
    ex = K.new_executor("legacy")
    ex.natives["object.__new__"] = n_object_new
    a0, a1, name = (SV(z3.Const(n, Obj), "obj") for n in ("x.arg0", "x.arg1", "x._name"))
    x = Rec("Inst", {"args": (a0, a1), "_args": (a0, a1), "_name": name, "__obj__": z3.Const("x!self", Obj)}, real_class=K.LegacyExpr)
    finals = []
    try:
        for oc in K.run_paths(ex, U.__getnewargs_ex__, [x]):
            if oc.kind == "return" and not (isinstance(oc.value, tuple) and len(oc.value) == 2 and isinstance(oc.value[1], dict)):
                # the executor returned an OPAQUE value (an abstraction of a call it does not model): its shape is unknown, not wrong
                raise Unsupported(f"__getnewargs_ex__ returns a value the executor cannot see into: {str(oc.value)[:80]}")
            if oc.kind != "return":
                finals.append((oc.st, "raise", oc.value))
                continue
            args, kwargs = oc.value
            for st3, kind, val in ex.call_function(U.__new__, oc.st, [K.LegacyExpr, *args], {str(k): v for k, v in kwargs.items()}):
                finals.append((st3, kind, val))
    except K.E3_ERRORS as e:
        K.left_subset(chk, pre, F_LEGACY, e, search, [f"{pre}.new_of_getnewargs_ex_reproduces_args_and_name", f"{pre}.has_return_path"])
        r = legacy_search()
        chk.struct("legacy.instances_roundtrip", not r["reproduced"], F_LEGACY, witness=r, replay=lambda m: r, bounded=True)
        return
    chk.struct(f"{pre}.in_supported_subset", True, F_LEGACY, lemma=True)
    ok = []
    for st3, kind, val in finals:
        pc = K.conj(st3.pc)
        if kind != "return" or not isinstance(val, Rec) or "_args" not in val.attrs or "_name" not in val.attrs or len(val.attrs["_args"]) != 2:
            ok.append(z3.Not(pc))
            continue
        ok.append(z3.Implies(pc, z3.And(ex.as_obj(val.attrs["_args"][0]) == a0.t, ex.as_obj(val.attrs["_args"][1]) == a1.t, ex.as_obj(val.attrs["_name"]) == name.t)))
    chk.smt(f"{pre}.new_of_getnewargs_ex_reproduces_args_and_name", [], K.conj(ok), function=F_LEGACY, replay=search, tactics=("default",))
    chk.struct(f"{pre}.has_return_path", any(k == "return" for _, k, _ in finals), F_LEGACY, lemma=True, replay=search)
    r = legacy_search()
    chk.struct("legacy.instances_roundtrip", not r["reproduced"], F_LEGACY, witness=r, replay=lambda m: r, bounded=True)


# =====================================================================================================
# helper classes, converters
# =====================================================================================================
def helper_rebuild(chk: Check) -> None:
    seen = set()
    for label, x in K.helper_instances():
        c = type(x)
        seen.add(c)
        try:
            y = x.func(*x.args)
            ok, obs = K.same_tree(x, y), K.short(y)
        except Exception as e:  # noqa: BLE001
            ok, obs = False, f"{type(e).__name__}: {e}"
        r = {"reproduced": not ok, "input": f"x.func(*x.args) for x = {x}", "input_srepr": K.short(x), "expected": K.short(x), "observed": obs}
        chk.struct(f"helper.rebuild[{label}]", ok, f"{K.qual(c)}.__new__", witness=r, replay=lambda m, r=r: r, bounded=True)
    missing = [K.qual(c) for c in K.discover()["helpers"] if c not in seen]
    chk.struct("helper.every_helper_class_has_an_instance", not missing, "contracts.decorator_common.helper_instances", witness=missing, lemma=True,
               replay=lambda m: {"reproduced": False, "note": f"no sample instance for {missing}"})


def converters() -> list[tuple[str, Any]]:
    """(attribute, converter) of the real attrs class."""
    import attrs

    return [(a.name, a.converter) for a in attrs.fields(HelicityModel) if a.converter is not None]


def _is_sorted_rebuild(func, depth: int = 0) -> tuple[bool, str]:
    """Shape of the real source: the result is `OrderedDict([(k, m[k]) for k in KEYS])` with m the mapping parameter and KEYS either
    `sorted(m, key=...)` itself or a local that every assignment binds to `sorted(m, key=...)` (branches allowed); a converter that only
    forwards its parameter to such a helper of the package (`return helper(m, ...)`) is followed (two levels)."""
    try:
        tree = ast.parse(textwrap.dedent(inspect.getsource(func))).body[0]
    except Exception as e:  # noqa: BLE001
        return False, f"no source: {e}"
    if not isinstance(tree, ast.FunctionDef) or not tree.args.args:
        return False, "not a function with a positional parameter"
    if depth == 0 and len(tree.args.args) != 1:
        return False, "not a one-parameter function"
    m = tree.args.args[0].arg
    body = [s for s in tree.body if not (isinstance(s, ast.Expr) and isinstance(s.value, ast.Constant))]
    if not body or not isinstance(body[-1], ast.Return) or not isinstance(body[-1].value, ast.Call):
        return False, "body does not end in the return of a call"
    call = body[-1].value
    callee = ast.unparse(call.func)
    if len(body) == 1 and depth < 2 and call.args and ast.unparse(call.args[0]) == m and not any(isinstance(a, ast.Starred) for a in call.args):
        target = getattr(func, "__globals__", {}).get(callee)
        if inspect.isfunction(target) and (target.__module__ or "").startswith("ampform"):
            ok, detail = _is_sorted_rebuild(target, depth + 1)
            return ok, f"{callee}: {detail}"
    if callee.split(".")[-1] not in {"OrderedDict", "dict"} or len(call.args) != 1 or not isinstance(call.args[0], (ast.ListComp, ast.GeneratorExp)):
        return False, "does not build an (ordered) dict from a list comprehension / generator expression"
    comp = call.args[0]
    if len(comp.generators) != 1 or comp.generators[0].ifs:
        return False, "comprehension filters or nests"
    g = comp.generators[0]
    k = ast.unparse(g.target)
    if ast.unparse(comp.elt) not in {f"({k}, {m}[{k}])"}:
        return False, f"element is {ast.unparse(comp.elt)}, expected ({k}, {m}[{k}])"

    def is_sorted_m(it) -> bool:
        return (isinstance(it, ast.Call) and ast.unparse(it.func) == "sorted" and len(it.args) == 1 and ast.unparse(it.args[0]) == m
                and all(kw.arg == "key" for kw in it.keywords))

    it = g.iter
    if is_sorted_m(it):
        keys_name = None
    elif isinstance(it, ast.Name):
        keys_name = it.id
    else:
        return False, f"iterates over {ast.unparse(it)}, expected sorted({m}, key=...)"
    # the statements before the return: only (nested) if/else whose leaves bind KEYS to sorted(m, key=...); nothing rebinds or mutates m
    bound = []

    def leaves(stmts) -> str | None:
        for st_ in stmts:
            if isinstance(st_, ast.Expr) and isinstance(st_.value, ast.Constant):
                continue
            if isinstance(st_, ast.FunctionDef) and st_.name not in {m, keys_name, "sorted", "dict", "OrderedDict", "collections"}:
                continue  # a local helper definition (e.g. the sort key): defining it has no effect on m or on the key order
            if isinstance(st_, ast.If):
                if any(isinstance(x, (ast.Call, ast.NamedExpr)) for x in ast.walk(st_.test)):
                    return f"branch condition {ast.unparse(st_.test)} calls something"
                for part in (st_.body, st_.orelse):
                    r = leaves(part)
                    if r:
                        return r
                continue
            if isinstance(st_, (ast.Assign, ast.AnnAssign)):
                targets = st_.targets if isinstance(st_, ast.Assign) else [st_.target]
                if len(targets) == 1 and isinstance(targets[0], ast.Name) and targets[0].id == keys_name and st_.value is not None and is_sorted_m(st_.value):
                    bound.append(ast.unparse(st_.value))
                    continue
            return f"statement `{ast.unparse(st_)[:80]}` is not a binding of the key order to sorted({m}, key=...)"
        return None

    r = leaves(body[:-1])
    if r:
        return False, r
    if keys_name is not None:
        # every path must bind KEYS: an if without else (or an empty branch) could leave it unbound/stale -> require if/else pairs or a plain binding
        def binds(stmts) -> bool:
            for st_ in stmts:
                if isinstance(st_, (ast.Assign, ast.AnnAssign)):
                    return True
                if isinstance(st_, ast.If) and st_.orelse and binds(st_.body) and binds(st_.orelse):
                    return True
            return False

        if not binds(body[:-1]):
            return False, f"{keys_name} is not bound on every path"
        return True, " | ".join(bound)
    return True, ast.unparse(it)


def converter_case(conv, mapping) -> dict[str, Any] | None:
    once = conv(mapping)
    twice = conv(once)
    if list(once.items()) != list(twice.items()) or type(once) is not type(twice):
        return {"reproduced": True, "input": f"{conv.__name__} applied twice to a mapping with keys {[str(k) for k in mapping][:6]}",
                "expected": [str(k) for k in once][:8], "observed": [str(k) for k in twice][:8]}
    if set(once) != set(mapping) or any(once[k] is not mapping[k] and once[k] != mapping[k] for k in mapping):
        return {"reproduced": True, "input": f"{conv.__name__}", "expected": "same items", "observed": "items changed"}
    return None


def converter_checks(chk: Check, models: list[tuple[str, Any]]) -> None:
    chk.assume("assumed contract [sorted]: sorted(xs, key=k) is a stable sort by a deterministic key, hence sorted(sorted(xs, key=k), key=k) == "
               "sorted(xs, key=k) (ties keep their order: natural_sorting drops signs, so A[-1,..] and A[1,..] tie and their relative order is the "
               "insertion order -- idempotence does not depend on that, determinism of the order is C06's subject)")
    convs = converters()
    chk.struct("converter.three_ordering_converters_found", len([n for n, f in convs if f.__name__.startswith("_order_")]) == 3, F_MODEL,
               witness=[(n, f.__name__) for n, f in convs], lemma=True, replay=lambda m: {"reproduced": False})
    a, b = sp.symbols("a b")
    A = sp.IndexedBase("A")
    synthetic = {
        "amplitudes": {A[1, 10]: a, A[1, 2]: b, A[0, 0]: a + b, A[-1, 2]: a * b},
        "kinematic_variables": {sp.Symbol("m_12"): a, sp.Symbol("m_2"): b, sp.Symbol("phi_1^12"): a + b, sp.Symbol("m_10"): a * b},
        "components": {"I_{10}": a, "I_{2}": b, "A_{x}": a + b, "I_{1}": a * b},
        "parameter_defaults": {sp.Symbol("C10"): 1.0, sp.Symbol("C2"): 2, a: 1 + 1j},
    }
    for attr, conv in convs:
        fn = f"ampform.helicity.{conv.__name__}"
        def search(m, attr=attr, conv=conv):
            for label, model in models:
                r = converter_case(conv, dict(getattr(model, attr)))
                if r:
                    r["model"] = label
                    return r
            if attr in synthetic:
                r = converter_case(conv, synthetic[attr])
                if r:
                    return r
            return {"reproduced": False, "note": f"{conv.__name__} is idempotent on {len(models)} models and on a synthetic mapping"}

        if conv.__name__.startswith("_order_"):
            ok, detail = _is_sorted_rebuild(conv)
            chk.struct(f"converter.idempotent[{attr}].sorted_rebuild_shape", ok, fn, witness=detail, lemma=True, replay=search)
        r = search(None)
        chk.struct(f"converter.idempotent[{attr}].on_models", not r["reproduced"], fn, witness=r, replay=lambda m, r=r: r, bounded=True)


# =====================================================================================================
# real round trips
# =====================================================================================================
QUICK_FRESH = ("EuclideanNorm|nested", "BoostZMatrix|nested", "PhaseSpaceFactor|attrs", "EnergyDependentWidth|nested", "Kallen|plain",
               "PoolSum|helper", "ArraySlice|helper", "ArraySlice(range)|helper", "LegacyExpr|deprecated", "FormFactor|nested")


def real_roundtrips(chk: Check, tier: str, models: list[tuple[str, Any]]) -> None:
    pool = K.expression_pool()
    by_class: dict[str, list] = {}
    for label, x in pool:
        # results of doit() are their own group: <Class>.doit()
        by_class.setdefault(label.split("|")[0] + (".doit()" if label.endswith(".doit_result") else ""), []).append((label, x, K.roundtrip_same(x)))
    for cname, entries in by_class.items():
        fails = [dict(r, case=label) for label, _, r in entries if r["reproduced"]]
        chk.struct(f"pickle.same_process[{cname}]", not fails, f"{K.qual(type(entries[0][1]))}.__getnewargs__",
                   witness={"variants": [l for l, _, _ in entries], "failing": [f["case"] for f in fails], "first": fails[:1]},
                   replay=lambda m, fails=fails: fails[0] if fails else {"reproduced": False}, bounded=True)
    fresh = [(label, x) for label, x in pool if tier != "quick" or label in QUICK_FRESH]
    quick_models = {f"{n}/{f}" for n, f in K.QUICK_MODELS[:2]}
    fresh_models = [(label, m) for label, m in models if tier != "quick" or (label.rsplit("/", 1)[0] in quick_models and label.rsplit("/", 1)[1] in {"default", "bw_ff"})]
    answers = K.roundtrip_fresh([(f"expr:{label}", x) for label, x in fresh] + [(f"model:{label}", m) for label, m in fresh_models])
    n_fresh = 0
    for label, x in fresh:
        r = answers[f"expr:{label}"]
        if "error" in r:
            chk.struct(f"pickle.fresh_process[{label}]", False, f"{K.qual(type(x))}.__getnewargs__", witness=r, lemma=True, bounded=True,
                       replay=lambda m, x=x: K.roundtrip_same(x))
            continue
        n_fresh += bool(r.get("fresh_process"))
        chk.struct(f"pickle.fresh_process[{label}]", not r["reproduced"], f"{K.qual(type(x))}.__getnewargs__", witness=r, replay=lambda m, r=r: r, bounded=True)
    for label, model in models:
        r = K.roundtrip_same(model)
        chk.struct(f"pickle.same_process[model:{label}]", not r["reproduced"], F_MODEL, witness=r, replay=lambda m, r=r: r, bounded=True)
    for label, model in fresh_models:
        r = answers[f"model:{label}"]
        if "error" in r:
            chk.struct(f"pickle.fresh_process[model:{label}]", False, F_MODEL, witness=r, lemma=True, bounded=True, replay=lambda m, model=model: K.roundtrip_same(model))
            continue
        n_fresh += bool(r.get("fresh_process"))
        chk.struct(f"pickle.fresh_process[model:{label}]", not r["reproduced"], F_MODEL, witness=r, replay=lambda m, r=r: r, bounded=True)
    chk.struct("pickle.fresh_process.ran_in_another_interpreter", n_fresh > 0 or not (fresh or fresh_models), "contracts.decorator_common.roundtrip_fresh",
               witness=f"{n_fresh} objects were loaded by a child process with a different pid", lemma=True, replay=lambda m: {"reproduced": False})
    chk.extra["pickle"] = {"expression_instances": len(pool), "fresh_process_expressions": len(fresh), "models": [l for l, _ in models],
                           "fresh_process_models": [l for l, _ in fresh_models]}


# =====================================================================================================
def build(chk: Check) -> None:
    tier = chk.tier
    chk.trust("z3 5.1.0 / cvc5 1.4 unsat answers")
    chk.trust("vlib/pyvc.py + contracts/decorator_common.py (symbolic executor, path merging, natives)")
    chk.trust("CPython pickle / copyreg; qrules objects (ReactionInfo) pickle by value")
    chk.assume("pickle protocol: an expression is rebuilt as cls.__new__(cls, *x.__getnewargs__()) (copyreg.__newobj__), Basic.__getstate__() is None "
               "(smoke-checked per class: assumed.pickle_protocol[*])")
    chk.assume("induction hypothesis of O-rt: every element of the __getnewargs__ tuple round-trips (base case: SymPy's own node classes and "
               "None/str/int/class attributes, smoke-checked: assumed.sympy_own_classes_roundtrip, assumed.non_sympy_attributes_roundtrip)")
    chk.assume("A-pure: functions not under contract and not in the native table are deterministic and side-effect free (uninterpreted)")
    chk.assume("'numerically identical when evaluated' follows from equality of the trees (== and srepr); no separate obligation")
    d = K.discover()
    decorated = d["decorated"]
    chk.extra["introspection"] = {"decorated": [K.qual(c) for c in decorated], "helpers": [K.qual(c) for c in d["helpers"]], "import_failures": d["import_failures"]}
    chk.struct("introspection.finds_decorated_classes", len(decorated) >= 30 and not d["import_failures"], K.DEC + "unevaluated",
               witness={"decorated": len(decorated), "import_failures": d["import_failures"]}, lemma=True, replay=lambda m: {"reproduced": False})
    kinds = sorted({K.describe_function(getnewargs_of(c)) for c in decorated})
    chk.extra["getnewargs"] = {"bound_to": kinds, "is_dataclasses_astuple": all(getnewargs_of(c) is dataclasses.astuple for c in decorated)}
    for k in kinds:
        chk.functions.add(f"{k} (bound as <class>.__getnewargs__)")
    for name, ok, detail in K.smoke_checks():
        chk.struct(f"assumed.{name}", ok, "dependency contract (smoke check)", witness=detail, lemma=True, bounded=True,
                   replay=lambda m: {"reproduced": False, "note": "an assumed contract on a dependency does not hold"})
    protocol_checks(chk, decorated)
    for c in decorated:
        e3_roundtrip(chk, c)
    e3_legacy(chk)
    helper_rebuild(chk)
    models, skipped = K.build_models(tier)
    chk.extra["models_not_formulated"] = skipped
    chk.struct("models.some_formulate_in_every_configuration_kind", {l.rsplit("/", 1)[1] for l, _ in models} >= {"default", "bw_ff", "axisangle"},
               F_MODEL, witness=sorted({l.rsplit("/", 1)[1] for l, _ in models}), lemma=True, replay=lambda m: {"reproduced": False})
    converter_checks(chk, models)
    real_roundtrips(chk, tier, models)
    configuration_sweep(chk)


def _sweep_one(cfg):
    from vlib import models as M

    M.quiet()
    try:
        model = M.build(cfg)
    except Exception as e:  # noqa: BLE001
        return {"skipped": f"{type(e).__name__}: {e}"[:200]}
    return K.roundtrip_same(model)


def configuration_sweep(chk: Check) -> None:
    """Same-process pickle round trip of the model of EVERY zoo reaction x builder configuration of vlib/models.config_space
    (both formalisms, alignments, stable ids, scalar mass, helicity couplings, dynamics; two-body to four-body): bounded."""
    import concurrent.futures as cf
    import multiprocessing as mp
    import os

    from vlib import models as M

    cfgs = M.config_space(chk.tier)
    with cf.ProcessPoolExecutor(max_workers=min(16, os.cpu_count() or 4), mp_context=mp.get_context("fork")) as pool:
        results = list(pool.map(_sweep_one, cfgs, chunksize=4))
    n = 0
    for cfg, r in zip(cfgs, results):
        if "skipped" in r:
            continue
        n += 1
        chk.struct(f"pickle.same_process[config:{cfg.tag}]", not r["reproduced"], F_MODEL, witness=r, bounded=True,
                   replay=lambda m, cfg=cfg: _sweep_one(cfg))
    chk.extra["configuration_sweep_models"] = n
