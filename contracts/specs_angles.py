"""Contracts (functional specifications) of ampform.kinematics.angles.Phi / Theta.

`@spec(C)` = the `ensures` clause of class C as "result = f(arguments)" over per-event values (A-batch), in the
value language of vlib/tr.py.  Whoever meets a `Phi(p)` / `Theta(p)` node uses this spec (modular); that the real
`evaluate()` bodies satisfy it is proved in contracts/c07.py (`Phi.evaluate==spec`, `Theta.evaluate==spec`).

  Phi(p)   = atan2(p_y, p_x)      requires (p_x, p_y) != (0, 0)   -> Ang(p_x / rho, p_y / rho),  rho = +sqrt(p_x^2 + p_y^2)
  Theta(p) = acos(p_z / |p|)      requires |p| != 0               -> Ang(p_z / n,  rho / n),      n = +sqrt(p_x^2+p_y^2+p_z^2)

(sin(acos u) = +sqrt(1 - u^2) = rho / n: the polar angle lies in [0, pi], its sine is the non-negative transverse
fraction.)  The roots are introduced as non-negative auxiliary variables with their defining equation -- "roots become
free variables" (DESIGN section 2); both roots are memoised per momentum *value* so that Phi(q) and Theta(q) of one
momentum share rho (sound: a root is a function of its argument).
"""

from __future__ import annotations

import z3

from ampform.kinematics import angles as A
from vlib.tr import Ang, Cx, Tr, spec


def _key(p) -> tuple:
    return tuple(c.re.get_id() for c in p)


def polar_roots(tr: Tr, p):
    """(rho, n) for the four-vector value p: rho = sqrt(px^2+py^2) >= 0, n = sqrt(rho^2+pz^2) >= 0 (memoised per value)."""
    memo = tr.__dict__.setdefault("_polar_roots", {})
    k = _key(p)
    if k in memo:
        return memo[k]
    x, y, z = p[1].re, p[2].re, p[3].re
    rho, n = tr.fresh("rho"), tr.fresh("pnorm")
    tr.side += [rho >= 0, rho * rho == x * x + y * y, n >= 0, n * n == x * x + y * y + z * z]
    memo[k] = (rho, n, p)  # keep p alive: z3 ast ids are only unique among live terms
    return memo[k]


def phi_spec(tr: Tr, p) -> Ang:
    rho, _n, _ = polar_roots(tr, p)
    tr.need("Phi: transverse momentum != 0", rho != 0)
    return Ang(p[1].re / rho, p[2].re / rho)


def theta_spec(tr: Tr, p) -> Ang:
    rho, n, _ = polar_roots(tr, p)
    tr.need("Theta: |p| != 0", n != 0)
    return Ang(p[3].re / n, rho / n)


@spec(A.Phi)
def _phi(tr: Tr, e):
    """ensures: result = atan2(p_y, p_x) (azimuth of the three-momentum), as (cos, sin)."""
    return phi_spec(tr, tr.val(e.args[0]))


@spec(A.Theta)
def _theta(tr: Tr, e):
    """ensures: result = acos(p_z / |p|) (polar angle of the three-momentum, in [0, pi]), as (cos, sin)."""
    return theta_spec(tr, tr.val(e.args[0]))


__all__ = ["phi_spec", "polar_roots", "theta_spec"]
_ = (Cx, z3)
