"""C09 — K-matrix amplitudes are unitary and symmetric for real parameters.

Under contract (dynamics/kmatrix.py): NonRelativisticKMatrix.{_create_matrices, parametrization, formulate},
RelativisticKMatrix.{_create_matrices, parametrization, formulate}, _create_rho_matrix;
(dynamics) EnergyDependentWidth.evaluate, FormFactor.evaluate, BlattWeisskopfSquared.evaluate (positivity),
BreakupMomentumSquared.evaluate, PhaseSpaceFactor / PhaseSpaceFactorAbs / PhaseSpaceFactorComplex .evaluate.

requires: all parameters real, s above every channel threshold, m_R^2 != s, m_R Gamma_R,i >= 0, meson radius != 0 and
          (relativistic) every pole mass above every channel threshold.  The last one is NOT in the statement: the
          obligations "...|pole_below_threshold" / "...|pole_below_a_threshold" state the clause on the rest of the
          statement's domain (a pole mass below a channel threshold) and are refuted there.
ensures:  S = 1 + 2iT satisfies S^dagger S = 1 and T = T^T.

Proof structure
  (i)   _create_matrices(n): T (1 - iK) = K entrywise for free real K with det(1 - iK) != 0; relativistic:
        T-hat (1 - i rho K) = K and T = conj(sqrt rho) T-hat sqrt rho (rho_i = r_i^2, r_i > 0 above threshold).
  (ii)  parametrization(i, j, ...): a pole sum Sum(f(R), (R, 1, n_poles)) whose summand f is real and symmetric in
        (i, j) -- for symbolic n_poles by the big-operator argument, for n_poles = 1..4 on the expanded sum.
        Relativistic: EnergyDependentWidth = gamma0 * c with c > 0 (chain BreakupMomentumSquared > 0, rho > 0,
        B_L^2 > 0, FormFactor > 0 proved on the real evaluate() bodies for L = 0..4).
  (iii) composition on the real formulate() output with every pole-sum node replaced by a real variable (justified
        per node by (ii)), and modularly (A15): from the contract T (1 - iK) = K alone via the Cramer certificate.
"""

from __future__ import annotations

import numpy as np
import sympy as sp
import z3

from ampform.dynamics import (
    BlattWeisskopfSquared,
    BreakupMomentumSquared,
    EnergyDependentWidth,
    FormFactor,
    PhaseSpaceFactor,
    PhaseSpaceFactorAbs,
    PhaseSpaceFactorComplex,
)
from ampform.dynamics import kmatrix as KM
from contracts import kmatrix_common as C
from contracts.kmatrix_common import FD, FK, KTr, REAL_PHSP, add_wd, numeric, oname
from vlib.core import Check
from vlib.tr import CI, CONE, CZERO, Cx, det, matmul

LEVEL = "proof"
ENGINE = "E1 exprvc"
CLAIM = (
    "For n_channels 1..3 and n_poles 1..4 (and symbolic n_poles by congruence on the pole sum), L 0..4, the three phase-space factors that are real above threshold, both values of return_t_hat: S = 1 + 2iT is unitary and T symmetric for all real parameter values with s above every threshold, s != m_R^2, m_R Gamma >= 0 and every pole mass above every channel threshold; each clause is an SMT obligation generated from the trees the real _create_matrices / parametrization / formulate return. The last requirement is not in the statement; on the rest of its domain (a pole mass below a channel threshold) the relativistic clause is refuted: obligations '...|pole_below_threshold' and '...|pole_below_a_threshold' carry the counterexample (EnergyDependentWidth imaginary, K not real, S not unitary)."
)
NOTE = (
    "Trusted: z3 5.1 / cvc5 1.4 'unsat' answers; the SymPy-node -> SMT translation table (vlib/tr.py plus Indexed leaves and finite Sum in contracts/kmatrix_common.py), cross-checked at cover models against numpy evaluation of the real tree; floats as exact reals (A-arith); principal sqrt (A-principal); big-operator axioms for symbolic n_poles (a finite sum of real terms is real; termwise equal sums are equal); SymPy's Matrix.inv() is not trusted (its output is checked). meson_radius != 0 required (0/0 for L >= 1 otherwise). BlattWeisskopfSquared with a symbolic angular momentum (the other branch of its evaluate) is outside the enumerated domain L = 0..4 (thorough: positivity lemma up to 8)."
)
TECHNIQUE = (
    "contract-based deductive verification: E1 denotational VCs on the SymPy trees returned by the real K-matrix functions; "
    "nested width / form-factor / phase-space nodes replaced by their contracts (proved on the real evaluate() bodies); "
    "Cayley lemma via Cramer certificate; z3 / nlsat / cvc5"
)

NR = KM.NonRelativisticKMatrix
RL = KM.RelativisticKMatrix
D_SYM = sp.Symbol("d", real=True)  # meson radius passed by the contract


# ======================================================================================================================
# numeric evaluation of the real functions (replays)
# ======================================================================================================================
def _formulate(cls, n, p, kw):
    return cls.formulate(n_channels=n, n_poles=p, **kw)


def _t_numeric(cls, n, p, kw, vals):
    """T of the real formulate() at a parameter point (for return_t_hat the code's own T = conj(sqrt rho) T-hat sqrt rho)."""
    kw = dict(kw)
    kw.pop("return_t_hat", None)
    return numeric(_formulate(cls, n, p, kw), vals, default=1.0)


def _check_point(cls, n, p, kw, vals):
    T = _t_numeric(cls, n, p, kw, vals)
    scale = 1.0 + float(np.max(np.abs(T))) ** 2
    ud, sd = C.unit_defect(T), C.sym_defect(T)
    bad = (not np.all(np.isfinite(T))) or ud > 1e-7 * scale or sd > 1e-7 * scale
    return bad, ud, sd, T


SEARCH_CONFIGS = [
    (NR, {}),
    (RL, {}),
    (RL, {"angular_momentum": 1}),
    (RL, {"angular_momentum": 2, "phsp_factor": PhaseSpaceFactorAbs, "meson_radius": 2}),
    (RL, {"phsp_factor": PhaseSpaceFactorComplex}),
]


_SEARCH_CACHE: dict = {}


def search(model=None):
    """(deterministic, so evaluated once per run)"""
    if "out" not in _SEARCH_CACHE:
        _SEARCH_CACHE["out"] = _search()
    return _SEARCH_CACHE["out"]


def _search():
    """Property-level replay for lemma obligations: the statement of C09 itself (unitarity, symmetry) evaluated on the
    real formulate() output at deterministic random real points with s and every pole above every threshold."""
    rng = np.random.default_rng(9)
    tried = 0
    for cls, kw in SEARCH_CONFIGS:
        for n in (1, 2):
            for p in (1, 2):
                for _ in range(4):
                    vals = C.sample_point(rng, n, p)
                    bad, ud, sd, T = _check_point(cls, n, p, kw, vals)
                    tried += 1
                    if bad:
                        return {"reproduced": True, "what": "unitarity / symmetry of the real formulate() output",
                                "function": f"{cls.__name__}.formulate(n_channels={n}; n_poles={p}; {C.kw_tag(kw)})", "input": vals,
                                "expected": "max|S^dagger S - 1| = 0 and max|T - T^T| = 0", "observed": {"unitarity_defect": ud, "symmetry_defect": sd, "T": str(T.round(9).tolist())}}
    return {"reproduced": False, "note": f"no property-level failure at {tried} sampled points (poles above all thresholds)"}


def replay_T(cls, n, p, kw, knodes, rnames):
    """Replay of a formulate-level obligation. The counter-model fixes the values of the pole sums (K entries) and of
    sqrt(rho_i); the real T tree is evaluated there (pole-sum nodes replaced by those numbers), and a concrete full
    parameter point is looked for with the real code (random real parameters above threshold)."""

    def rep(model):
        mv = C.model_values(model)
        tm = _formulate(cls, n, p, {k: v for k, v in kw.items() if k != "return_t_hat"})
        sub = {node: sp.Float(mv.get(nm, 0.3)) for node, nm in knodes.items()}
        for node, nm in rnames.items():
            sub[node] = sp.Float(mv.get(nm, 1.0) ** 2)
        tnum = np.array(sp.Matrix(tm.xreplace(sub)).evalf(30).tolist(), dtype=complex)
        ud, sd = C.unit_defect(tnum), C.sym_defect(tnum)
        scale = 1.0 + float(np.max(np.abs(tnum))) ** 2
        at_model = bool(ud > 1e-7 * scale or sd > 1e-7 * scale or not np.all(np.isfinite(tnum)))
        out = {"reproduced": at_model, "input": {"pole_sums(K entries)": {nm: mv.get(nm, 0.3) for nm in knodes.values()},
                                                  "sqrt_rho": {nm: mv.get(nm, 1.0) for nm in rnames.values()}},
               "expected": "max|S^dagger S - 1| = 0 and max|T - T^T| = 0",
               "observed": {"unitarity_defect": ud, "symmetry_defect": sd, "T(real tree at these K values)": str(tnum.round(9).tolist())}}
        rng = np.random.default_rng(90 + 10 * n + p)
        for _ in range(12):
            vals = C.sample_point(rng, n, p)
            bad, ud2, sd2, T = _check_point(cls, n, p, kw, vals)
            if bad:
                out["reproduced"] = True
                out["input"] = vals
                out["observed"] = {"unitarity_defect": ud2, "symmetry_defect": sd2, "T": str(T.round(9).tolist())}
                break
        return out

    return rep


def replay_subthreshold(n, ell, from_model):
    """Replay of the '...|pole_below_threshold' obligations on the real RelativisticKMatrix.formulate: the point of the
    counter-model when it fixes the parameters (from_model maps model names to leaf names), else / in addition a
    deterministic point with the first pole below (n = 1) or between (n = 2) the thresholds."""

    def rep(model):
        mv = C.model_values(model)
        kw = {"angular_momentum": ell}
        cands = []
        if from_model is not None:
            try:
                vals = from_model(mv)
                cands.append(("counter-model", vals))
            except KeyError:
                pass
        rng = np.random.default_rng(900 + n)
        for _ in range(6):
            cands.append(("derived: pole below a channel threshold", C.sample_point(rng, n, 1, below=True)))
        best = None
        for origin, vals in cands:
            try:
                T = _t_numeric(RL, n, 1, kw, vals)
            except Exception:  # noqa: BLE001
                continue
            if not np.all(np.isfinite(T)):
                continue
            ud = C.unit_defect(T)
            if best is None or ud > best[0]:
                best = (ud, origin, vals, T)
            if ud > 1e-6:
                break
        if best is None:
            return {"reproduced": False, "note": "no finite evaluation"}
        ud, origin, vals, T = best
        thr = {f"threshold_{i}": (vals[f"m_a_{i}"] + vals[f"m_b_{i}"]) ** 2 for i in range(n)}
        return {"reproduced": bool(ud > 1e-6), "origin": origin, "function": f"RelativisticKMatrix.formulate(n_channels={n}; n_poles=1; angular_momentum={ell})",
                "input": {**vals, **thr, "m_1^2": vals["m_1"] ** 2}, "expected": "max|S^dagger S - 1| = 0", "observed": {"unitarity_defect": ud, "T": str(T.round(9).tolist())}}

    return rep


# ======================================================================================================================
# (i) _create_matrices
# ======================================================================================================================
def _bind_rho(tr, n):
    r = [z3.Real(f"r{i}") for i in range(n)]
    for i in range(n):
        rho = sp.Symbol(f"rho{i}")
        tr.bind(rho, Cx(r[i] * r[i]))
        tr.bind(sp.sqrt(rho), Cx(r[i]))
    return r


def _rho_extra(n):
    def extra(vals):
        return {f"rho{i}": vals.get(f"r{i}", 0.0) ** 2 for i in range(n)}

    return extra


def create_matrices(chk: Check, n: int) -> None:
    """All trees are translated division-free (C.frac); equalities are cross-multiplied polynomial identities, stated
    under the hypothesis that the expression is defined (its denominators are non-zero); that it is defined follows from
    det != 0 (obligations .wd)."""
    # ---- non-relativistic, K free real (not necessarily symmetric) ----
    fn = FK + "NonRelativisticKMatrix._create_matrices"
    t_m, k_m = NR._create_matrices(n)
    chk.struct(f"NonRelativisticKMatrix._create_matrices[n={n}].shapes", t_m.shape == (n, n) and k_m.shape == (n, n) and len(set(k_m)) == n * n
               and all(isinstance(x, sp.Indexed) for x in k_m), fn, witness=str((t_m.shape, k_m.shape)), lemma=True, replay=search)
    tr = KTr(f"nr{n}", kinds={"K": "real"})
    Kv = [[tr.scalar(k_m[i, j]) for j in range(n)] for i in range(n)]
    M = C.one_minus_i(Kv)
    D = det(M)
    KA = matmul(Kv, C.adj(M))
    req = [C.nonzero(D)]
    Tf = chk.guarded(f"NonRelativisticKMatrix._create_matrices[n={n}]", lambda: C.frac(tr, t_m), fn, replay=search)
    if Tf is not None:
        add_wd(chk, f"NonRelativisticKMatrix._create_matrices[n={n}]|det(1-iK)!=0", tr, req, fn, replay=search)
        defined = C.wd_conds(tr)
        for i in range(n):
            for j in range(n):
                acc = C.Frac(CZERO)
                for l in range(n):
                    acc = acc + Tf[i][l] * C.Frac(M[l][j])
                chk.smt(f"NonRelativisticKMatrix._create_matrices[n={n}].T(1-iK)==K[{i}{j}]", defined + tr.hyps(), acc.eq(C.Frac(Kv[i][j])), function=fn, lemma=True, replay=search)
                chk.smt(f"NonRelativisticKMatrix._create_matrices[n={n}].T==K adj(1-iK)/det(1-iK)[{i}{j}]", defined + req + tr.hyps(), Tf[i][j].eq(C.Frac(KA[i][j], D)), function=fn, lemma=True, replay=search)
        flatT = [x for row in Tf for x in row]
        chk.cover(f"NonRelativisticKMatrix._create_matrices[n={n}].cover", defined + tr.hyps() + [Kv[0][0].re != 0, Kv[n - 1][0].re > 1], fn, model_check=C.cover_cmp(flatT, t_m))
    # K real symmetric: the statement's equations on the real output (no requirement on det: it cannot vanish)
    tr = KTr(f"nrs{n}", kinds={"K": "real"})
    for i in range(n):
        for j in range(i + 1, n):
            tr.bind(k_m[j, i], tr.scalar(k_m[i, j]))
    Tf = chk.guarded(f"NonRelativisticKMatrix._create_matrices[n={n}]|K_real_symmetric", lambda: C.frac(tr, t_m), fn, replay=search)
    if Tf is not None:
        add_wd(chk, f"NonRelativisticKMatrix._create_matrices[n={n}]|K_real_symmetric", tr, [], fn, replay=search)
        defined = C.wd_conds(tr)
        for (i, j), c in C.unitarity_claims_frac(Tf).items():
            chk.smt(f"NonRelativisticKMatrix._create_matrices[n={n}].unitarity[{i}{j}]|K_real_symmetric", defined + tr.hyps(), c, function=fn, lemma=True, replay=search)
        for i in range(n):
            for j in range(i + 1, n):
                chk.smt(f"NonRelativisticKMatrix._create_matrices[n={n}].symmetry[{i}{j}]|K_real_symmetric", defined + tr.hyps(), Tf[i][j].eq(Tf[j][i]), function=fn, lemma=True, replay=search)

    # ---- _create_rho_matrix ----
    rho_m = KM._create_rho_matrix(n)
    chk.struct(f"_create_rho_matrix[n={n}]==diag(rho_i)", rho_m == sp.diag(*[sp.Symbol(f"rho{i}") for i in range(n)]), FK + "_create_rho_matrix",
               witness=str(rho_m), lemma=True, replay=search)

    # ---- relativistic ----
    fn = FK + "RelativisticKMatrix._create_matrices"
    that_m, k_m = RL._create_matrices(n, True)
    t_m, k_m2 = RL._create_matrices(n, False)
    chk.struct(f"RelativisticKMatrix._create_matrices[n={n}].same_K_symbols", k_m == k_m2 and all(isinstance(x, sp.Indexed) for x in k_m), fn, lemma=True, replay=search)
    tr = KTr(f"rl{n}", kinds={"K": "real"})
    r = _bind_rho(tr, n)
    rpos = [x > 0 for x in r]
    Kv = [[tr.scalar(k_m[i, j]) for j in range(n)] for i in range(n)]
    rho = [Cx(x * x) for x in r]
    M = C.one_minus_i(Kv, rho_left=rho)
    req = rpos + [C.nonzero(det(M))]
    That = chk.guarded(f"RelativisticKMatrix._create_matrices[n={n};hat]", lambda: C.frac(tr, that_m), fn, replay=search)
    if That is not None:
        add_wd(chk, f"RelativisticKMatrix._create_matrices[n={n};hat]|det(1-i rho K)!=0", tr, req, fn, replay=search)
        defined = rpos + C.wd_conds(tr)
        for i in range(n):
            for j in range(n):
                acc = C.Frac(CZERO)
                for l in range(n):
                    acc = acc + That[i][l] * C.Frac(M[l][j])
                chk.smt(f"RelativisticKMatrix._create_matrices[n={n};hat].That(1-i rho K)==K[{i}{j}]", defined + tr.hyps(), acc.eq(C.Frac(Kv[i][j])), function=fn, lemma=True, replay=search)
        nwd = len(tr.wd)
        Tf = chk.guarded(f"RelativisticKMatrix._create_matrices[n={n}]", lambda: C.frac(tr, t_m), fn, replay=search)
        if Tf is not None:
            add_wd(chk, f"RelativisticKMatrix._create_matrices[n={n}]|det(1-i rho K)!=0", tr, req, fn, start=nwd, replay=search)
            defined = rpos + C.wd_conds(tr)
            for i in range(n):
                for j in range(n):
                    chk.smt(f"RelativisticKMatrix._create_matrices[n={n}].T==conj(sqrt rho) That sqrt rho[{i}{j}]", defined + tr.hyps(),
                            Tf[i][j].eq(C.Frac(Cx(r[i])) * That[i][j] * C.Frac(Cx(r[j]))), function=fn, lemma=True, replay=search)
            flatT = [x for row in Tf for x in row]
            chk.cover(f"RelativisticKMatrix._create_matrices[n={n}].cover", defined + tr.hyps() + [Kv[0][0].re != 0, Kv[n - 1][0].re > 1, r[0] > 1], fn,
                      model_check=C.cover_cmp(flatT, t_m, extra=_rho_extra(n)))
    tr = KTr(f"rls{n}", kinds={"K": "real"})
    r = _bind_rho(tr, n)
    rpos = [x > 0 for x in r]
    for i in range(n):
        for j in range(i + 1, n):
            tr.bind(k_m[j, i], tr.scalar(k_m[i, j]))
    Tf = chk.guarded(f"RelativisticKMatrix._create_matrices[n={n}]|K_real_symmetric", lambda: C.frac(tr, t_m), fn, replay=search)
    if Tf is not None:
        add_wd(chk, f"RelativisticKMatrix._create_matrices[n={n}]|K_real_symmetric", tr, rpos, fn, replay=search)
        defined = rpos + C.wd_conds(tr)
        for (i, j), c in C.unitarity_claims_frac(Tf).items():
            chk.smt(f"RelativisticKMatrix._create_matrices[n={n}].unitarity[{i}{j}]|K_real_symmetric", defined + tr.hyps(), c, function=fn, lemma=True, replay=search)
        for i in range(n):
            for j in range(i + 1, n):
                chk.smt(f"RelativisticKMatrix._create_matrices[n={n}].symmetry[{i}{j}]|K_real_symmetric", defined + tr.hyps(), Tf[i][j].eq(Tf[j][i]), function=fn, lemma=True, replay=search)


# ======================================================================================================================
# A15 (Cayley), modular: from the contract T (1 - iK) = K alone
# ======================================================================================================================
def cayley(chk: Check, n: int) -> None:
    fn = FK + "NonRelativisticKMatrix._create_matrices"
    K = [[None] * n for _ in range(n)]
    for i in range(n):
        for j in range(i, n):
            K[i][j] = K[j][i] = Cx(z3.Real(f"k{i}{j}"))
    T = [[Cx(z3.Real(f"t{i}{j}_re"), z3.Real(f"t{i}{j}_im")) for j in range(n)] for i in range(n)]
    M = C.one_minus_i(K)
    A, D = C.adj(M), det(M)
    TM, KA = matmul(T, M), matmul(K, A)
    # certificate: sum_l ((T M)_il - K_il) adj(M)_lj == T_ij det(M) - (K adj M)_ij  for all T, K
    for i in range(n):
        for j in range(n):
            acc = CZERO
            for l in range(n):
                acc = acc + (TM[i][l] - K[i][l]) * A[l][j]
            chk.smt(f"A15[n={n}].cramer_certificate[{i}{j}]", [], acc.eq(T[i][j] * D - KA[i][j]), function=fn, lemma=True, replay=search)
    chk.smt(f"A15[n={n}].det(1-iK)!=0|K_real_symmetric", [], C.nonzero(D), function=fn, lemma=True, replay=search)
    # the unique solution K adj(M)/det(M) is unitary and symmetric (division-free form)
    Sn = [[(D if i == j else CZERO) + Cx(0, 2) * KA[i][j] for j in range(n)] for i in range(n)]
    SS = matmul(C.conjT(Sn), Sn)
    d2 = Cx(D.abs2())
    for i in range(n):
        for j in range(i, n):
            chk.smt(f"A15[n={n}].solution_unitary[{i}{j}]", [], SS[i][j].eq(d2 if i == j else CZERO), function=fn, lemma=True, replay=search)
        for j in range(i + 1, n):
            chk.smt(f"A15[n={n}].solution_symmetric[{i}{j}]", [], KA[i][j].eq(KA[j][i]), function=fn, lemma=True, replay=search)
    # relativistic reduction: T-hat (1 - i rho K) = K and T = r T-hat r  =>  T (1 - iK') = K' with K' = r K r
    r = [z3.Real(f"r{i}") for i in range(n)]
    That = [[Cx(z3.Real(f"h{i}{j}_re"), z3.Real(f"h{i}{j}_im")) for j in range(n)] for i in range(n)]
    Mr = C.one_minus_i(K, rho_left=[Cx(x * x) for x in r])
    Kp = [[Cx(r[i]) * K[i][j] * Cx(r[j]) for j in range(n)] for i in range(n)]
    Tp = [[Cx(r[i]) * That[i][j] * Cx(r[j]) for j in range(n)] for i in range(n)]
    lhs = matmul(Tp, C.one_minus_i(Kp))
    res = matmul(That, Mr)
    for i in range(n):
        for j in range(n):
            # (T (1 - iK') - K')_ij == r_i (T-hat (1 - i rho K) - K)_ij r_j : identity, so the residuals vanish together
            chk.smt(f"A15[n={n}].relativistic_reduction[{i}{j}]", [], (lhs[i][j] - Kp[i][j]).eq(Cx(r[i]) * (res[i][j] - K[i][j]) * Cx(r[j])),
                    function=FK + "RelativisticKMatrix._create_matrices", lemma=True, replay=search)


def cayley_schema(chk: Check) -> None:
    """Instantiation step of the certificate: residuals e_l = 0, sum e_l a_l = t d - c, d != 0  =>  t = c / d (complex)."""
    fn = FK + "NonRelativisticKMatrix._create_matrices"
    for n in (1, 2, 3):
        e = [Cx(z3.Real(f"e{l}_re"), z3.Real(f"e{l}_im")) for l in range(n)]
        a = [Cx(z3.Real(f"a{l}_re"), z3.Real(f"a{l}_im")) for l in range(n)]
        t, d, c = (Cx(z3.Real(f"{x}_re"), z3.Real(f"{x}_im")) for x in "tdc")
        acc = CZERO
        for l in range(n):
            acc = acc + e[l] * a[l]
        hyps = [x.eq(CZERO) for x in e] + [acc.eq(t * d - c), C.nonzero(d)]
        chk.smt(f"A15.instantiate[terms={n}]: residuals 0 and certificate => t*d == c", hyps, (t * d).eq(c), function=fn, lemma=True, replay=search)


# ======================================================================================================================
# width chain: contracts of the nested classes, proved on the real evaluate() bodies
# ======================================================================================================================
def width_chain(chk: Check, ells, ells_bw, ells_full) -> None:
    s, m1, m2, m0, g0 = sp.symbols("s m1 m2 m0 Gamma0", real=True)
    d = D_SYM
    # BreakupMomentumSquared > 0 above threshold
    fn = FD + "phasespace.BreakupMomentumSquared.evaluate"
    tr = KTr("q2")
    node = BreakupMomentumSquared(s, m1, m2)
    req = [C.thr_conds(tr, s, m1, m2)]
    v = tr.scalar(node.evaluate())
    add_wd(chk, "BreakupMomentumSquared.evaluate|s_above_threshold", tr, req, fn, replay=search)
    chk.smt("BreakupMomentumSquared.evaluate>0|s_above_threshold", req + tr.hyps(), z3.And(v.imz == 0, v.re > 0), function=fn, lemma=True, replay=search)
    chk.cover("BreakupMomentumSquared.cover", req + tr.hyps() + [tr.scalar(m1).re > 0, tr.scalar(m2).re > tr.scalar(m1).re], fn, model_check=C.cover_cmp(v, node))
    # phase-space factors: one level (q^2 node by contract) and fully unfolded
    for cls in REAL_PHSP:
        fn = FD + f"phasespace.{cls.__name__}.evaluate"
        tr = KTr("ps" + cls.__name__)
        C.use_contracts(tr)
        del tr.specs[cls]
        node = cls(s, m1, m2)
        req = [C.thr_conds(tr, s, m1, m2)]
        v = chk.guarded(f"{cls.__name__}.evaluate", lambda: tr.scalar(node.evaluate()), fn, replay=search)
        if v is not None:
            add_wd(chk, f"{cls.__name__}.evaluate|s_above_threshold", tr, req, fn, replay=search)
            chk.smt(f"{cls.__name__}.evaluate>0|s_above_threshold", req + tr.hyps(), z3.And(v.imz == 0, v.re > 0), function=fn, lemma=True, replay=search)
        tr = KTr("psd" + cls.__name__)
        req = [C.thr_conds(tr, s, m1, m2)]
        full = node.doit()
        v = chk.guarded(f"{cls.__name__}.doit", lambda: tr.scalar(full), fn, replay=search)
        if v is not None:
            add_wd(chk, f"{cls.__name__}.doit|s_above_threshold", tr, req, fn, replay=search)
            chk.smt(f"{cls.__name__}.doit>0|s_above_threshold", req + tr.hyps(), z3.And(v.imz == 0, v.re > 0), function=fn, lemma=True, replay=search)
            chk.cover(f"{cls.__name__}.cover", req + tr.hyps() + [tr.scalar(m1).re > 0, tr.scalar(m2).re > tr.scalar(m1).re], fn, model_check=C.cover_cmp(v, node))
    # BlattWeisskopfSquared(z, L) > 0 for z > 0
    z = sp.Symbol("z", real=True)
    fn = FD + "form_factor.BlattWeisskopfSquared.evaluate"
    for ell in ells_bw:
        tr = KTr(f"bw{ell}")
        node = BlattWeisskopfSquared(z, ell)
        req = [tr.scalar(z).re > 0]
        v = chk.guarded(f"BlattWeisskopfSquared.evaluate[L={ell}]", lambda: tr.scalar(node.evaluate()), fn, replay=search)
        if v is None:
            continue
        add_wd(chk, f"BlattWeisskopfSquared.evaluate[L={ell}]|z>0", tr, req, fn, replay=search)
        chk.smt(f"BlattWeisskopfSquared.evaluate[L={ell}]>0|z>0", req + tr.hyps(), z3.And(v.imz == 0, v.re > 0), function=fn, lemma=True, replay=search)
        one = tr.scalar(node.evaluate().xreplace({z: sp.Integer(1)}))
        chk.smt(f"BlattWeisskopfSquared.evaluate[L={ell}].normalised(z=1)", [], one.eq(CONE), function=fn, lemma=True, replay=search)
    # FormFactor = sqrt(B_L^2(q^2 d^2)) > 0
    fn = FD + "form_factor.FormFactor.evaluate"
    for ell in ells:
        tr = KTr(f"ff{ell}")
        C.use_contracts(tr)
        del tr.specs[FormFactor]
        node = FormFactor(s, m1, m2, ell, d)
        body = node.evaluate()
        bws = list(body.atoms(BlattWeisskopfSquared))
        ok = len(bws) == 1 and bws[0].args[1] == ell
        chk.struct(f"FormFactor.evaluate[L={ell}].one_BlattWeisskopfSquared_node_with_L", ok, fn, witness=str(bws), lemma=True, replay=search)
        if not ok:
            continue
        req = [C.thr_conds(tr, s, m1, m2), tr.scalar(d).re != 0]
        zarg = chk.guarded(f"FormFactor.evaluate[L={ell}].z", lambda: tr.scalar(bws[0].args[0]), fn, replay=search)
        if zarg is None:
            continue
        add_wd(chk, f"FormFactor.evaluate[L={ell}].z|s_above_threshold", tr, req, fn, replay=search)
        chk.smt(f"FormFactor.evaluate[L={ell}].callee_requires_z>0", req + tr.hyps(), z3.And(zarg.imz == 0, zarg.re > 0), function=fn, lemma=True, replay=search)
        b = z3.Real("B")
        tr.bind(bws[0], Cx(b))
        nwd = len(tr.wd)
        v = tr.scalar(body)
        add_wd(chk, f"FormFactor.evaluate[L={ell}]|B>0", tr, req + [b > 0], fn, start=nwd, replay=search)
        chk.smt(f"FormFactor.evaluate[L={ell}]>0|s_above_threshold", req + [b > 0] + tr.hyps(), z3.And(v.imz == 0, v.re > 0), function=fn, lemma=True, replay=search)
    # EnergyDependentWidth = gamma0 * c, c > 0, above threshold
    fn = FD + "EnergyDependentWidth.evaluate"
    for ell in ells:
        for cls in REAL_PHSP:
            tag = f"L={ell};{cls.__name__}"
            tr = KTr(f"edw{ell}{cls.__name__}")
            C.use_contracts(tr)
            del tr.specs[EnergyDependentWidth]
            node = EnergyDependentWidth(s, m0, g0, m1, m2, ell, d, cls)
            body = node.evaluate()
            inner = [a for a in sp.preorder_traversal(body) if isinstance(a, (FormFactor, *REAL_PHSP))]
            chk.struct(f"EnergyDependentWidth.evaluate[{tag}].inner_nodes_independent_of_gamma0", bool(inner) and all(g0 not in a.free_symbols for a in inner)
                       and all(isinstance(a, (FormFactor, cls)) for a in inner), fn, witness=str(inner), lemma=True, replay=search)
            req = [C.thr_conds(tr, s, m1, m2), C.thr_conds(tr, m0**2, m1, m2), tr.scalar(d).re != 0]
            v = chk.guarded(f"EnergyDependentWidth.evaluate[{tag}]", lambda: tr.scalar(body), fn, replay=search)
            if v is None:
                continue
            c = tr.scalar(body.xreplace({g0: sp.Integer(1)}))
            add_wd(chk, f"EnergyDependentWidth.evaluate[{tag}]|above_threshold", tr, req, fn, replay=search)
            chk.smt(f"EnergyDependentWidth.evaluate[{tag}]==gamma0*c and c>0|above_threshold", req + tr.hyps(),
                    z3.And(v.eq(tr.scalar(g0) * c), c.imz == 0, c.re > 0), function=fn, lemma=True, replay=search)
    # non-modular cross-check on the fully unfolded tree (default factor), with the numeric cross-check of the translation
    for ell in ells_full:
        tr = KTr(f"edwfull{ell}")
        node = EnergyDependentWidth(s, m0, g0, m1, m2, ell, d)
        full = node.doit()
        req = [C.thr_conds(tr, s, m1, m2), C.thr_conds(tr, m0**2, m1, m2), tr.scalar(d).re != 0, tr.scalar(m0).re > 0, tr.scalar(g0).re >= 0]
        v = chk.guarded(f"EnergyDependentWidth.doit[L={ell}]|above_threshold", lambda: tr.scalar(full), fn, replay=search)
        if v is None:
            continue
        add_wd(chk, f"EnergyDependentWidth.doit[L={ell}]|above_threshold", tr, req, fn, replay=search)
        chk.smt(f"EnergyDependentWidth.doit[L={ell}].real_and_>=0|above_threshold", req + tr.hyps(), z3.And(v.imz == 0, v.re >= 0), function=fn, lemma=True, replay=search)
        chk.cover(f"EnergyDependentWidth.doit[L={ell}].cover", req + tr.hyps() + [tr.scalar(g0).re > 0, tr.scalar(m1).re > 0, tr.scalar(m2).re > tr.scalar(m1).re], fn,
                  model_check=C.cover_cmp(v, node))


def width_findings(chk: Check, ells) -> None:
    """The clause 'K real for all real pole masses' without the requirement 'pole above threshold' (expected: refuted)."""
    s, m1, m2, m0, g0 = sp.symbols("s m1 m2 m0 Gamma0", real=True)
    fn = FD + "EnergyDependentWidth.evaluate"
    for ell in ells:
        tr = KTr(f"sub{ell}", sqrt_mode="principal")
        node = EnergyDependentWidth(s, m0, g0, m1, m2, ell, 1)
        full = node.doit()
        v = chk.guarded(f"EnergyDependentWidth.doit[L={ell}]", lambda: tr.scalar(full), fn, replay=search)
        if v is None:
            continue
        wd = [c for _, c, _ in tr.wd]
        sv, a, b, mv = (tr.scalar(x).re for x in (s, m1, m2, m0))
        below = z3.And(mv * mv < (a + b) * (a + b), mv * mv > (a - b) * (a - b))  # q^2(m0^2) < 0
        hyps = [C.thr_conds(tr, s, m1, m2), a >= 0, b >= 0, mv > 0, tr.scalar(g0).re > 0, below] + wd + tr.hyps()

        def from_model(mv_, ell=ell):
            return {"s": mv_["s"], "m_1": mv_["m0"], "Gamma_1_0": mv_.get("Gamma0", 1.0), "gamma_1_0": 1.0, "m_a_0": mv_.get("m1", 0.0), "m_b_0": mv_.get("m2", 0.0)}

        chk.smt(f"EnergyDependentWidth.real|pole_below_threshold[L={ell}]", hyps, v.imz == 0, function=fn, replay=replay_subthreshold(1, ell, from_model))


# ======================================================================================================================
# (ii) parametrization
# ======================================================================================================================
def _bases(kind):
    kw = {"real": True} if kind == "real" else {"nonnegative": True}
    return {k: sp.IndexedBase(k, **kw) for k in ("m", "Gamma", "gamma", "m_a", "m_b")}


def _param(cls, i, j, s, B, n_poles, R, extra):
    if cls is NR:
        return cls.parametrization(i=i, j=j, s=s, pole_position=B["m"], pole_width=B["Gamma"], residue_constant=B["gamma"], n_poles=n_poles, pole_id=R)
    return cls.parametrization(i=i, j=j, s=s, pole_position=B["m"], pole_width=B["Gamma"], m_a=B["m_a"], m_b=B["m_b"], residue_constant=B["gamma"],
                               n_poles=n_poles, pole_id=R, **extra)


def _param_requires(tr, cls, s, B, poles, chans, extra):
    """requires of the pole sum: s != m_R^2, m_R Gamma_R,i >= 0; relativistic: s and m_R^2 above the thresholds, d != 0."""
    req = []
    sv = tr.scalar(s).re
    for R in poles:
        mR = tr.scalar(B["m"][R]).re
        req.append(mR * mR != sv)
        for i in chans:
            req.append(mR * tr.scalar(B["Gamma"][R, i]).re >= 0)
            if cls is RL:
                req.append(C.thr_conds(tr, B["m"][R] ** 2, B["m_a"][i], B["m_b"][i]))
    if cls is RL:
        for i in chans:
            req.append(C.thr_conds(tr, s, B["m_a"][i], B["m_b"][i]))
        dval = extra.get("meson_radius", 1)
        if not sp.sympify(dval).is_number:
            req.append(tr.scalar(dval).re != 0)
    return req


def parametrization(chk: Check, cls, nmax: int, poles, configs) -> None:
    cname = cls.__name__
    fn = FK + cname + ".parametrization"
    R = sp.Symbol("R", integer=True, positive=True)
    nsym = sp.Symbol("n_R", integer=True, positive=True)
    for kind, extra, enum in configs:
        B = _bases(kind)
        s = sp.Symbol("s", real=True) if kind == "real" else sp.Symbol("s", nonnegative=True)
        tag = kind + (";" + C.kw_tag(extra) if extra else "")
        pairs = [(i, j) for i in range(nmax) for j in range(i, nmax)]
        for i, j in pairs:
            # ---- symbolic n_poles: structure of the pole sum + summand obligations ----
            res = _param(cls, i, j, s, B, nsym, R, extra)
            is_sum = isinstance(res, sp.Sum) and tuple(res.limits) == ((R, 1, nsym),)
            f = res.function if is_sum else None
            ok = bool(is_sum and nsym not in f.free_symbols and all(a.indices[0] == R for a in f.atoms(sp.Indexed) if str(a.base.label) in {"m", "Gamma", "gamma"}))
            chk.struct(oname(f"{cname}.parametrization[{i}{j};{tag}].is_pole_sum(R=1..n_poles)_of_a_summand_depending_on_pole_R_only"), ok, fn, witness=str(res)[:200], lemma=True, replay=search)
            res_t = _param(cls, j, i, s, B, nsym, R, extra)
            if ok and isinstance(res_t, sp.Sum) and tuple(res_t.limits) == ((R, 1, nsym),):
                tr = KTr(f"sm{cname}{i}{j}")
                if cls is RL:
                    C.use_contracts(tr)
                req = _param_requires(tr, cls, s, B, [R], sorted({i, j}), extra)
                nreq = len(tr.wd)
                v = chk.guarded(oname(f"{cname}.parametrization[{i}{j};{tag}].summand"), lambda: tr.scalar(f), fn, replay=search)
                if v is not None:
                    vt = tr.scalar(res_t.function)
                    add_wd(chk, f"{cname}.parametrization[{i}{j};{tag}].summand", tr, req, fn, replay=search)
                    chk.smt(oname(f"{cname}.parametrization[{i}{j};{tag}].summand.real"), req + tr.hyps(), v.imz == 0, function=fn, lemma=True, replay=search)
                    chk.smt(oname(f"{cname}.parametrization[{i}{j};{tag}].summand.symmetric_in_ij"), req + tr.hyps(), v.eq(vt), function=fn, lemma=True, replay=search)
                    if (i, j) == (0, min(1, nmax - 1)) and kind == "real":
                        chk.cover(oname(f"{cname}.parametrization[{i}{j};{tag}].summand.cover"), req + tr.hyps() + [tr.scalar(B["gamma"][R, i]).re > 0, tr.scalar(B["Gamma"][R, i]).re > 0], fn)
            # ---- enumerated n_poles: the expanded finite sum ----
            for p in poles if enum else ():
                res = _param(cls, i, j, s, B, p, R, extra)
                res_t = _param(cls, j, i, s, B, p, R, extra)
                tr = KTr(f"pm{cname}{i}{j}{p}")
                if cls is RL:
                    C.use_contracts(tr)
                req = _param_requires(tr, cls, s, B, list(range(1, p + 1)), sorted({i, j}), extra)
                v = chk.guarded(oname(f"{cname}.parametrization[{i}{j};poles={p};{tag}]"), lambda: tr.scalar(res), fn, replay=search)
                if v is None:
                    continue
                vt = tr.scalar(res_t)
                add_wd(chk, f"{cname}.parametrization[{i}{j};poles={p};{tag}]", tr, req, fn, replay=search)
                chk.smt(oname(f"{cname}.parametrization[{i}{j};poles={p};{tag}].real_and_symmetric_in_ij"), req + tr.hyps(), z3.And(v.imz == 0, v.eq(vt)), function=fn, lemma=True, replay=search)


# ======================================================================================================================
# (iii) formulate: composition on the real output
# ======================================================================================================================
def _global_requires(tr, cls, n, p, kw):
    """The statement's domain for formulate(n, p): library symbols (non-negative), s above all thresholds and != m_R^2,
    every pole above every threshold (relativistic), meson radius != 0."""
    B = _bases("nonneg")
    s = sp.Symbol("s", nonnegative=True)
    req = _param_requires(tr, cls, s, B, list(range(1, p + 1)), list(range(n)), kw)
    return s, B, req


def formulate(chk: Check, cls, n: int, p: int, kw: dict, prove_nodes: bool = True) -> None:
    cname = cls.__name__
    fn = FK + cname + ".formulate"
    tag = f"n={n};poles={p}" + (";" + C.kw_tag(kw) if kw else "")
    hat = bool(kw.get("return_t_hat"))
    tm = _formulate(cls, n, p, kw)
    sums = sorted(tm.atoms(sp.Sum), key=str)
    phsp = kw.get("phsp_factor", PhaseSpaceFactor)
    # every pole sum in the output is real on the domain (proved on that very node)
    if prove_nodes:
        for k, node in enumerate(sums):
            tr = KTr(f"fs{k}")
            if cls is RL:
                C.use_contracts(tr)
            s, B, req = _global_requires(tr, cls, n, p, kw)
            v = chk.guarded(f"{cname}.formulate[{tag}].pole_sum[{k}]", lambda: tr.scalar(node), fn, replay=search)
            if v is None:
                continue
            add_wd(chk, f"{cname}.formulate[{tag}].pole_sum[{k}]", tr, req, fn, replay=search)
            chk.smt(f"{cname}.formulate[{tag}].pole_sum[{k}].real", req + tr.hyps(), v.imz == 0, function=fn, lemma=True, replay=search)
    # composition: pole sums -> real variables, rho_i(s) -> r_i^2 with r_i > 0 (contract of the phase-space factor)
    tr = KTr(f"f{cname}")
    knodes = {}
    for k, node in enumerate(sums):
        nm = f"ksum{k}"
        knodes[node] = nm
        tr.bind(node, Cx(z3.Real(nm)))
    rnames, rpos, r = {}, [], []
    if cls is RL:
        s = sp.Symbol("s", nonnegative=True)
        B = _bases("nonneg")
        for i in range(n):
            node = phsp(s, B["m_a"][i], B["m_b"][i])
            rv = z3.Real(f"r{i}")
            tr.bind(node, Cx(rv * rv))
            tr.bind(sp.sqrt(node), Cx(rv))
            rnames[node] = f"r{i}"
            rpos.append(rv > 0)
            r.append(rv)
        left = sorted(x.name for x in tm.atoms(sp.Symbol) if x.name.startswith("rho"))
    rep = replay_T(cls, n, p, kw, knodes, rnames)
    if cls is RL:
        chk.struct(f"{cname}.formulate[{tag}].all_rho_symbols_replaced_by_the_callers_factor", not left and all(tm.has(nd) for nd in rnames), fn, witness=str(left), replay=rep)
    Tf = chk.guarded(f"{cname}.formulate[{tag}]", lambda: C.frac(tr, tm), fn, replay=search)
    if Tf is None:
        return
    if hat:
        Tf = [[C.Frac(Cx(r[i])) * Tf[i][j] * C.Frac(Cx(r[j])) for j in range(n)] for i in range(n)]
    add_wd(chk, f"{cname}.formulate[{tag}]", tr, rpos, fn, replay=rep, lemma=False)
    hyps = rpos + C.wd_conds(tr) + tr.hyps()
    for (i, j), c in C.unitarity_claims_frac(Tf).items():
        chk.smt(f"{cname}.formulate[{tag}].unitarity[{i}{j}]", hyps, c, function=fn, replay=rep)
    for i in range(n):
        for j in range(i + 1, n):
            chk.smt(f"{cname}.formulate[{tag}].symmetry[{i}{j}]", hyps, Tf[i][j].eq(Tf[j][i]), function=fn, replay=rep)
    if (n, p) == (2, 1) or (n, p) == (1, 1):
        chk.cover(f"{cname}.formulate[{tag}].cover", hyps + [z3.Real("ksum0") > 0], fn)


def formulate_findings(chk: Check) -> None:
    """The statement without 'pole above threshold' on RelativisticKMatrix.formulate (expected: refuted)."""
    fn = FK + "RelativisticKMatrix.formulate"
    # n = 1, one pole, L = 0: fully unfolded real tree, principal square roots
    tm = RL.formulate(1, 1)
    full = C.expand_sums(tm).doit()
    tr = KTr("f11", sqrt_mode="principal")
    Tv = chk.guarded("RelativisticKMatrix.formulate[n=1;poles=1;L=0].doit", lambda: tr.val(full), fn, replay=search)
    if Tv is not None:
        wd = [c for _, c, _ in tr.wd]
        s = sp.Symbol("s", nonnegative=True)
        B = _bases("nonneg")
        mR, ma, mb = (tr.scalar(x).re for x in (B["m"][1], B["m_a"][0], B["m_b"][0]))
        below = z3.And(mR * mR < (ma + mb) * (ma + mb), mR * mR > (ma - mb) * (ma - mb))
        req = [C.thr_conds(tr, s, B["m_a"][0], B["m_b"][0]), mR > 0, below, tr.scalar(B["Gamma"][1, 0]).re > 0, tr.scalar(B["gamma"][1, 0]).re > 0]

        def from_model(mv):
            return {"s": mv["s"], "m_1": mv["m_1"], "Gamma_1_0": mv.get("Gamma_1_0", 1.0), "gamma_1_0": mv.get("gamma_1_0", 1.0),
                    "m_a_0": mv.get("m_a_0", 0.0), "m_b_0": mv.get("m_b_0", 0.0)}

        claims = list(C.unitarity_claims(Tv).values())
        chk.smt("RelativisticKMatrix.formulate[n=1;poles=1;L=0].unitarity|pole_below_threshold", req + wd + tr.hyps(), z3.And(*claims), function=fn,
                replay=replay_subthreshold(1, 0, from_model))
    # n = 2, one pole: without the requirement the contract of the pole sums gives symmetry only (K complex symmetric)
    tm = RL.formulate(2, 1)
    sums = sorted(tm.atoms(sp.Sum), key=str)
    tr = KTr("f21")
    for k, node in enumerate(sums):
        tr.bind(node, Cx(z3.Real(f"ksum{k}_re"), z3.Real(f"ksum{k}_im")))
    s = sp.Symbol("s", nonnegative=True)
    B = _bases("nonneg")
    rpos = []
    for i in range(2):
        node = PhaseSpaceFactor(s, B["m_a"][i], B["m_b"][i])
        rv = z3.Real(f"r{i}")
        tr.bind(node, Cx(rv * rv))
        tr.bind(sp.sqrt(node), Cx(rv))
        rpos.append(rv > 0)
    Tv = chk.guarded("RelativisticKMatrix.formulate[n=2;poles=1;L=0]|K_complex_symmetric", lambda: tr.val(tm), fn, replay=search)
    if Tv is not None:
        wd = [c for _, c, _ in tr.wd]
        claims = list(C.unitarity_claims(Tv).values())
        chk.smt("RelativisticKMatrix.formulate[n=2;poles=1;L=0].unitarity|pole_below_a_threshold", rpos + wd + tr.hyps(), z3.And(*claims), function=fn,
                replay=replay_subthreshold(2, 0, None))
        chk.smt("RelativisticKMatrix.formulate[n=2;poles=1;L=0].symmetry|pole_below_a_threshold", rpos + wd + tr.hyps(), Tv[0][1].eq(Tv[1][0]), function=fn,
                replay=replay_subthreshold(2, 0, None))


# ======================================================================================================================
def build(chk: Check) -> None:
    quick = chk.tier == "quick"
    chk.assume("A-arith: floats treated as exact reals")
    chk.assume("A-denote: translation table (vlib/tr.py; Indexed leaves = variables, Sum with integer limits = finite sum), cross-checked at cover models")
    chk.assume("A-principal: sqrt is the principal branch (sub-threshold obligations)")
    chk.assume("A-path: BlattWeisskopfSquared.evaluate branches on ell.free_symbols; the concrete-L branch is enumerated (L = 0..4), the symbolic-L branch is outside the stated domain")
    chk.assume("big-operator axioms for Sum with symbolic n_poles: a finite sum of real terms is real; sums with termwise equal summands are equal (used only instantiated: "
               "the summand obligations are proved for an arbitrary pole index R)")
    chk.assume("requires meson_radius != 0 (EnergyDependentWidth is 0/0 for L >= 1 otherwise)")
    chk.assume("requires channel thresholds in the form s > (m_a+m_b)^2 and s > (m_a-m_b)^2 (real masses of either sign)")
    chk.assume("requires (relativistic, NOT in the statement) every pole mass above every channel threshold; on the rest of the statement's domain the clause is refuted: obligations ...|pole_below_threshold and ...|pole_below_a_threshold")
    chk.trust("z3 5.1.0 / cvc5 1.4 unsat answers")
    chk.trust("numpy evaluation (lambdify) of the real trees in replays and cover cross-checks")
    ns = (1, 2) if quick else (1, 2, 3)
    poles = (1, 2) if quick else (1, 2, 3, 4)
    ells = tuple(range(5))
    ells_bw = ells if quick else tuple(range(9))
    nmax = max(ns)

    for n in ns:
        create_matrices(chk, n)
        cayley(chk, n)
    cayley_schema(chk)
    width_chain(chk, ells, ells_bw, ells[:3] if quick else ells)

    # (ii)
    parametrization(chk, NR, nmax, poles, [("real", {}, True), ("nonneg", {}, True)])
    # symbolic n_poles (all n_poles at once) for every L and factor; the expanded sums for the default and two more
    rel_cfg = [("real", {"angular_momentum": ell, "meson_radius": D_SYM, "phsp_factor": cls}, (ell, cls) in {(0, PhaseSpaceFactor), (3, PhaseSpaceFactorComplex)})
               for ell in ells for cls in REAL_PHSP]
    rel_cfg += [("nonneg", {}, True), ("nonneg", {"angular_momentum": 2, "meson_radius": D_SYM, "phsp_factor": PhaseSpaceFactorAbs}, False)]
    parametrization(chk, RL, nmax, poles, rel_cfg)

    # (iii)
    for n in ns:
        for p in poles:
            formulate(chk, NR, n, p, {})
            small = n <= 2 and p <= 2
            formulate(chk, RL, n, p, {})
            formulate(chk, RL, n, p, {"return_t_hat": True}, prove_nodes=False)
            if small:
                for ell in ells:
                    for cls in REAL_PHSP:
                        if ell == 0 and cls is PhaseSpaceFactor:
                            continue
                        formulate(chk, RL, n, p, {"angular_momentum": ell, "phsp_factor": cls, "meson_radius": D_SYM})

    C.phsp_factor_history(chk, RL, FK + "RelativisticKMatrix.formulate")
    C.phsp_factor_history(chk, RL, FK + "RelativisticKMatrix.formulate", {"return_t_hat": True})

    abs_variant_all_pole_masses(chk, ells)

    # the statement without the requirement on the pole masses
    width_findings(chk, ells)
    formulate_findings(chk)

    # engine self-tests: false postconditions that must be refuted
    t_m, k_m = NR._create_matrices(1)
    tr = KTr("st", kinds={"K": "real"})
    Tf = C.frac(tr, t_m)
    Kv = tr.scalar(k_m[0, 0])
    chk.mustfail("selftest.NonRelativisticKMatrix.T(1-iK)==2K", C.wd_conds(tr) + tr.hyps(), (Tf[0][0] * C.Frac(CONE - CI * Kv)).eq(C.Frac(Cx(2) * Kv)), function=FK + "NonRelativisticKMatrix._create_matrices")
    tr = KTr("st2", kinds={"K": "complex"})
    Tf = C.frac(tr, t_m)
    chk.mustfail("selftest.NonRelativisticKMatrix.unitary_for_complex_K", C.wd_conds(tr) + tr.hyps(), C.unitarity_claims_frac(Tf)[(0, 0)], function=FK + "NonRelativisticKMatrix._create_matrices")
    t_m, k_m = NR._create_matrices(2)
    tr = KTr("st3", kinds={"K": "real"})
    Tf = C.frac(tr, t_m)
    chk.mustfail("selftest.NonRelativisticKMatrix.symmetric_for_nonsymmetric_K", C.wd_conds(tr) + tr.hyps(), Tf[0][1].eq(Tf[1][0]), function=FK + "NonRelativisticKMatrix._create_matrices")


# ======================================================================================================================
# PhaseSpaceFactorAbs: the variant for which the statement holds WITHOUT the requirement on the pole masses
# ======================================================================================================================
def abs_variant_all_pole_masses(chk: Check, ells) -> None:
    """With phsp_factor=PhaseSpaceFactorAbs the energy-dependent width is real for EVERY real pole mass (rho = 2 sqrt|q^2| / sqrt|s| is
    real everywhere), so K is real and T unitary above the thresholds also when a pole lies below a threshold or below a pseudo-threshold
    |m_a - m_b| -- the part of the statement's domain the other factors do not reach (known finding). E1 on the unfolded real tree for the
    width; the real formulate() numerically at poles below threshold and below pseudo-threshold (bounded)."""
    from ampform.dynamics.phasespace import PhaseSpaceFactorAbs

    s, m1, m2, m0, g0 = sp.symbols("s m1 m2 m0 Gamma0", real=True)
    fn = FD + "EnergyDependentWidth.evaluate"

    def numeric_rep(ell):
        def rep(model=None):
            rng = np.random.default_rng(9090 + ell)
            worst = None
            for k in range(8):
                n = 2
                vals = C.sample_point(rng, n, 2)
                # channel 1 with unequal masses; pole 1 below its pseudo-threshold (k even) or between pseudo-threshold and threshold (k odd)
                vals["m_a_1"], vals["m_b_1"] = 1.1, 0.2
                vals["m_1"] = 0.7 if k % 2 == 0 else 1.0
                vals["s"] = float((1.35 + 0.3 * k) ** 2)
                try:
                    T = _t_numeric(RL, n, 2, {"angular_momentum": ell, "phsp_factor": PhaseSpaceFactorAbs}, vals)
                except Exception as e:  # noqa: BLE001
                    return {"reproduced": True, "input": vals, "observed": f"{type(e).__name__}: {e}"[:200]}
                if not np.all(np.isfinite(T)):
                    continue
                ud, sd = C.unit_defect(T), C.sym_defect(T)
                if worst is None or ud > worst[0]:
                    worst = (ud, sd, vals, T)
            if worst is None:
                return {"reproduced": False, "note": "no finite evaluation"}
            ud, sd, vals, T = worst
            return {"reproduced": bool(ud > 1e-6 or sd > 1e-6), "function": f"RelativisticKMatrix.formulate(n_channels=2; n_poles=2; angular_momentum={ell}; phsp_factor=PhaseSpaceFactorAbs)",
                    "input": {**vals, "pseudo_threshold_1": 0.9, "threshold_1": 1.3}, "expected": "max|S^dagger S - 1| = 0 and T = T^T", "observed": {"unitarity_defect": ud, "symmetry_defect": sd}}

        return rep

    for ell in ells[:3]:
        rep = numeric_rep(ell)
        r = rep()
        chk.struct(f"abs_variant.unitary_with_pole_below_(pseudo-)threshold[L={ell}]", not r["reproduced"], FK + "RelativisticKMatrix.formulate", witness=r, replay=rep, bounded=True)
        tr = KTr(f"abs{ell}", sqrt_mode="principal")
        node = EnergyDependentWidth(s, m0, g0, m1, m2, ell, 1, PhaseSpaceFactorAbs)
        v = chk.guarded(f"abs_variant.EnergyDependentWidth.doit[L={ell}]", lambda: tr.scalar(node.doit()), fn, replay=rep)
        if v is None:
            continue
        wd = [c for _, c, _ in tr.wd]
        sv, a, b, mv = (tr.scalar(x).re for x in (s, m1, m2, m0))
        hyps = [C.thr_conds(tr, s, m1, m2), a > 0, b > 0, mv > 0, tr.scalar(g0).re > 0, mv * mv != (a + b) * (a + b), mv * mv != (a - b) * (a - b)] + wd + tr.hyps()
        chk.smt(f"abs_variant.EnergyDependentWidth.real_for_every_pole_mass[L={ell}]", hyps, v.imz == 0, function=fn, replay=rep, tactics=("default", "nlsat"))
