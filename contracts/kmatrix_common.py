"""Shared machinery of the K-matrix contracts (C09 unitarity/symmetry, C10 production vectors).

Everything here is generated from / evaluated on the real functions of ampform.dynamics.kmatrix,
ampform.dynamics (EnergyDependentWidth, relativistic_breit_wigner*), .phasespace and .form_factor.

* `KTr`            E1 translator with two more denotation rules: `Indexed` leaves (m[1], Gamma[1, 0], K[0, 1] ...) are
                   variables, `Sum` with integer limits is the finite sum of its instantiated summand (A-denote).
* contracts        of the nested expression classes (EnergyDependentWidth = gamma0 * c with c > 0 above threshold,
                   FormFactor > 0, phase-space factor > 0, BlattWeisskopfSquared > 0, BreakupMomentumSquared > 0)
                   installed per translator with `use_contracts`; that the real `evaluate()` bodies meet them is
                   proved by `width_chain` (lemma obligations).
* numeric          evaluation of the real trees (doit + lambdify, complex dtype) for covers, replays and `search`.
"""

from __future__ import annotations

import itertools
import math
from typing import Any

import numpy as np
import sympy as sp
import z3

from ampform.dynamics import (
    BlattWeisskopfSquared,
    BreakupMomentumSquared,
    EnergyDependentWidth,
    EqualMassPhaseSpaceFactor,
    FormFactor,
    PhaseSpaceFactor,
    PhaseSpaceFactorAbs,
    PhaseSpaceFactorComplex,
    PhaseSpaceFactorSWave,
)
from ampform.dynamics import kmatrix as KM
from contracts import specs_kin  # noqa: F401  (registers the contract of ComplexSqrt)
from vlib import e1
from vlib.core import Check
from vlib.tr import CI, CONE, CZERO, Cx, Tr, TrError, det, flatten, matmul

FK = "ampform.dynamics.kmatrix."
FD = "ampform.dynamics."
REAL_PHSP = (PhaseSpaceFactor, PhaseSpaceFactorAbs, PhaseSpaceFactorComplex)  # real above threshold
CONCRETE_PHSP = (PhaseSpaceFactor, PhaseSpaceFactorAbs, PhaseSpaceFactorComplex, PhaseSpaceFactorSWave, EqualMassPhaseSpaceFactor)


# ------------------------------------------------------------------------------------------------------------------
# names
# ------------------------------------------------------------------------------------------------------------------
def zname(e) -> str:
    """Variable name of a leaf: Symbol s -> 's', Indexed Gamma[1, 0] -> 'Gamma_1_0', m[R] -> 'm_R'."""
    if isinstance(e, sp.Indexed):
        return str(e.base.label) + "_" + "_".join(str(i) for i in e.indices)
    return str(e)


def oname(s: str) -> str:
    """Obligation names must not contain commas."""
    return s.replace(", ", ";").replace(",", ";")


def add_wd(chk: Check, prefix: str, tr: Tr, requires: list[Any], function: str, start: int = 0, replay=None, lemma=True) -> int:
    """Well-definedness of a translated tree (non-zero denominators, square-root domains, requires of the callees):
    ONE obligation `<prefix>.wd`, the conjunction over the collected conditions k of
    (definitions of auxiliaries that precede condition k) => condition k.   The name does not depend on the number or
    the text of the conditions, so that it is stable under refactorings of the code under contract."""
    seen: dict[str, Any] = {}
    items = []
    for what, cond, nside in tr.wd[start:]:
        key = cond.sexpr()
        if key in seen:
            continue
        seen[key] = True
        items.append((what, cond, nside))
    parts = [z3.Implies(z3.And(*tr.side[:nside]), cond) if nside else cond for _, cond, nside in items]
    claim = z3.And(*parts) if parts else z3.BoolVal(True)
    ob = chk.smt(oname(f"{prefix}.wd"), requires + list(tr.assm), claim, function=function, replay=replay, lemma=lemma)
    ob.note = "; ".join(w for w, _, _ in items)[:400]
    return len(items)


# ------------------------------------------------------------------------------------------------------------------
# translator
# ------------------------------------------------------------------------------------------------------------------
def _indexed(tr: "KTr", e):
    base = str(e.base.label)
    kind = tr.kinds.get(base)
    if kind is None:
        kind = "real" if (e.is_real or e.is_extended_real) else "complex"
    nm = zname(e)
    tr.leaves[nm] = e
    if kind == "real":
        v = Cx(z3.Real(nm))
        if e.is_positive:
            tr.assm.append(v.re > 0)
        elif e.is_nonnegative:
            tr.assm.append(v.re >= 0)
        return v
    return Cx(z3.Real(nm + "__re"), z3.Real(nm + "__im"))


def _finite_sum(tr: "KTr", e):
    """Sum(f(R), (R, a, b)) with integer a <= b denotes f(a) + ... + f(b)."""
    f, *limits = e.args
    if len(limits) != 1:
        raise TrError("nested Sum")
    idx, lo, hi = limits[0]
    if not (lo.is_Integer and hi.is_Integer):
        raise TrError(f"Sum with symbolic limits {limits[0]} must be handled by the big-operator argument")
    out = CZERO
    for k in range(int(lo), int(hi) + 1):
        out = out + tr.scalar(f.xreplace({idx: sp.Integer(k)}))
    return out


class KTr(Tr):
    def __init__(self, name: str = "", sqrt_mode: str = "real", kinds: dict[str, str] | None = None):
        super().__init__(name, sqrt_mode)
        self.kinds = dict(kinds or {})
        self.leaves: dict[str, Any] = {}
        self.specs[sp.Indexed] = _indexed
        self.specs[sp.Sum] = _finite_sum
        self.contract_vars: dict[Any, Any] = {}

    def symbol(self, s):  # remember the leaf for numeric evaluation
        self.leaves[s.name] = s
        return super().symbol(s)


def expand_sums(expr):
    """The same finite-sum reading on the SymPy side (no doit of the nested classes)."""
    def one(s):
        f, (idx, lo, hi) = s.args[0], s.args[1]
        return sp.Add(*[f.xreplace({idx: sp.Integer(k)}) for k in range(int(lo), int(hi) + 1)])

    sums = [s for s in expr.atoms(sp.Sum) if s.args[1][1].is_Integer and s.args[1][2].is_Integer]
    return expr.xreplace({s: one(s) for s in sums})


# ---- contracts of the nested classes (used at call sites; proved by width_chain) --------------------------------------
def thr_conds(tr: Tr, s, m1, m2):
    """'s above the threshold of the channel with real masses m1, m2': s > (m1+m2)^2 and s > (m1-m2)^2."""
    sv, a, b = tr.scalar(s), tr.scalar(m1), tr.scalar(m2)
    if not (sv.is_real and a.is_real and b.is_real):
        raise TrError("threshold condition on complex-valued arguments")
    return z3.And(sv.re > (a.re + b.re) * (a.re + b.re), sv.re > (a.re - b.re) * (a.re - b.re))


def use_contracts(tr: KTr, phsp_classes=REAL_PHSP) -> None:
    """Install the contracts (requires at the call site -> tr.need, result = fresh variable with the ensures)."""

    def positive_node(kind):
        def f(tr, e):
            s, m1, m2 = e.args[:3]
            tr.need(f"{kind} requires s above threshold: {str(e)[:40]}", thr_conds(tr, s, m1, m2))
            if kind == "FormFactor":
                d = tr.scalar(e.args[4])
                if not d.is_real:
                    raise TrError("complex meson radius")
                tr.need(f"FormFactor requires meson_radius != 0: {str(e)[:40]}", d.re != 0)
                ell = e.args[3]
                if not (ell.is_Integer and ell >= 0):
                    raise TrError("FormFactor contract needs a concrete angular momentum")
            v = tr.fresh(kind[:3].lower())
            tr.side.append(v > 0)
            return Cx(v)

        return f

    for cls in phsp_classes:
        tr.specs[cls] = positive_node(cls.__name__)
    tr.specs[FormFactor] = positive_node("FormFactor")
    tr.specs[BreakupMomentumSquared] = positive_node("BreakupMomentumSquared")

    def edw(tr, e):
        """EnergyDependentWidth(s, m0, gamma0, m1, m2, L, d, phsp) = gamma0 * c, c > 0 independent of gamma0."""
        s, m0, g0, m1, m2, ell, d = e.args
        if e.phsp_factor not in phsp_classes:
            raise TrError(f"no contract for EnergyDependentWidth with phsp_factor={e.phsp_factor}")
        if not (ell.is_Integer and ell >= 0):
            raise TrError("EnergyDependentWidth contract needs a concrete angular momentum")
        tr.need(f"EDW requires s above threshold: {str(e)[:40]}", thr_conds(tr, s, m1, m2))
        tr.need(f"EDW requires pole mass squared above threshold: {str(e)[:40]}", thr_conds(tr, m0**2, m1, m2))
        dv = tr.scalar(d)
        tr.need(f"EDW requires meson_radius != 0: {str(e)[:40]}", dv.re != 0)
        key = (s, m0, m1, m2, ell, d, e.phsp_factor)
        if key not in tr.contract_vars:
            c = tr.fresh("c")
            tr.side.append(c > 0)
            tr.contract_vars[key] = c
        g = tr.scalar(g0)
        return g.scale(tr.contract_vars[key])

    tr.specs[EnergyDependentWidth] = edw


# ------------------------------------------------------------------------------------------------------------------
# small linear algebra over Cx
# ------------------------------------------------------------------------------------------------------------------
def conjT(a):
    return [[a[j][i].conj() for j in range(len(a))] for i in range(len(a[0]))]


def adj(m):
    n = len(m)
    if n == 1:
        return [[CONE]]
    out = [[None] * n for _ in range(n)]
    for i in range(n):
        for j in range(n):
            minor = [row[:j] + row[j + 1 :] for k, row in enumerate(m) if k != i]
            c = det(minor)
            out[j][i] = c if (i + j) % 2 == 0 else -c
    return out


def one_minus_i(K, rho_right=None, rho_left=None):
    """1 - i K   (optionally 1 - i rho K with diagonal rho on the left / 1 - i K rho on the right)."""
    n = len(K)
    out = []
    for i in range(n):
        row = []
        for j in range(n):
            k = K[i][j]
            if rho_left is not None:
                k = rho_left[i] * k
            if rho_right is not None:
                k = k * rho_right[j]
            row.append((CONE if i == j else CZERO) - CI * k)
        out.append(row)
    return out


def nonzero(c: Cx):
    return c.re != 0 if c.is_real else z3.Or(c.re != 0, c.im != 0)


def s_matrix(T):
    n = len(T)
    return [[(CONE if i == j else CZERO) + Cx(0, 2) * T[i][j] for j in range(n)] for i in range(n)]


def unitarity_claims(T):
    """entries (i<=j) of S^dagger S - 1 = 0 as z3 formulas."""
    S = s_matrix(T)
    SS = matmul(conjT(S), S)
    n = len(T)
    return {(i, j): SS[i][j].eq(CONE if i == j else CZERO) for i in range(n) for j in range(i, n)}


# ------------------------------------------------------------------------------------------------------------------
# numeric evaluation of the real trees
# ------------------------------------------------------------------------------------------------------------------
def _num(v):
    v = complex(v)
    return sp.Float(v.real, 30) if v.imag == 0 else sp.Float(v.real, 30) + sp.I * sp.Float(v.imag, 30)


_LEAF_CACHE: dict[Any, Any] = {}


def numeric(expr, values: dict[str, Any], default: float | None = None):
    """Numeric value of a real ampform tree at a parameter point: finite sums are written out, every leaf (Symbol,
    Indexed -- looked up by zname) is replaced by its number, then doit() unfolds the real classes on numbers (principal
    roots, complex arithmetic; 30 digits). Returns a complex numpy array (scalar: shape ())."""
    key = sp.ImmutableMatrix(expr) if isinstance(expr, sp.MatrixBase) else sp.sympify(expr)
    if key not in _LEAF_CACHE:
        e = expand_sums(key)
        leaves = sorted(set(e.atoms(sp.Indexed)) | {x for x in e.atoms(sp.Symbol) if not any(x == a.base.label for a in e.atoms(sp.Indexed))}, key=str)
        _LEAF_CACHE[key] = (e, leaves)
    e, leaves = _LEAF_CACHE[key]
    sub = {}
    for leaf in leaves:
        nm = zname(leaf)
        if nm in values:
            v = values[nm]
        elif nm + "__re" in values or nm + "__im" in values:
            v = complex(float(values.get(nm + "__re", 0)), float(values.get(nm + "__im", 0)))
        elif default is not None:
            v = default
        else:
            raise KeyError(f"no value for leaf {nm}")
        sub[leaf] = _num(v)
    out = e.xreplace(sub).doit()

    def cnum(x):
        x = sp.N(x, 20)
        if x.has(sp.nan) or x.has(sp.zoo) or x.has(sp.oo):
            return complex("nan")
        return complex(x)

    if isinstance(out, sp.MatrixBase):
        return np.array([[cnum(out[i, j]) for j in range(out.cols)] for i in range(out.rows)], dtype=complex)
    return np.asarray(cnum(out), dtype=complex)


def unit_defect(T) -> float:
    T = np.asarray(T, dtype=complex)
    S = np.eye(T.shape[0]) + 2j * T
    return float(np.max(np.abs(S.conj().T @ S - np.eye(T.shape[0]))))


def sym_defect(T) -> float:
    T = np.asarray(T, dtype=complex)
    return float(np.max(np.abs(T - T.T)))


def model_values(model: dict[str, Any]) -> dict[str, float]:
    out = {}
    for k, v in model.items():
        if isinstance(v, bool):
            continue
        try:
            out[k] = float(v)
        except Exception:  # noqa: BLE001
            pass
    return out


def cover_cmp(value, real_expr, tol: float = 1e-6, extra=None):
    """model_check of a cover: the SMT denotation equals the numpy value of the real tree at the cover model.
    `extra(model) -> dict` supplies values of leaves that are bound to derived terms (e.g. rho0 = r0^2)."""

    def check(model):
        vals = model_values(model)
        if extra is not None:
            vals.update(extra(vals))
        if isinstance(value, list) and value and isinstance(value[0], Frac):
            smt_vals = np.array([e1.cfloat(c.n, model) / e1.cfloat(c.d, model) for c in value])
        else:
            smt_vals = np.array([e1.cfloat(c, model) for c in flatten(value)])
        num = numeric(real_expr, vals, default=0.0).reshape(-1)
        if num.shape != smt_vals.shape:
            return f"shape {num.shape} vs {smt_vals.shape}"
        if not np.all(np.isfinite(num)):
            return f"real code gives non-finite values {num[:4]} at the cover model"
        err = float(np.max(np.abs(num - smt_vals)))
        if err > tol * (1.0 + float(np.max(np.abs(num)))):
            return f"max |real - smt| = {err:.3e}: real={num[:4]} smt={smt_vals[:4]}"
        return None

    return check


# ------------------------------------------------------------------------------------------------------------------
# sampling of parameter points (deterministic) for `search` replays
# ------------------------------------------------------------------------------------------------------------------
def sample_point(rng, n: int, p: int, below: bool = False) -> dict[str, float]:
    """Real parameters with s above every threshold and away from the poles; pole masses above every threshold
    (below=True: the first pole between the lowest and the highest threshold, or below the only one)."""
    v: dict[str, float] = {}
    thr = []
    for i in range(n):
        a, b = rng.uniform(0.1, 0.5), rng.uniform(0.1, 0.5)
        v[f"m_a_{i}"], v[f"m_b_{i}"] = float(a), float(b)
        thr.append(a + b)
    top = max(thr)
    for R in range(1, p + 1):
        v[f"m_{R}"] = float(top + rng.uniform(0.15, 1.5))
        v[f"beta_{R}"] = float(rng.uniform(0.2, 1.5))
        for i in range(n):
            v[f"Gamma_{R}_{i}"] = float(rng.uniform(0.05, 0.6))
            v[f"gamma_{R}_{i}"] = float(rng.uniform(0.2, 1.2))
    if below:
        lo = min(thr)
        v["m_1"] = float(rng.uniform(0.5 * lo, 0.95 * lo)) if n == 1 or abs(top - lo) < 1e-3 else float(lo + (top - lo) * rng.uniform(0.2, 0.8))
    while True:
        s = float((top + rng.uniform(0.1, 2.0)) ** 2)
        if all(abs(s - v[f"m_{R}"] ** 2) > 0.05 for R in range(1, p + 1)):
            break
    v["s"] = s
    return v


def s_below(vals: dict[str, float], n: int, rng) -> dict[str, float]:
    """The same point with s below the highest channel threshold (between the thresholds for n >= 2), still > 0."""
    thr = sorted((vals[f"m_a_{i}"] + vals[f"m_b_{i}"]) ** 2 for i in range(n))
    lo = thr[-2] if n >= 2 else 0.2 * thr[-1]
    out = dict(vals)
    out["s"] = float(lo + (thr[-1] - lo) * rng.uniform(0.2, 0.8))
    return out


def point_hyps(hyps, claim, salt: int = 0):
    """A deterministic generic rational point for every free variable of an obligation (instance-level check: a false
    polynomial identity is refuted at a generic point by evaluation, where the solvers may time out searching for one)."""
    seen, todo, names = set(), list(hyps) + [claim], {}
    while todo:
        t = todo.pop()
        if t.get_id() in seen:
            continue
        seen.add(t.get_id())
        if z3.is_const(t) and t.decl().kind() == z3.Z3_OP_UNINTERPRETED and z3.is_real(t):
            names[t.decl().name()] = t
        todo.extend(t.children())
    out = []
    for k, nm in enumerate(sorted(names)):
        num = ((7 * k + 3 + salt) % 11) + 2
        den = ((3 * k + 1 + salt) % 5) + 2
        sign = -1 if (k + salt) % 3 == 0 else 1
        out.append(names[nm] == z3.RealVal(f"{sign * num}/{den}"))
    return out


def kw_tag(kw: dict[str, Any]) -> str:
    parts = []
    for k, val in sorted(kw.items()):
        short = {"angular_momentum": "L", "phsp_factor": "phsp", "return_t_hat": "hat", "return_f_hat": "hat", "meson_radius": "d"}.get(k, k)
        parts.append(f"{short}={getattr(val, '__name__', val)}")
    return ";".join(parts)


# ------------------------------------------------------------------------------------------------------------------
# division-free denotation of rational expressions: value = num / den whenever every recorded denominator is non-zero
# ------------------------------------------------------------------------------------------------------------------
class Frac:
    """A complex value given as a fraction of two division-free z3 terms (Cx). z3 proves polynomial identities by
    normalisation but is slow on identities between terms with many divisions; equalities between Fracs are therefore
    stated cross-multiplied (sound and complete given the well-definedness conditions den != 0)."""

    __slots__ = ("n", "d")

    def __init__(self, n: Cx, d: Cx = CONE):
        self.n, self.d = n, d

    def _same_den(self, o: "Frac") -> bool:
        a, b = self.d, o.d
        return a.re.eq(b.re) and ((a.im is None and b.im is None) or (a.im is not None and b.im is not None and a.im.eq(b.im)))

    def __add__(self, o: "Frac") -> "Frac":
        if self._same_den(o):
            return Frac(self.n + o.n, self.d)
        return Frac(self.n * o.d + o.n * self.d, self.d * o.d)

    def __neg__(self) -> "Frac":
        return Frac(-self.n, self.d)

    def __sub__(self, o: "Frac") -> "Frac":
        return self + (-o)

    def __mul__(self, o: "Frac") -> "Frac":
        return Frac(self.n * o.n, self.d * o.d)

    def conj(self) -> "Frac":
        return Frac(self.n.conj(), self.d.conj())

    def eq(self, o: "Frac"):
        """cross-multiplied equality."""
        return (self.n * o.d).eq(o.n * self.d)


def _is_one(c: Cx) -> bool:
    return c.im is None and z3.is_rational_value(c.re) and c.re.numerator_as_long() == 1 and c.re.denominator_as_long() == 1


def frac(tr: Tr, e) -> Any:
    """Denotation of a SymPy tree as Frac (matrices: nested lists). Non-rational nodes (leaves, bound nodes, contracted
    classes, roots) are delegated to the translator `tr`; every denominator met is recorded with tr.need(... != 0)."""
    if isinstance(e, sp.MatrixBase):
        return [[frac(tr, e[i, j]) for j in range(e.cols)] for i in range(e.rows)]
    e = sp.sympify(e)
    if e in tr.env or e.is_Atom or type(e) in tr.specs and not isinstance(e, sp.Sum):
        return Frac(tr.scalar(e))
    if isinstance(e, sp.Sum):
        f, (idx, lo, hi) = e.args[0], e.args[1]
        if not (lo.is_Integer and hi.is_Integer):
            raise TrError("Sum with symbolic limits")
        out = Frac(CZERO)
        for k in range(int(lo), int(hi) + 1):
            out = out + frac(tr, f.xreplace({idx: sp.Integer(k)}))
        return out
    if isinstance(e, sp.Add):
        out = None
        for a in e.args:
            v = frac(tr, a)
            out = v if out is None else out + v
        return out
    if isinstance(e, sp.Mul):
        out = Frac(CONE)
        for a in e.args:
            out = out * frac(tr, a)
        return out
    if isinstance(e, sp.Pow) and e.exp.is_Integer:
        b = frac(tr, e.base)
        k = int(e.exp)
        if k < 0:
            tr.need(f"denominator != 0 in {str(e)[:50]}", nonzero(b.n))
            b = Frac(b.d, b.n)
            k = -k
        out = Frac(CONE)
        for _ in range(k):
            out = out * b
        return out
    if isinstance(e, sp.conjugate):
        return frac(tr, e.args[0]).conj()
    return Frac(tr.scalar(e))


def unitarity_claims_frac(T):
    """entries (i<=j) of S^dagger S = 1 for S = 1 + 2iT with T a matrix of Frac (cross-multiplied, division-free)."""
    n = len(T)
    S = [[Frac(CONE if i == j else CZERO) + Frac(Cx(0, 2)) * T[i][j] for j in range(n)] for i in range(n)]
    out = {}
    for i in range(n):
        for j in range(i, n):
            acc = Frac(CZERO)
            for k in range(n):
                acc = acc + S[k][i].conj() * S[k][j]
            out[(i, j)] = acc.eq(Frac(CONE if i == j else CZERO))
    return out


def wd_conds(tr, start=0):
    return [c for _, c, _ in tr.wd[start:]]


# ---------------------------------------------------------------------------------------------------------------------
# histories of formulate() calls with caller-supplied phase-space factors (bounded; shared by C09 and C10)
# ---------------------------------------------------------------------------------------------------------------------
def phsp_factor_history(chk: Check, cls, function: str, extra_kw: dict[str, Any] | None = None) -> None:
    """`cls.formulate(..., phsp_factor=f)` for a SEQUENCE of caller-supplied functions f in one process: the i-th result, unfolded, is the
    tree obtained with the library class that f wraps -- whatever was formulated before. The functions are closures of one factory
    (same module and qualified name) and lambdas: SymPy caches products and powers by ==/hash of their arguments, so the obligation
    fails if the expression classes identify functions by anything coarser than the function object (the result would then carry the
    phase-space factor of an EARLIER call: K no longer real above threshold, (1 - i K rho) F != P)."""
    import sympy as sp
    from ampform.dynamics import EnergyDependentWidth
    from ampform.dynamics.phasespace import PhaseSpaceFactor, PhaseSpaceFactorAbs, PhaseSpaceFactorComplex, PhaseSpaceFactorSWave

    def named(c):
        def phsp(s, m1, m2):
            return c(s, m1, m2)

        return phsp

    order = (PhaseSpaceFactorSWave, PhaseSpaceFactorAbs, PhaseSpaceFactorComplex, PhaseSpaceFactor, PhaseSpaceFactorSWave)
    kw = {"n_channels": 1 if chk.tier == "quick" else 2, "n_poles": 1, "angular_momentum": 1, "meson_radius": sp.Symbol("d", positive=True), **(extra_kw or {})}

    def run():
        bad = []
        for flavour, wrap in (("closures of one factory", named), ("lambdas", lambda c: (lambda s, m1, m2: c(s, m1, m2)))):  # noqa: E731
            for k, c in enumerate(order):
                f = wrap(c)
                got = cls.formulate(phsp_factor=f, **kw)
                foreign = sorted({w.phsp_factor.__qualname__ for w in got.atoms(EnergyDependentWidth) if w.phsp_factor is not f})
                want = cls.formulate(phsp_factor=c, **kw)
                if foreign or got.doit() != want.doit():
                    bad.append({"call": k + 1, "flavour": flavour, "phsp_factor": f"function wrapping {c.__name__}",
                                "history": [x.__name__ for x in order[:k]],
                                "energy_dependent_widths_carrying_another_function": len([w for w in got.atoms(EnergyDependentWidth) if w.phsp_factor is not f]),
                                "unfolded_equals_result_for_the_wrapped_class": bool(got.doit() == want.doit())})
        return bad

    def rep(_m=None):
        try:
            bad = run()
        except Exception as e:  # noqa: BLE001
            return {"reproduced": True, "input": f"{cls.__name__}.formulate with function-valued phsp_factor", "observed": f"{type(e).__name__}: {e}"[:300]}
        return {"reproduced": bool(bad), "input": f"{cls.__name__}.formulate(n_channels={kw['n_channels']}, n_poles=1, angular_momentum=1, phsp_factor=f) for f wrapping {[c.__name__ for c in order]} in this order",
                "expected": "each result is the one for the function passed in that call", "observed": bad[:2]}

    r = rep()
    chk.struct(f"history.formulate_uses_the_phsp_factor_of_this_call[{cls.__name__}{kw_tag(extra_kw or {})}]", not r["reproduced"], function, witness=r, replay=rep, bounded=True)
