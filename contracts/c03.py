"""C03 — parity partners carry exactly the parity sign of the flipped nodes.

Layer (i), E3: the real `HelicityAmplitudeBuilder.__generate_amplitude_prefactor` (and `get_prefactor`, inlined) executed
symbolically for an abstract transition with k = 1..4 nodes (complete for 2..5 final states), every node's
`parity_prefactor` either None or a symbolic eta in {+1,-1}, the naming functions uninterpreted (so the result holds for
every naming flag combination) and the partner mapping an arbitrary finite map.
  ens  result (None read as 1) = product over the nodes whose raw suffix is mapped to a DIFFERENT suffix ("flipped" nodes)
       of that node's parity_prefactor (None read as 1)          -- the statement's "of exactly those nodes".
Layer (ii), bounded: on zoo reactions with parity-constrained nodes, the same postcondition evaluated on the real private
method for every transition, and the model-level consequence: chains sharing one coefficient have component ratios equal
to the product of the flipped nodes' eta times the ratio of their angular parts.
"""

from __future__ import annotations

import itertools

import sympy as sp
import z3

from vlib import models, zoo
from vlib.core import Check
from vlib.pyvc import Executor, Obj, Rec, SMap, SV, State, Unsupported

LEVEL = "proof"
ENGINE = "E3 pyvc + E5 harness"
TECHNIQUE = "contract-based deductive verification: symbolic execution of the real method's AST over an abstract transition (all paths), postcondition discharged by z3; bounded replay on zoo reactions"
CLAIM = (
    "For every transition with 1..4 decay nodes, every assignment of parity prefactors (None or +-1), every suffix naming and every partner mapping, the prefactor "
    "returned by the real __generate_amplitude_prefactor equals the product of the parity factors of exactly the flipped nodes (z3, all paths). On zoo reactions the "
    "real method is additionally evaluated on every transition (bounded)."
)
NOTE = (
    "Node set unrolled to <= 4 nodes (complete for 2..5 final states); suffix generation and the partner mapping are uninterpreted (A-pure); sp.Rational(x) is the "
    "identity on +-1; qrules' InteractionProperties.parity_prefactor is eta as the statement defines it (dependency). Which chains share a coefficient is the name "
    "map's business: its invariants are checked on the zoo only (bounded)."
)
F = "ampform.helicity.HelicityAmplitudeBuilder.__generate_amplitude_prefactor"
ZOO = ["jpsi_sigmabar_sigma", "jpsi_k0_sigma_pbar_N", "jpsi_gamma_p_pbar", "chic1_phi_phi", "lambdac_p_k_pi", "jpsi_gamma_pi0_pi0", "jpsi_pi0_pip_pim", "d1_k_k_k0", "chic0_omega_omega", "chic2_gamma_gamma"]


def _real_method():
    from ampform.helicity import HelicityAmplitudeBuilder

    return getattr(HelicityAmplitudeBuilder, "_HelicityAmplitudeBuilder__generate_amplitude_prefactor")


def expected_prefactor(builder, transition):
    """Spec on real objects: product of parity_prefactor over the flipped nodes."""
    mapping = builder.naming.parity_partner_coefficient_mapping
    out = 1
    flipped = []
    for node_id in transition.topology.nodes:
        raw = builder.naming.generate_two_body_decay_suffix(transition, node_id)
        if raw in mapping and mapping[raw] != raw:
            flipped.append(node_id)
            eta = transition.interactions[node_id].parity_prefactor
            if eta is not None:
                out *= eta
    return out, flipped


def search(_model=None, flags=((False, True),)):
    """Property-level replay: evaluate the real private method on every transition of the zoo reactions."""
    import ampform

    models.quiet()
    for name in ZOO:
        for formalism in ("helicity", "canonical-helicity"):
            r = zoo.reaction(name, formalism)
            for parent_hel, child_hel in ((False, True), (True, True), (True, False)):
                b = ampform.get_builder(r)
                b.naming.insert_parent_helicities = parent_hel
                b.naming.insert_child_helicities = child_hel
                meth = _real_method()
                for k, t in enumerate(r.transitions):
                    want, flipped = expected_prefactor(b, t)
                    got = meth(b, t)
                    gotv = 1 if got is None else got
                    if sp.Rational(gotv) != sp.Rational(want):
                        etas = {n: t.interactions[n].parity_prefactor for n in t.topology.nodes}
                        chain = {i: (s.particle.name, s.spin_projection) for i, s in t.states.items()}
                        return {"reproduced": True, "input": {"reaction": name, "formalism": formalism, "transition_index": k, "states": str(chain),
                                                              "parity_prefactors": str(etas), "flipped_nodes": flipped,
                                                              "insert_parent_helicities": parent_hel, "insert_child_helicities": child_hel},
                                "expected": str(want), "observed": str(got)}
    return {"reproduced": False, "note": "real method agrees with the spec on every transition of the zoo"}


def canonical_consistency(name: str, use_real: bool = True, seed: int = 1):
    """The statement's "equivalently" clause at coefficient level (bounded, real objects): with random canonical LS
    coefficients a_LS, the helicity couplings H(chain) = sum_LS a_LS * prod_nodes CG*CG (real formulate_isobar_cg_coefficients
    on the canonical reaction) must satisfy, for all chains sharing one helicity coefficient symbol,
    H(chain) / prefactor(chain) = const  -- otherwise no coefficient value reproduces the canonical model."""
    import random

    import ampform
    from ampform.helicity import formulate_isobar_cg_coefficients

    models.quiet()
    rh, rc = zoo.reaction(name, "helicity"), zoo.reaction(name, "canonical-helicity")
    bh, bc = ampform.get_builder(rh), ampform.get_builder(rc)

    def key(t):
        return tuple(sorted((i, float(s.spin_projection), s.particle.name) for i, s in t.states.items())) + (t.topology,)

    rnd = random.Random(seed)
    cval, H = {}, {}
    for t in rc.transitions:
        suf = bc.naming.generate_sequential_amplitude_suffix(t)
        c = cval.setdefault(suf, complex(rnd.uniform(-1, 1), rnd.uniform(-1, 1)))
        cg = 1
        for n in t.topology.nodes:
            cg *= complex(formulate_isobar_cg_coefficients(t, n).doit())
        H[key(t)] = H.get(key(t), 0) + c * cg
    meth = _real_method()
    groups: dict = {}
    for t in rh.transitions:
        suf = bh.naming.generate_sequential_amplitude_suffix(t)
        if use_real:
            pf = meth(bh, t)
            pf = 1.0 if pf is None else float(pf)
        else:
            pf = float(expected_prefactor(bh, t)[0])
        if key(t) in H:
            groups.setdefault(suf, []).append((H[key(t)] / pf, {i: (s.particle.name, float(s.spin_projection)) for i, s in t.states.items()}, pf))
    bad = []
    for suf, lst in groups.items():
        ref = lst[0][0]
        for v, chain, pf in lst[1:]:
            if abs(v - ref) > 1e-9 * (1 + abs(ref)):
                bad.append({"coefficient": suf, "chain": str(chain), "prefactor_used": pf, "H/prefactor": str(v), "reference": str(ref), "reference_chain": str(lst[0][1])})
    return bad, len(groups)


def build(chk: Check) -> None:
    chk.assume("suffix generation / partner mapping uninterpreted (A-pure): holds for every naming")
    chk.assume("native contract: sp.Rational(x) = x on the values +-1 (A-arith)")
    chk.assume("qrules InteractionProperties.parity_prefactor = eta = P P1 P2 (-1)^(J-s1-s2) (dependency)")
    chk.trust("z3 5.1.0 unsat answers")
    from ampform.helicity import decay

    meth = _real_method()
    kmax = 3 if chk.tier == "quick" else 4
    total_paths = 0
    for k in range(1, 5):
        if k > kmax:
            break
        for none_mask in itertools.product([False, True], repeat=k):
            ex = Executor(f"pf{k}")
            ex.inline.add(decay.get_prefactor)
            ex.natives["sp.Rational"] = lambda ex_, st_, args, kw: iter([(st_, args[0])])
            raws = [z3.Const(f"raw{i}", Obj) for i in range(k)]
            ex.natives["Naming.generate_two_body_decay_suffix"] = lambda ex_, st_, args, kw, raws=raws: iter([(st_, SV(raws[args[2]], "obj"))])
            has = z3.Array("map_has", Obj, z3.BoolSort())
            val = z3.Array("map_val", Obj, Obj)
            etas = []
            inter = {}
            st = State()
            for i in range(k):
                if none_mask[i]:
                    inter[i] = Rec("Interaction", {"parity_prefactor": None})
                    etas.append(z3.RealVal(1))
                else:
                    e = z3.Real(f"eta{i}")
                    st.pc.append(z3.Or(e == 1, e == -1))
                    inter[i] = Rec("Interaction", {"parity_prefactor": SV(e, "real")})
                    etas.append(e)
            transition = Rec("Transition", {"topology": Rec("Topology", {"nodes": list(range(k))}), "interactions": inter})
            self_rec = Rec("Builder", {"naming": Rec("Naming", {"parity_partner_coefficient_mapping": Rec("Mapping", {"__map__": SMap(has, val)})})},
                           real_class=__import__("ampform.helicity", fromlist=["x"]).HelicityAmplitudeBuilder)  # private helper methods of the real class are interpreted
            tag = f"k={k}/none={''.join('N' if m else 'e' for m in none_mask)}"
            try:
                outs = ex.run(meth, [self_rec, transition], st=st)
            except Unsupported as e:
                chk.struct(f"prefactor[{tag}].in_supported_subset", False, F, witness=str(e), lemma=True, replay=search)
                continue
            total_paths += len(outs)
            flipped = [z3.And(z3.Select(has, raws[i]), z3.Select(val, raws[i]) != raws[i]) for i in range(k)]
            spec = z3.RealVal(1)
            for i in range(k):
                spec = spec * z3.If(flipped[i], etas[i], z3.RealVal(1))
            clauses, no_raise, opaque = [], [], []
            for oc in outs:
                pc = z3.And(*oc.st.pc) if oc.st.pc else z3.BoolVal(True)
                if oc.kind == "raise":
                    no_raise.append(z3.Not(pc))
                    continue
                v = oc.value
                if (isinstance(v, SV) and v.sort not in {"int", "real"}) or not (v is None or isinstance(v, (SV, int, float))):
                    opaque.append(str(v)[:120])  # a value the executor could not interpret (an abstraction): outside the subset, not a wrong result
                    continue
                vt = z3.RealVal(1) if v is None else (v.t if isinstance(v, SV) else z3.RealVal(str(v)))
                if isinstance(v, SV) and v.sort == "int":
                    vt = z3.ToReal(vt)
                clauses.append(z3.Implies(pc, vt == spec))
            if opaque:
                chk.struct(f"prefactor[{tag}].in_supported_subset", False, F, witness=f"opaque result(s): {opaque[:3]}", lemma=True, replay=search)
                continue
            # internal obligations (dict[key] needs key in dict, ...) named by WHAT they demand, not by the function they arise in: the same
            # demand raised inside an extracted helper is the same obligation
            by_kind: dict[str, list] = {}
            for o in ex.merged_obligations():
                by_kind.setdefault(o.name.split(".")[-1], []).append(z3.Implies(z3.And(*o.hyps) if o.hyps else z3.BoolVal(True), o.claim))
            by_kind.setdefault("key_present", [])  # no dict[key] on any path (e.g. the code uses .get): nothing to demand, holds trivially
            for kind_, cls_ in by_kind.items():
                chk.smt(f"prefactor[{tag}].{kind_}", [], z3.And(*cls_) if cls_ else z3.BoolVal(True), function=F, lemma=True, replay=search, tactics=("default",))
            chk.smt(f"prefactor[{tag}].ens.product_over_exactly_the_flipped_nodes", [], z3.And(*clauses) if clauses else z3.BoolVal(False), function=F,
                    replay=search, tactics=("default", "nlsat"))
            chk.smt(f"prefactor[{tag}].ens.never_raises", [], z3.And(*no_raise) if no_raise else z3.BoolVal(True), function=F, replay=search, tactics=("default",))
    chk.extra["e3_paths_total"] = total_paths
    # engine self-test: "product over ALL nodes whenever any node is flipped" (the behaviour the property text reports) must be refuted as a spec
    e0, e1_ = z3.Real("eta0"), z3.Real("eta1")
    f0, f1 = z3.Bool("flipped0"), z3.Bool("flipped1")
    chk.mustfail("selftest.all_nodes_product_is_not_the_spec", [z3.Or(e0 == 1, e0 == -1), z3.Or(e1_ == 1, e1_ == -1)],
                 z3.If(z3.Or(f0, f1), e0 * e1_, 1) == z3.If(f0, e0, 1) * z3.If(f1, e1_, 1), function=F, tactics=("default",))

    # ---- layer (ii): bounded, real objects ----
    import ampform

    models.quiet()
    meth_real = _real_method()
    n_tr = 0
    for name in ZOO if chk.tier == "thorough" else [*ZOO[:6], "chic0_omega_omega"]:
        for formalism in ("helicity", "canonical-helicity"):
            r = zoo.reaction(name, formalism)
            for parent_hel, child_hel in ((False, True), (True, True)) + (((True, False),) if chk.tier == "thorough" else ()):
                b = ampform.get_builder(r)
                b.naming.insert_parent_helicities = parent_hel
                b.naming.insert_child_helicities = child_hel
                bad = []
                constrained = 0
                for k_, t in enumerate(r.transitions):
                    n_tr += 1
                    want, flipped = expected_prefactor(b, t)
                    constrained += bool(flipped)
                    got = meth_real(b, t)
                    if sp.Rational(1 if got is None else got) != sp.Rational(want):
                        bad.append({"transition": k_, "expected": str(want), "observed": str(got), "flipped_nodes": flipped})
                f = "hel" if formalism == "helicity" else "can"
                chk.struct(f"prefactor.on_zoo[{name}/{f}/parent_hel={int(parent_hel)}/child_hel={int(child_hel)}]", not bad, F,
                           witness={"mismatches": bad[:4], "transitions_with_flipped_nodes": constrained}, replay=search, bounded=True)
                # invariants of the name map (bounded): idempotent, and a suffix maps to itself or to a different registered representative
                m = b.naming.parity_partner_coefficient_mapping
                ok = all(m.get(v, v) == v for v in m.values())
                chk.struct(f"name_map.idempotent[{name}/{f}/parent_hel={int(parent_hel)}/child_hel={int(child_hel)}]", ok, "ampform.helicity.naming.HelicityAmplitudeNameGenerator._register_amplitude_coefficients",
                           witness={k2: v for k2, v in m.items() if m.get(v, v) != v}, replay=search, bounded=True, lemma=True)
    chk.extra["zoo_transitions_evaluated"] = n_tr
    # "equivalently": helicity couplings from the Clebsch-Gordan expansion reproduce the canonical model (reactions generated
    # under strong/EM interactions in both formalisms)
    for name in ("jpsi_sigmabar_sigma", "jpsi_k0_sigma_pbar_N", "jpsi_gamma_p_pbar", "jpsi_gamma_pi0_pi0", "jpsi_pi0_pip_pim", "chic1_phi_phi", "chic0_omega_omega"):
        def rep(_m, name=name):
            bad, _ = canonical_consistency(name)
            return {"reproduced": bool(bad), "input": {"reaction": name, "canonical_coefficients": "random.Random(1)"}, "observed": bad[:3],
                    "expected": "H(chain)/prefactor(chain) equal for all chains sharing a coefficient"}

        bad, ngroups = canonical_consistency(name)
        chk.struct(f"canonical_consistency[{name}]", not bad, F, witness={"groups": ngroups, "mismatches": bad[:3]}, replay=rep, bounded=True)
        bad_spec, _ = canonical_consistency(name, use_real=False)
        chk.struct(f"canonical_consistency.of_the_contract[{name}]", not bad_spec, F, witness=bad_spec[:3], lemma=True, bounded=True,
                   note="the postcondition itself (product over flipped nodes) is consistent with the canonical expansion")
    model_level(chk)


# ---------------------------------------------------------------------------------------------------------------------
# model level: chains that share a coefficient IN THE FORMULATED MODEL (bounded; one builder, naming flags changed between calls)
# ---------------------------------------------------------------------------------------------------------------------
NAMING_HISTORIES = (((False, True),), ((False, True), (True, True)), ((True, True), (False, True)), ((False, True), (True, False), (False, True)))


def model_level_pairs(name: str, formalism: str, history) -> list[dict]:
    """Formulate on ONE builder after each naming-flag setting of `history`; in the last model, for every two chains whose components
    carry the same coefficient symbol: the chains differ exactly by reversed daughter helicities at some nodes, and the ratio of their
    constant factors is the product of parity_prefactor over exactly those nodes (the flipped nodes are read off the two transitions,
    not off the name map)."""
    import ampform

    r = zoo.reaction(name, formalism)
    b = ampform.get_builder(r)
    model = None
    for parent_hel, child_hel in history:
        b.naming.insert_parent_helicities = parent_hel
        b.naming.insert_child_helicities = child_hel
        model = b.formulate()
    groups: dict = {}
    import collections

    # without parent helicities in the names several chains can share ONE component name (it then holds their sum): such a component
    # does not factor into coefficient x chain and says nothing about a single chain's sign
    multiplicity = collections.Counter(b.naming.generate_amplitude_name(t) for t in r.transitions)
    for t in r.transitions:
        if multiplicity[b.naming.generate_amplitude_name(t)] > 1:
            continue
        comp = model.components.get(f"A_{{{b.naming.generate_amplitude_name(t)}}}")
        if comp is None:
            return [{"chain": str({i: (s.particle.name, str(s.spin_projection)) for i, s in t.states.items()}), "problem": "no component for this chain"}]
        coeffs = sorted((s for s in comp.free_symbols if s.name.startswith("C_")), key=str)
        if len(coeffs) != 1:
            continue  # symmetrised sums / helicity couplings: not of the form coefficient x chain
        # the component is coefficient x chain, or (identical final-state particles) the SUM of that over the exchanged graphs: every
        # term then carries the chain's constant factor; terms with different factors do not determine one sign (skipped)
        # (identical exchanged terms collapse into 2 x term: only the SIGN of the constant factor is the chain's parity factor)
        signs = {sp.sign(sp.Mul(*[f for f in sp.Mul.make_args(term) if f.is_number])) for term in sp.Add.make_args(comp)}
        if len(signs) != 1:
            continue
        sign = next(iter(signs))
        groups.setdefault(coeffs[0], []).append((t, sign))
    bad = []
    for c, lst in groups.items():
        ref_t, ref_sign = lst[0]
        for t, sign in lst[1:]:
            if t.topology != ref_t.topology:
                bad.append({"coefficient": str(c), "problem": "chains of different topologies share a coefficient"})
                continue
            flipped, other = [], []
            for n in t.topology.nodes:
                kids = sorted(t.topology.get_edge_ids_outgoing_from_node(n))
                h1 = [ref_t.states[k].spin_projection for k in kids]
                h2 = [t.states[k].spin_projection for k in kids]
                if h1 == h2:
                    continue
                (flipped if all(a == -b_ for a, b_ in zip(h1, h2)) else other).append(n)
            want = 1
            for n in flipped:
                eta = t.interactions[n].parity_prefactor
                want *= 1 if eta is None else eta
            same_particles = all(ref_t.states[i].particle.name == t.states[i].particle.name for i in t.states)
            if other or not same_particles or sp.Rational(sign) / sp.Rational(ref_sign) != sp.Rational(want):
                bad.append({"coefficient": str(c), "naming_history": [list(h) for h in history],
                            "chain": str({i: (s.particle.name, str(s.spin_projection)) for i, s in t.states.items()}),
                            "reference_chain": str({i: (s.particle.name, str(s.spin_projection)) for i, s in ref_t.states.items()}),
                            "nodes_with_reversed_daughter_helicities": flipped, "nodes_that_differ_otherwise": other,
                            "observed_ratio": str(sp.Rational(sign) / sp.Rational(ref_sign)), "expected_ratio": str(want)})
    return bad


def model_level(chk: Check) -> None:
    models.quiet()
    names = ZOO if chk.tier == "thorough" else ["jpsi_sigmabar_sigma", "jpsi_gamma_p_pbar", "jpsi_pi0_pip_pim", "chic1_phi_phi", "chic0_omega_omega"]
    for name in names:
        # helicity formalism only: in the canonical formalism chains share an LS coefficient for another reason (one coefficient per
        # LS combination, the helicity dependence sits in the Clebsch-Gordan factors) -- the statement's first sentence is about
        # helicity coefficients; the canonical side is the "equivalently" clause (canonical_consistency)
        for formalism in ("helicity",):
            for history in NAMING_HISTORIES:
                f = "hel" if formalism == "helicity" else "can"
                tag = f"{name}/{f}/naming=" + ">".join(f"p{int(p)}c{int(c)}" for p, c in history)

                def rep(_m=None, name=name, formalism=formalism, history=history):
                    try:
                        bad = model_level_pairs(name, formalism, history)
                    except Exception as e:  # noqa: BLE001
                        return {"reproduced": True, "input": {"reaction": name, "formalism": formalism, "naming_history": [list(h) for h in history]}, "observed": f"{type(e).__name__}: {e}"[:300]}
                    return {"reproduced": bool(bad), "input": {"reaction": name, "formalism": formalism, "one builder; (insert_parent_helicities, insert_child_helicities) before each formulate()": [list(h) for h in history]},
                            "observed": bad[:2], "expected": "chains sharing a coefficient differ by reversed daughter helicities at nodes N and by the factor prod_N eta"}

                r = rep()
                chk.struct(f"model.chains_sharing_a_coefficient_differ_by_prod_eta[{tag}]", not r["reproduced"], F, witness=r, replay=rep, bounded=True)
