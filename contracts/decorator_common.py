"""Shared machinery of C14 (substitution / equality / folding laws) and C15 (pickle round trip).

1. Introspection: every class of the `ampform` package decorated with `@unevaluated` (dataclass fields that carry
   the `sympify` metadata and a `__new__` installed by the decorator) and every other `sp.Basic` subclass the package
   defines (helpers). Found at run time, so later additions get the same obligations.
2. Sample instances of the real classes for the instance-level (bounded) checks: argument kinds
   {symbol, compound, number, nested instance of another class, nested instance with a non-SymPy attribute}.
3. E3 object model on top of vlib.pyvc: `DecExecutor` (a subclass of Executor with the constructs the decorator's
   functions need: hasattr / isclass / isinstance / getattr / setattr / super() / hash / f-strings / dict views, eager
   evaluation of pure boolean tests, merging of the paths of one loop iteration) and the natives = assumed contracts
   on CPython / SymPy, each listed in `ASSUMED` (the contract files repeat them with chk.assume).

Abstract objects are terms of the uninterpreted sort Obj with predicates
  is_basic(o)   o is an instance of sympy.Basic            is_class(o)   o is a class
  is_dc(o)      o is a dataclass instance                  is_cont(o)    o is a list / tuple / dict
  is_hashable(o)
and specification functions
  XRV(rule, o), XRH(rule, o)   value / hit flag of SymPy's o._xreplace(rule)  (homomorphic extension, assumed contract)
  SUBS(o, old, new)            o._subs(old, new)
  MK_<C>(v1..vn)               the instance of C whose field values are v1..vn
  AST(o)                       the tuple dataclasses.astuple builds recursively from a dataclass instance / container
  SYMPIFY(o)                   sp.sympify(o)
"""

from __future__ import annotations

import ast
import builtins
import dataclasses
import importlib
import inspect
import pkgutil
import warnings
from typing import Any, Callable, Iterator

import sympy as sp
import z3
from sympy.core.basic import _aresame  # noqa: PLC2701
from sympy.tensor.array.expressions.array_expressions import ArraySymbol

import ampform
from ampform.sympy import _decorator as D
from vlib.pyvc import Bound, Closure, Exc, Executor, Obj, Rec, SList, SV, State, Unsupported, _unhash, is_sym, to_z3

DEC = "ampform.sympy._decorator."

# =====================================================================================================
# 1. introspection
# =====================================================================================================
_DISCOVERY: dict[str, Any] = {}


def discover() -> dict[str, Any]:
    """{'decorated': [classes], 'helpers': [classes], 'import_failures': [...]} sorted by qualified name."""
    if _DISCOVERY:
        return _DISCOVERY
    warnings.filterwarnings("ignore")
    failures = []
    mods = [ampform]
    for m in pkgutil.walk_packages(ampform.__path__, "ampform."):
        try:
            mods.append(importlib.import_module(m.name))
        except Exception as e:  # noqa: BLE001
            failures.append(f"{m.name}: {type(e).__name__}: {e}"[:200])
    seen: dict[str, type] = {}
    for mod in mods:
        for obj in list(vars(mod).values()):
            if inspect.isclass(obj) and issubclass(obj, sp.Basic) and (obj.__module__ or "").startswith("ampform"):
                seen[qual(obj)] = obj
    decorated = [c for _, c in sorted(seen.items()) if is_decorated(c)]
    abstract = {"ampform.sympy.NumPyPrintable", "ampform.sympy.deprecated.UnevaluatedExpression"}
    helpers = [c for q, c in sorted(seen.items()) if not is_decorated(c) and q not in abstract]
    _DISCOVERY.update(decorated=decorated, helpers=helpers, import_failures=failures, abstract=[seen[q] for q in sorted(abstract) if q in seen])
    return _DISCOVERY


def qual(c: type) -> str:
    return f"{c.__module__}.{c.__qualname__}"


def is_decorated(c: type) -> bool:
    if not dataclasses.is_dataclass(c) or "__new__" not in c.__dict__:
        return False
    fs = dataclasses.fields(c)
    return all("sympify" in f.metadata for f in fs)


def fields(c: type) -> tuple[dataclasses.Field, ...]:
    return dataclasses.fields(c)


def is_sympy_field(f: dataclasses.Field) -> bool:
    return bool(f.metadata.get("sympify"))


def sympy_fields(c: type):
    return [f for f in fields(c) if is_sympy_field(f)]


def nonsympy_fields(c: type):
    return [f for f in fields(c) if not is_sympy_field(f)]


def real_new_method(c: type):
    """The `new_method` closure that `_implement_new_method` installed as c.__new__ (behind the signature wrapper)."""
    f = c.__dict__["__new__"]
    f = getattr(f, "__func__", f)
    seen = set()
    todo = [f]
    while todo:
        g = todo.pop()
        if id(g) in seen or not inspect.isfunction(g):
            continue
        seen.add(id(g))
        if g.__code__.co_filename == D.__file__ and "evaluate" in g.__code__.co_varnames and g.__code__.co_name != "wrapper":
            return g
        for cell in g.__closure__ or ():
            try:
                todo.append(cell.cell_contents)
            except ValueError:
                pass
    raise Unsupported(f"cannot find the constructor body behind {qual(c)}.__new__")


def get_arguments_function(c: type | None = None):
    """Which function produces the constructor arguments: `c.__getnewargs__` (class attribute) or, without a class,
    the module-level `_get_arguments` used by `_xreplace_method` / `_eval_subs_method`."""
    if c is None:
        return D._get_arguments  # noqa: SLF001
    f = c.__dict__.get("__getnewargs__")
    if f is None:
        f = getattr(c, "__getnewargs__")
    return getattr(f, "__func__", f)


def describe_function(f) -> str:
    mod = getattr(f, "__module__", "?")
    return f"{mod}.{getattr(f, '__qualname__', repr(f))}"


# =====================================================================================================
# 2. sample instances of the real classes
# =====================================================================================================
ARRAY_FIELD_NAMES = {"momentum", "vector", "array"}


def base_symbol(f: dataclasses.Field, tag: str = ""):
    if f.name in ARRAY_FIELD_NAMES:
        return ArraySymbol(f"p_{f.name}{tag}", shape=[])
    return sp.Symbol(f"{f.name}{tag}")


def fresh_like(v, name: str = "xnew"):
    return ArraySymbol(name, shape=[]) if isinstance(v, ArraySymbol) else sp.Symbol(name)


def plain_instance(c: type, tag: str = "", **attrs):
    """c(*symbols) with one fresh symbol per SymPy field; non-SymPy fields at their defaults unless given."""
    args = [base_symbol(f, tag) for f in sympy_fields(c)]
    kw = {}
    for f in nonsympy_fields(c):
        if f.name in attrs:
            kw[f.name] = attrs[f.name]
        elif f.default is dataclasses.MISSING and f.default_factory is dataclasses.MISSING:
            kw[f.name] = None
    return c(*args, **kw)


def nondefault_attrs(c: type) -> dict[str, Any]:
    """A non-default value for every non-SymPy field (a string for None/str defaults, another class for class defaults)."""
    out = {}
    for f in nonsympy_fields(c):
        if inspect.isclass(f.default):
            n = len(sympy_fields(f.default)) if is_decorated(f.default) else None
            alts = [d for d in discover()["decorated"] if d is not f.default and d.__module__ == f.default.__module__
                    and len(sympy_fields(d)) == n and [x.name for x in fields(d)] == [x.name for x in fields(f.default)]]
            out[f.name] = alts[-1] if alts else f.default
        else:
            out[f.name] = f"N_{f.name}"
    return out


def attr_instance(c: type, tag: str = ""):
    return plain_instance(c, tag, **nondefault_attrs(c))


def nested_pool(tier: str) -> list[tuple[str, Any]]:
    """Instances used as *nested* arguments: (label, instance). quick: a representative handful; thorough: one of every
    decorated class, plus one with non-default non-SymPy attributes for every class that has such fields."""
    d = discover()
    out = []
    classes = d["decorated"]
    if tier == "quick":
        wanted = []
        with_attr = [c for c in classes if nonsympy_fields(c)]
        without = [c for c in classes if not nonsympy_fields(c)]
        for group in (with_attr[:1], with_attr[-1:], [c for c in without if "doit" in c.__dict__][:1],
                      [c for c in without if c.__name__ == "ThreeMomentum"], [c for c in without if "doit" not in c.__dict__][:1]):
            for c in group:
                if c not in wanted:
                    wanted.append(c)
        classes = wanted
    for c in classes:
        try:
            out.append((f"nested:{c.__name__}", plain_instance(c, "_n")))
        except Exception:  # noqa: BLE001
            continue
    for c in d["decorated"]:
        if nonsympy_fields(c) and (tier != "quick" or c in classes):
            try:
                out.append((f"nested_attr:{c.__name__}", attr_instance(c, "_n")))
            except Exception:  # noqa: BLE001
                continue
    return out


def argument_kinds(c: type, k: int, tier: str) -> Iterator[tuple[str, Any]]:
    """Values for SymPy field number k of class c: (kind label, value)."""
    f = sympy_fields(c)[k]
    b = base_symbol(f)
    yield "symbol", b
    if isinstance(b, ArraySymbol):
        from ampform.sympy._array_expressions import ArraySum

        yield "compound", ArraySum(b, ArraySymbol("q_other", shape=[]))
    else:
        yield "compound", b**2 + 1
    yield "number", sp.Integer(2)
    for label, inst in nested_pool(tier):
        yield label, inst


def instance_with(c: type, k: int, value, attrs: dict[str, Any] | None = None):
    args = [base_symbol(f) for f in sympy_fields(c)]
    args[k] = value
    kw = dict(attrs or {})
    for f in nonsympy_fields(c):
        if f.name not in kw and f.default is dataclasses.MISSING and f.default_factory is dataclasses.MISSING:
            kw[f.name] = None
    return c(*args, **kw)


def atoms_of(e) -> list[Any]:
    if not isinstance(e, sp.Basic):
        return []
    names = {str(a.name) for a in e.atoms(ArraySymbol)}
    syms = [s for s in e.free_symbols if s.name not in names]
    return sorted(syms, key=str) + sorted(e.atoms(ArraySymbol), key=str)


def rules_for(inst, value) -> list[tuple[str, dict]]:
    """Substitution maps for an instance whose field under test holds `value`: a symbol inside the value -> a fresh
    symbol (for a symbol value this is "a symbol that is also a key of the map"), and a symbol of another field -> a
    fresh symbol (the value under test must come through unchanged). Maps go from symbols to symbols: replacing by a
    compound expression or replacing a compound key is not tree-commutative in SymPy itself (2*(a+1) vs 2*a+2)."""
    out = []
    inner = atoms_of(value)
    if inner:
        key = inner[0]
        out.append(("inner_symbol", {key: fresh_like(key)}))
        if len(inner) > 1:
            out.append(("last_inner_symbol", {inner[-1]: fresh_like(inner[-1])}))
    others = [a for a in atoms_of(inst) if a not in inner]
    if others:
        out.append(("other_field_symbol", {others[0]: fresh_like(others[0])}))
    return out


def canon(e):
    """Rename Dummy symbols in order of appearance (evaluate() of SphericalHankel1 creates a fresh Dummy per call)."""
    if not isinstance(e, sp.Basic):
        return e
    dummies = []
    for node in sp.preorder_traversal(e):
        if isinstance(node, sp.Dummy) and node not in dummies:
            dummies.append(node)
    if not dummies:
        return e
    return e.xreplace({d: sp.Symbol(f"_dummy{i}", **d.assumptions0) for i, d in enumerate(dummies)})


def same_tree(a, b) -> bool:
    a, b = canon(a), canon(b)
    try:
        # ==, srepr AND the non-SymPy attributes of every node (kind and value, described by this harness: `==` on decorated classes
        # is itself code under verification)
        return bool(a == b) and sp.srepr(a) == sp.srepr(b) and describe(a) == describe(b)
    except Exception:  # noqa: BLE001
        return False


def renorm(e):
    """Re-evaluated normal form: every node rebuilt bottom-up through its constructor. Trees that differ only because one
    side still contains `evaluate=False` nodes (chew_mandelstam_s_wave builds them) which xreplace/subs re-evaluate get
    the same normal form. Non-SymPy attributes of decorated classes are carried over."""
    if not isinstance(e, sp.Basic) or not e.args:
        return e
    try:
        args = [renorm(a) for a in e.args]
        if is_decorated(type(e)) and nonsympy_fields(type(e)):
            return type(e)(*args, **{f.name: getattr(e, f.name) for f in nonsympy_fields(type(e))})
        return e.func(*args)
    except Exception:  # noqa: BLE001
        return e


def short(e, n: int = 300) -> str:
    try:
        s = sp.srepr(e) if isinstance(e, sp.Basic) else repr(e)
    except Exception as ex:  # noqa: BLE001
        s = f"<unprintable {type(ex).__name__}>"
    return s[:n]


# ---- independent statement of the substitution laws on real objects (used by instance-level checks and replays) ----
def spec_xreplace(inst, rule: dict):
    """What the property demands of inst.xreplace(rule) for an instance of a decorated class: the instance rebuilt
    from the replaced field values (SymPy fields: their own xreplace; non-SymPy attributes: rule.get)."""
    if inst in rule:
        return rule[inst]
    c = type(inst)
    new, hit = [], False
    for f in fields(c):
        v = getattr(inst, f.name)
        if isinstance(v, sp.Basic):
            w = v.xreplace(rule)
        else:
            try:
                w = rule.get(v, v)
            except TypeError:
                w = v
        hit |= not _same(v, w)
        new.append(w)
    return c(*new) if hit else inst


def spec_subs(inst, old, new_):
    c = type(inst)
    if inst == old:
        return new_
    new, hit = [], False
    for f in fields(c):
        v = getattr(inst, f.name)
        w = v.subs(old, new_) if isinstance(v, sp.Basic) else v
        hit |= not _same(v, w)
        new.append(w)
    return c(*new) if hit else inst


def _same(a, b) -> bool:
    if isinstance(a, sp.Basic) and isinstance(b, sp.Basic):
        return _aresame(a, b)
    return a is b or a == b


# =====================================================================================================
# 3. E3: executor with the constructs of the decorator's functions, natives (assumed contracts)
# =====================================================================================================
ASSUMED = {
    "astuple": "CPython dataclasses.astuple(o) (documented contract): element k = deepcopy(field value k) unless that value is itself a "
               "dataclass instance / list / tuple / dict, in which case it is converted recursively (a nested dataclass instance becomes a "
               "plain tuple AST(v), which is neither a sympy.Basic nor equal to v); smoke-checked against the real astuple on every run",
    "deepcopy": "A-deepcopy: copy.deepcopy is the identity (up to ==) on SymPy objects and on the non-SymPy attributes used (None, str, classes)",
    "fields": "CPython dataclasses.fields / is_dataclass: fields(instance) = fields(type(instance)), in declaration order",
    "basic_attr": "A-basic-attr: an object o has the attributes _xreplace / _eval_subs / _subs and is not a class  iff  o is an instance of "
                  "sympy.Basic (classes derived from Basic have the attributes but are classes; str, None, int, tuples do not); smoke-checked",
    "xreplace": "SymPy Basic._xreplace(rule) returns (XRV(rule,o), XRH(rule,o)), the homomorphic extension of rule with its hit flag "
                "(spec functions; A-pure); Basic._subs(old,new,**hints) returns SUBS(o,old,new)",
    "aresame": "sympy.core.basic._aresame(a, b) holds iff a and b are the same tree (modelled as equality of abstract objects)",
    "mapping": "rule is an arbitrary object: `k in rule`, rule[k], rule.get(k, d) = rule[k] if k in rule else d, bool(rule), "
               "isinstance(rule, Mapping) are uninterpreted but mutually consistent (A-pure)",
    "sympify": "sp.sympify(v) returns SYMPIFY(v) or raises SympifyError; it is idempotent (its output is sympifiable and a fixed point), the identity "
               "on instances of Basic and never raises on them (None passes through unchanged); smoke-checked",
    "basic_new": "sympy Basic.__new__(cls, *args) returns a fresh instance of cls with _args = args (no evaluation); smoke-checked",
    "basic_hashable": "sympy Basic._hashable_content(self) = self._args; Basic.__eq__: same type and equal _hashable_content() "
                      "(up to the Number-type check); hash = hash((type name, _hashable_content())); smoke-checked",
    "hash": "hash(o) raises TypeError iff o is unhashable (predicate is_hashable), otherwise returns an int",
    "instance": "class invariant of instances built by the decorator's constructor: attribute <field> holds the field value (for SymPy fields a fixed point of sympify) and "
                "_args is the tuple of the SymPy-field values in declaration order (this is the postcondition proved for new_method in C14 O4/new_method.*)",
}

# what leaves the E3 subset (reported as a refuted *lemma* with a property-level replay, never as a violation or a checker error)
E3_ERRORS = (Unsupported, AttributeError, TypeError, KeyError, IndexError, ValueError, NotImplementedError, RecursionError, z3.Z3Exception)


class DecExecutor(Executor):
    """pyvc Executor + the constructs used by ampform.sympy._decorator."""

    PURE_TESTS = {"hasattr", "isclass", "isinstance", "callable", "_is_sympify"}

    def __init__(self, name: str = ""):
        super().__init__(name)
        self.merge_loops = True
        self.merged = 0
        self.used: set[str] = set()  # keys of ASSUMED that were exercised
        self.attr_sorts.update({"is_Mul": "bool", "is_Number": "bool"})
        install_natives(self)

    # ---- predicates / spec functions --------------------------------------------------------------
    def pred(self, name: str, t):
        return self.func(name, "obj", "bool")(t)

    def fn(self, name: str, *ts):
        return self.func(name, *(["obj"] * (len(ts) + 1)))(*ts)

    def mk(self, cls: type, vals: list) -> Any:
        if not vals:
            return z3.Const(f"MK_{cls.__name__}", Obj)
        return self.func(f"MK_{cls.__name__}", *(["obj"] * (len(vals) + 1)))(*[self.as_obj(v) for v in vals])

    # ---- source of closures that carry a misleading __wrapped__ (functools.wraps(cls.__new__/cls.doit)) ----
    def source_of(self, func):
        if isinstance(func, Closure):
            return super().source_of(func)
        code = getattr(func, "__code__", None)
        if code is None:
            raise Unsupported(f"no Python source for {func!r}")
        import textwrap

        src = textwrap.dedent(inspect.getsource(code))
        tree = ast.parse(src).body[0]
        if code.co_name == "<lambda>":
            lambdas = [n for n in ast.walk(tree) if isinstance(n, ast.Lambda)]
            if len(lambdas) != 1:
                raise Unsupported(f"cannot locate the lambda {func.__qualname__} in its source line")
            tree = lambdas[0]
        elif not isinstance(tree, (ast.FunctionDef, ast.AsyncFunctionDef)):
            raise Unsupported(f"source of {func.__qualname__} is not a function definition")
        return tree, func.__globals__, func.__qualname__

    # ---- objects -------------------------------------------------------------------------------------
    def as_obj(self, v):
        if isinstance(v, Rec) and "__obj__" in v.attrs:
            return v.attrs["__obj__"]
        if isinstance(v, (tuple, list)) and not v:
            return z3.Const("empty_seq", Obj)
        return super().as_obj(v)

    def as_bool(self, v):
        if isinstance(v, Rec):
            return z3.BoolVal(True)
        return super().as_bool(v)

    def concrete_seq(self, v, st):
        if isinstance(v, (type({}.items()), type({}.keys()), type({}.values()))):
            out = []
            for x in v:
                if isinstance(x, tuple) and len(x) == 2 and isinstance(v, type({}.items())):
                    out.append((_unhash(x[0]), x[1]))
                else:
                    out.append(_unhash(x))
            return out
        return super().concrete_seq(v, st)

    def contains(self, cont, item, st):
        if isinstance(cont, SV) and cont.sort == "obj":
            self.used.add("mapping")
            yield st, SV(self.func("mapin", "obj", "obj", "bool")(cont.t, self.as_obj(item)), "bool")
            return
        yield from super().contains(cont, item, st)

    def equal(self, a, b):
        if isinstance(a, Rec) or isinstance(b, Rec):
            return SV(self.as_obj(a) == self.as_obj(b), "bool")
        return super().equal(a, b)

    def identical(self, a, b):
        if isinstance(a, Rec) or isinstance(b, Rec):
            if isinstance(a, Rec) and isinstance(b, Rec):
                return a is b
            if not is_sym(a) and not is_sym(b):
                return False
            return SV(self.as_obj(a) == self.as_obj(b), "bool")
        return super().identical(a, b)

    # ---- expressions: f-strings, eager pure boolean tests ---------------------------------------------
    def ev(self, n, st, frame):
        if isinstance(n, ast.JoinedStr):
            yield from self._fstring(n, st, frame)
            return
        if isinstance(n, (ast.ListComp, ast.GeneratorExp, ast.SetComp, ast.DictComp)):
            for st2, v in super().ev(n, st, frame):
                exc = _first_exc(v)
                yield st2, (exc if exc is not None else v)
            return
        yield from super().ev(n, st, frame)

    def _fstring(self, n: ast.JoinedStr, st, frame):
        exprs = [v for v in n.values if isinstance(v, ast.FormattedValue)]
        plain = all(v.conversion == -1 and v.format_spec is None for v in exprs)
        for st2, vals in self.ev_list([v.value for v in exprs], st, frame):
            if isinstance(vals, Exc):
                yield st2, vals
                continue
            template = "".join("{}" if isinstance(v, ast.FormattedValue) else str(v.value).replace("{", "{{").replace("}", "}}") for v in n.values)
            if plain and not any(is_sym(x) or isinstance(x, (Rec, Closure, Bound)) for x in vals):
                try:
                    yield st2, template.format(*vals)
                    continue
                except Exception:  # noqa: BLE001
                    pass
            if not plain or not vals:
                yield st2, "<f-string>"
                continue
            f = self.func(f"fstr<{template}>", *(["obj"] * (len(vals) + 1)))
            yield st2, SV(f(*[self.as_obj(x) for x in vals]), "obj")

    def _is_pure_test(self, node) -> bool:
        if isinstance(node, ast.UnaryOp) and isinstance(node.op, ast.Not):
            return self._is_pure_test(node.operand)
        return isinstance(node, ast.Call) and isinstance(node.func, ast.Name) and node.func.id in self.PURE_TESTS and not node.keywords

    def _boolop(self, n: ast.BoolOp, i, st, frame):
        if i == 0 and all(self._is_pure_test(v) for v in n.values):
            vals = []
            ok = True
            for v in n.values:
                outs = list(self.ev(v, st, frame))
                if len(outs) != 1 or isinstance(outs[0][1], Exc) or outs[0][0] is not st:
                    ok = False
                    break
                vals.append(outs[0][1])
            if ok:
                if not any(is_sym(v) for v in vals):
                    yield st, (all(vals) if isinstance(n.op, ast.And) else any(vals))
                else:
                    bs = [self.as_bool(v) for v in vals]
                    yield st, SV(z3.And(*bs) if isinstance(n.op, ast.And) else z3.Or(*bs), "bool")
                return
        yield from super()._boolop(n, i, st, frame)

    # ---- comprehensions: an exception raised by the element expression ends the comprehension ---------------
    def _comp_ifs(self, gens, gi, items, i, ifs, k, elt_fn, st, frame, acc):
        if k >= len(ifs):
            for st2, vals in self._comp(gens, gi + 1, elt_fn, st, frame):
                if any(_is_exc(v) for v in vals):
                    yield st2, acc + vals
                else:
                    yield from self._comp_items(gens, gi, items, i + 1, elt_fn, st2, frame, acc + vals)
            return
        yield from super()._comp_ifs(gens, gi, items, i, ifs, k, elt_fn, st, frame, acc)

    # ---- calls: builtins on abstract objects -------------------------------------------------------------
    def apply(self, f, args, kwargs, st, src_name=""):
        if f is builtins.super:
            if len(args) == 2 and isinstance(args[1], Rec):
                yield st, Rec("super", {"__self__": args[1], "__after__": args[0]})
                return
            raise Unsupported("super() without explicit arguments")
        if f is builtins.getattr and args and isinstance(args[0], (Rec, SV)):
            o, name = args[0], args[1]
            if isinstance(o, Rec) and name not in o.attrs and len(args) == 3 and not (o.real_class is not None and hasattr(o.real_class, name)):
                yield st, args[2]
                return
            yield st, self.getattr(o, name, st)
            return
        if f is builtins.setattr and args and isinstance(args[0], Rec):
            if is_sym(args[1]):
                raise Unsupported("setattr with a symbolic name")
            args[0].attrs[args[1]] = args[2]
            yield st, None
            return
        if f is builtins.hasattr and args and isinstance(args[0], (Rec, SV)):
            o, name = args[0], args[1]
            if isinstance(o, Rec):
                yield st, bool(name in o.attrs or (o.real_class is not None and hasattr(o.real_class, name)))
                return
            if o.sort != "obj":
                yield st, False
                return
            self.used.add("basic_attr")
            t = self.pred(f"has_{name}", o.t)
            if name in {"_xreplace", "_eval_subs", "_subs"}:
                # A-basic-attr, instantiated at this term
                self.assume(st, t == z3.Or(self.pred("is_basic", o.t), z3.And(self.pred("is_class", o.t), self.pred("is_basic_subclass", o.t))))
                self.assume(st, z3.Implies(self.pred("is_basic", o.t), z3.Not(self.pred("is_class", o.t))))
            yield st, SV(t, "bool")
            return
        if f is builtins.isinstance and args and isinstance(args[0], (Rec, SV)):
            o, klass = args
            if isinstance(o, Rec):
                yield st, bool(o.real_class is not None and isinstance(klass, (type, tuple)) and issubclass(o.real_class, klass))
                return
            if o.sort != "obj":
                raise Unsupported("isinstance of a number")
            nm = getattr(klass, "__name__", str(klass))
            yield st, SV(self.pred(f"isinstance_{nm}", o.t), "bool")
            return
        if f is builtins.hash and args and isinstance(args[0], SV):
            self.used.add("hash")
            c = self.pred("is_hashable", args[0].t)
            for st2, b in self.truth(st, SV(c, "bool")):
                if b:
                    yield st2, SV(self.func("hash", "obj", "int")(args[0].t), "int")
                else:
                    yield st2, Exc("TypeError", ("unhashable",))
            return
        if f is builtins.str and len(args) == 1 and isinstance(args[0], SV):
            yield st, SV(self.fn("STR", self.as_obj(args[0])), "obj")
            return
        if f is builtins.type and len(args) == 1 and isinstance(args[0], Rec) and args[0].real_class is not None:
            yield st, args[0].real_class
            return
        yield from super().apply(f, args, kwargs, st, src_name)

    def getattr(self, o, attr, st):
        if isinstance(o, Rec) and o.cls_name == "super":
            h = self.natives.get(f"super.{attr}")
            if h is None:
                raise Unsupported(f"super().{attr} has no assumed contract")
            return Bound(h, o)
        return super().getattr(o, attr, st)

    # ---- loops: merge the paths of one iteration ------------------------------------------------------------
    def _for_items(self, n, items, i, st, frame):
        if not self.merge_loops or i >= len(items):
            yield from super()._for_items(n, items, i, st, frame)
            return
        base = len(st.pc)
        outs = []
        for st2 in self._assign(n.target, items[i], st, frame):
            for st3, kind, val in self.block(n.body, st2, frame):
                outs.append((st3, kind, val))
        cont = [o for o in outs if o[1] in {"next", "continue"}]
        rest = [o for o in outs if o[1] not in {"next", "continue"}]
        if len(cont) > 1:
            m = merge_states(self, [o[0] for o in cont], base)
            if m is not None:
                self.merged += len(cont) - 1
                cont = [(m, "next", None)]
        for st3, _, _ in cont:
            yield from self._for_items(n, items, i + 1, st3, frame)
        for st3, kind, val in rest:
            if kind == "break":
                yield st3, "next", None
            else:
                yield st3, kind, val


def _is_exc(v) -> bool:
    return isinstance(v, Exc) or (isinstance(v, tuple) and any(isinstance(x, Exc) for x in v))


def _first_exc(v):
    seq = list(v.values()) if isinstance(v, dict) else (list(v) if isinstance(v, (list, tuple)) else [])
    for x in seq:
        if isinstance(x, Exc):
            return x
        if isinstance(x, tuple):
            for y in x:
                if isinstance(y, Exc):
                    return y
    return None


def merge_states(ex: DecExecutor, states: list[State], base: int) -> State | None:
    """Join of path states that share the first `base` path-condition entries: variables become ite-terms over the
    (mutually exclusive) extra conditions. Returns None when some variable cannot be merged."""
    conds = []
    for s in states:
        if len(s.pc) < base or any(a is not b for a, b in zip(s.pc[:base], states[0].pc[:base])):
            return None
        extra = s.pc[base:]
        conds.append(z3.And(*extra) if extra else z3.BoolVal(True))
    # a name bound on some paths only (e.g. a temporary assigned after a `continue`) is dropped: reading it later
    # would raise Unsupported("unbound name"), never a wrong answer
    names = [nm for nm in states[0].env if all(nm in s.env for s in states[1:])]
    out = states[0]
    new_env = {}
    memo: dict[tuple, Any] = {}
    try:
        for nm in names:
            new_env[nm] = _merge_vals(ex, conds, [s.env[nm] for s in states], memo)
    except _NoMerge:
        return None
    out.env.clear()
    out.env.update(new_env)
    out.pc = list(out.pc[:base]) + [z3.Or(*conds)]
    return out


class _NoMerge(Exception):
    pass


def _merge_vals(ex: DecExecutor, conds, vals, memo):
    v0 = vals[0]
    if all(v is v0 for v in vals):
        return v0
    key = tuple(id(v) for v in vals)
    if key in memo:
        return memo[key]
    if all(isinstance(v, Rec) for v in vals):
        if any(v.cls_name != v0.cls_name or set(v.attrs) != set(v0.attrs) for v in vals):
            raise _NoMerge
        out = v0
        memo[key] = out
        for a in list(v0.attrs):
            out.attrs[a] = _merge_vals(ex, conds, [v.attrs[a] for v in vals], memo)
        return out
    if all(isinstance(v, list) for v in vals) or all(isinstance(v, tuple) for v in vals):
        if any(len(v) != len(v0) for v in vals):
            raise _NoMerge
        items = [_merge_vals(ex, conds, [v[k] for v in vals], memo) for k in range(len(v0))]
        if isinstance(v0, list):
            v0[:] = items
            memo[key] = v0
            return v0
        return tuple(items)
    if all(isinstance(v, dict) for v in vals):
        if any(list(v) != list(v0) for v in vals):
            raise _NoMerge
        for k in list(v0):
            v0[k] = _merge_vals(ex, conds, [v[k] for v in vals], memo)
        memo[key] = v0
        return v0
    if any(isinstance(v, (Rec, list, tuple, dict, SList, Closure, Bound)) for v in vals):
        raise _NoMerge
    if not any(is_sym(v) for v in vals):
        try:
            if all(type(v) is type(v0) and v == v0 for v in vals):
                return v0
        except Exception:  # noqa: BLE001
            pass
    sorts = set()
    for v in vals:
        if isinstance(v, SV):
            sorts.add(v.sort)
        elif isinstance(v, bool):
            sorts.add("bool")
        elif isinstance(v, int):
            sorts.add("int")
        else:
            sorts.add("obj")
    if len(sorts) != 1:
        sort = "obj"
        terms = [ex.as_obj(v) for v in vals]
    else:
        sort = sorts.pop()
        terms = [ex.as_obj(v) if sort == "obj" else to_z3(v) for v in vals]
    t = terms[-1]
    for c, x in zip(reversed(conds[:-1]), reversed(terms[:-1])):
        t = z3.If(c, x, t)
    return SV(t, sort)


# ---- natives ------------------------------------------------------------------------------------------------
def install_natives(ex: DecExecutor) -> None:
    no = ex.native_objs
    no[id(inspect.isclass)] = n_isclass
    no[id(dataclasses.is_dataclass)] = n_is_dataclass
    no[id(dataclasses.fields)] = n_fields
    no[id(dataclasses.astuple)] = n_astuple
    no[id(sp.sympify)] = n_sympify
    no[id(sp.Basic.__new__)] = n_basic_new
    no[id(_aresame)] = n_aresame
    ex.natives["obj._xreplace"] = n_obj_xreplace
    ex.natives["obj._subs"] = n_obj_subs
    ex.natives["obj.get"] = n_obj_get
    ex.natives["obj.doit"] = n_obj_doit
    ex.natives["super._hashable_content"] = n_super_hashable_content
    ex.natives["Inst.func"] = n_inst_func
    ex.natives["Inst.evaluate"] = n_inst_evaluate


def n_isclass(ex, st, args, kwargs):
    (o,) = args
    if isinstance(o, SV):
        yield st, (SV(ex.pred("is_class", o.t), "bool") if o.sort == "obj" else False)
    elif isinstance(o, Rec):
        yield st, False
    else:
        yield st, inspect.isclass(o)


def n_is_dataclass(ex, st, args, kwargs):
    (o,) = args
    ex.used.add("fields")
    if isinstance(o, Rec):
        yield st, bool(o.real_class is not None and dataclasses.is_dataclass(o.real_class))
    elif isinstance(o, SV):
        yield st, SV(ex.pred("is_dc", o.t), "bool")
    else:
        yield st, dataclasses.is_dataclass(o)


def n_fields(ex, st, args, kwargs):
    (o,) = args
    ex.used.add("fields")
    if isinstance(o, Rec):
        if o.real_class is None or not dataclasses.is_dataclass(o.real_class):
            yield st, Exc("TypeError", ("must be called with a dataclass type or instance",))
        else:
            yield st, dataclasses.fields(o.real_class)
    elif isinstance(o, SV):
        raise Unsupported("dataclasses.fields of an abstract object")
    else:
        try:
            yield st, dataclasses.fields(o)
        except TypeError as e:
            yield st, Exc("TypeError", e.args)


def recursed(ex, t):
    """astuple converts this value instead of copying it."""
    return z3.Or(ex.pred("is_dc", t), ex.pred("is_cont", t))


def n_astuple(ex, st, args, kwargs):
    """ASSUMED['astuple'] + ASSUMED['deepcopy']."""
    (o,) = args
    ex.used.update({"astuple", "deepcopy"})
    if not isinstance(o, Rec) or o.real_class is None or not dataclasses.is_dataclass(o.real_class):
        raise Unsupported("astuple of something that is not an abstract dataclass instance")
    out = []
    for f in dataclasses.fields(o.real_class):
        v = o.attrs[f.name]
        t = ex.as_obj(v)
        conv = ex.fn("AST", t)
        ex.assume(st, z3.Not(ex.pred("is_basic", conv)))
        ex.assume(st, z3.Not(ex.pred("is_class", conv)))
        ex.assume(st, conv != t)
        out.append(SV(z3.If(recursed(ex, t), conv, t), "obj"))
    yield st, tuple(out)


def n_sympify(ex, st, args, kwargs):
    (v,) = args
    ex.used.add("sympify")
    if not isinstance(v, SV):
        try:
            yield st, sp.sympify(v)
        except Exception as e:  # noqa: BLE001
            yield st, Exc(type(e).__name__, e.args)
        return
    t = ex.as_obj(v)
    ok = ex.pred("sympifiable", t)
    r = ex.fn("SYMPIFY", t)
    ex.assume(st, z3.Implies(ex.pred("is_basic", t), z3.And(ok, r == t)))
    for st2, b in ex.truth(st, SV(ok, "bool")):
        if not b:
            yield st2, Exc("SympifyError", ())
            continue
        ex.assume(st2, z3.And(ex.pred("sympifiable", r), ex.fn("SYMPIFY", r) == r))  # idempotent
        yield st2, SV(r, "obj")


def n_basic_new(ex, st, args, kwargs):
    ex.used.add("basic_new")
    cls, rest = args[0], tuple(args[1:])
    if kwargs:
        yield st, Exc("TypeError", ("Basic.__new__() got an unexpected keyword argument",))
        return
    if not inspect.isclass(cls):
        raise Unsupported("Basic.__new__ with an abstract class")
    ex.fresh_n += 1
    yield st, Rec("Inst", {"_args": rest, "args": rest, "__obj__": z3.Const(f"new!{cls.__name__}!{ex.fresh_n}", Obj)}, real_class=cls)


def n_aresame(ex, st, args, kwargs):
    a, b = args
    ex.used.add("aresame")
    yield st, SV(ex.as_obj(a) == ex.as_obj(b), "bool")


def n_obj_xreplace(ex, st, args, kwargs):
    o, rule = args
    ex.used.add("xreplace")
    yield st, (SV(ex.fn("XRV", ex.as_obj(rule), o.t), "obj"), SV(ex.func("XRH", "obj", "obj", "bool")(ex.as_obj(rule), o.t), "bool"))


def n_obj_subs(ex, st, args, kwargs):
    o, old, new = args[:3]
    ex.used.add("xreplace")
    yield st, SV(ex.fn("SUBS", o.t, ex.as_obj(old), ex.as_obj(new)), "obj")


def n_obj_get(ex, st, args, kwargs):
    o, key = args[0], args[1]
    default = args[2] if len(args) > 2 else None
    ex.used.add("mapping")
    k = ex.as_obj(key)
    inn = ex.func("mapin", "obj", "obj", "bool")(o.t, k)
    yield st, SV(z3.If(inn, ex.func("getitem", "obj", "obj", "obj")(o.t, k), ex.as_obj(default)), "obj")


def n_obj_doit(ex, st, args, kwargs):
    yield st, SV(ex.fn("DOIT", args[0].t), "obj")


def n_super_hashable_content(ex, st, args, kwargs):
    sup = args[0]
    ex.used.add("basic_hashable")
    yield st, tuple(sup.attrs["__self__"].attrs["_args"])


def n_inst_func(ex, st, args, kwargs):
    """self.func(*args) = type(self)(*args): the constructor, abstracted as MK_<C> (its body is under contract in O4)."""
    self_, rest = args[0], list(args[1:])
    if kwargs:
        raise Unsupported("self.func with keyword arguments")
    yield st, SV(ex.mk(self_.real_class, rest), "obj")


def n_inst_evaluate(ex, st, args, kwargs):
    yield st, SV(ex.fn("EVALUATE", ex.as_obj(args[0])), "obj")


# ---- abstract instances ---------------------------------------------------------------------------------------
def abstract_instance(ex: DecExecutor, c: type, tag: str = "x") -> tuple[Rec, dict[str, SV], list[Any]]:
    """An arbitrary instance of c satisfying the class invariant ASSUMED['instance']: returns (record, field values,
    hypotheses). SymPy-field values are outputs of sympify (fixed points of it: instances of Basic, or None which sympify
    passes through); nothing else is known about them, in particular they may themselves be dataclass instances
    (nested unevaluated expressions). Values of the other fields are arbitrary objects."""
    fv: dict[str, SV] = {}
    hyps = []
    for f in fields(c):
        t = z3.Const(f"{tag}.{f.name}", Obj)
        fv[f.name] = SV(t, "obj")
        if is_sympy_field(f):
            # the value went through sp.sympify in the constructor: it is a fixed point of sympify
            hyps.append(ex.pred("sympifiable", t))
            hyps.append(ex.fn("SYMPIFY", t) == t)
    args = tuple(fv[f.name] for f in sympy_fields(c))
    rec = Rec("Inst", {**fv, "_args": args, "args": args, "__obj__": z3.Const(f"{tag}!self", Obj)}, real_class=c)
    return rec, fv, hyps


def run_paths(ex: DecExecutor, func, args, kwargs=None, hyps=()):
    st = State()
    st.pc += list(hyps)
    return ex.run(func, list(args), dict(kwargs or {}), st=st)


def conj(xs):
    xs = list(xs)
    return z3.And(*xs) if xs else z3.BoolVal(True)


# ---- smoke checks of the assumed contracts against the real dependencies -----------------------------------------------
def smoke_checks() -> list[tuple[str, bool, str]]:
    """(name, ok, detail) for every assumed contract that can be observed on the real dependency."""
    out = []
    d = discover()
    s, m1, m2 = sp.symbols("s m1 m2")

    @dataclasses.dataclass
    class Inner:
        a: Any
        b: Any

    @dataclasses.dataclass
    class Outer:
        x: Any
        y: Any
        z: Any
        w: Any

    o = Outer(s, Inner(m1, None), [m2, 1], "txt")
    t = dataclasses.astuple(o)
    ok = t[0] == s and t[1] == (m1, None) and isinstance(t[1], tuple) and t[2] == [m2, 1] and t[3] == "txt"
    out.append(("astuple.recursion_contract", ok, repr(t)))
    # element k = field value for non-dataclass, non-container values (deepcopy identity up to ==)
    import copy

    vals = [s, s + m1**2, sp.Integer(2), None, "name", sp.Symbol]
    out.append(("deepcopy.identity_on_used_values", all(copy.deepcopy(v) == v for v in vals), ""))
    bad = []
    for c in d["decorated"]:
        try:
            x = plain_instance(c)
        except Exception as e:  # noqa: BLE001
            bad.append(f"{c.__name__}: not constructible {e}")
            continue
        if dataclasses.fields(x) != dataclasses.fields(c) or not dataclasses.is_dataclass(x):
            bad.append(c.__name__)
    out.append(("fields.instance_equals_class", not bad, "; ".join(bad)[:300]))
    # A-basic-attr
    samples_basic = [s, s + 1, sp.Integer(1), sp.Tuple(s)] + [plain_instance(c) for c in d["decorated"][:6]]
    samples_non = [None, "q", 1, 1.5, (s, m1), [s], {"a": 1}, object()]
    samples_cls = [sp.Symbol, d["decorated"][0], int, type(None)]
    ok = all(all(hasattr(v, a) for a in ("_xreplace", "_eval_subs", "_subs")) and not inspect.isclass(v) for v in samples_basic)
    ok &= all(not any(hasattr(v, a) for a in ("_xreplace", "_eval_subs", "_subs")) for v in samples_non)
    ok &= all(inspect.isclass(v) for v in samples_cls)
    out.append(("basic_attr.characterises_basic_instances", ok, ""))
    # Basic.__new__, _hashable_content, __eq__, hash
    b = sp.Basic.__new__(sp.Basic, s, m1)
    out.append(("basic_new.args", b.args == (s, m1) and b._args == (s, m1) and type(b) is sp.Basic, repr(b)))  # noqa: SLF001
    out.append(("basic_hashable.content_is_args", sp.Basic._hashable_content(b) == (s, m1), ""))  # noqa: SLF001
    src = inspect.getsource(sp.Basic.__eq__)
    out.append(("basic_eq.uses_hashable_content", "_hashable_content()" in src and "type(self) != type(other)" in src, ""))
    out.append(("basic_hash.uses_hashable_content", "_hashable_content()" in inspect.getsource(sp.Basic.__hash__), ""))
    out.append(("sympify.identity_on_basic", all(sp.sympify(v) is v for v in samples_basic), ""))
    raw = [None, 1, 1.5, "x + 1", True, (1, s), [s, 2], s]
    out.append(("sympify.idempotent", all(sp.sympify(sp.sympify(v)) == sp.sympify(v) for v in raw) and sp.sympify(None) is None, ""))
    out.append(("basic_xreplace.is_homomorphic_on_sympy_nodes", (s + m1 * m2).xreplace({m1: s}) == s + s * m2
                and sp.Basic._xreplace(s + m1, {m2: s}) == (s + m1, False), ""))  # noqa: SLF001
    out.append(("aresame.is_tree_identity", _aresame(s + 1, s + 1) and not _aresame(sp.Integer(1), sp.Float(1.0)) and not _aresame(s, m1), ""))
    try:
        hash([1])
        unh = False
    except TypeError:
        unh = True
    out.append(("hash.typeerror_iff_unhashable", unh and isinstance(hash("a"), int), ""))
    return out


# =====================================================================================================
# 4. shared by c14 / c15: executors, counter-model concretisation, helper-class instances
# =====================================================================================================
def flag(c: type, f: dataclasses.Field) -> str:
    return f"{c.__name__}.{f.name}.is_dataclass_instance"


@dataclasses.dataclass(frozen=True)
class Tag:
    """A hashable non-SymPy dataclass instance (concretises `is_dc(attribute)` in a counter-model)."""

    label: str


def concretise(c: type, model: dict[str, Any]):
    """Real instance of c for an abstract counter-model: a field whose value is a dataclass instance in the model gets a
    nested unevaluated expression (SymPy field) or a dataclass object (other attribute); the others get plain symbols."""
    nested = sorted((inst for _, inst in nested_pool("quick")), key=lambda i: (not nonsympy_fields(type(i)), len(fields(type(i)))))
    args, kw, inner = [], {}, []
    for f in fields(c):
        dc = bool(model.get(flag(c, f), False))
        if is_sympy_field(f):
            if dc:
                v = next((x for x in nested if type(x) is not c), nested[0])
                inner.append(atoms_of(v)[0])
            else:
                v = base_symbol(f)
            args.append(v)
        elif dc:
            kw[f.name] = Tag("t")
        elif f.default is dataclasses.MISSING:
            kw[f.name] = None
    inst = c(*args, **kw)
    keys = inner or atoms_of(inst)[:1]
    others = [a for a in atoms_of(inst) if a not in keys]
    return inst, keys, others


def new_executor(tag: str) -> DecExecutor:
    ex = DecExecutor(tag)
    from vlib import pynatives as N  # noqa: PLC0415

    N.install_basic(ex)
    ex.inline |= {D._extract_field_values, D._safe_sympify, D._get_hashable_object}  # noqa: SLF001
    ga = get_arguments_function()
    if ga is not dataclasses.astuple and inspect.isfunction(ga) and (ga.__module__ or "").startswith("ampform"):
        ex.inline.add(ga)
    return ex


def note_assumptions(chk, ex: DecExecutor) -> None:
    for key in sorted(ex.used | {"instance"}):
        chk.assume(f"native/assumed contract [{key}]: {ASSUMED[key]}")


def flag_defs(ex, c, fv):
    return [z3.Bool(flag(c, f)) == ex.pred("is_dc", fv[f.name].t) for f in fields(c)]


def helper_instances() -> list[tuple[str, Any]]:
    """Instances of the non-decorated helper classes (array / sum helpers) for the rebuild and folding laws."""
    from sympy.tensor.array.expressions.array_expressions import ArraySymbol

    from ampform.dynamics.form_factor import _SymbolicSum  # noqa: PLC2701
    from ampform.sympy import PoolSum, UnevaluatableIntegral
    from ampform.sympy._array_expressions import ArrayAxisSum, ArrayElement, ArrayMultiplication, ArraySlice, ArraySum, MatrixMultiplication
    from ampform.sympy.math import ComplexSqrt

    p, q = ArraySymbol("p", shape=[]), ArraySymbol("q", shape=[])
    A = ArraySymbol("A", shape=(3, 4))
    i, j, x, y, n = sp.symbols("i j x y n")
    d = discover()["decorated"]
    boost = next((c for c in d if c.__name__ == "BoostMatrix"), None)
    mink = next((c for c in d if c.__name__ == "MinkowskiMetric"), None)
    out = [
        ("PoolSum", PoolSum(x**i + j * y, (i, (0, 1, 2)), (j, (sp.Rational(1, 2), -sp.Rational(1, 2))))),
        ("PoolSum(nested)", PoolSum(PoolSum(x**i * y**j, (i, (1, 2))), (j, (0, 1)))),
        ("ArraySlice", ArraySlice(p, (slice(None), 0))),
        ("ArraySlice(range)", ArraySlice(A, (slice(0, 2), slice(1, None)))),
        ("ArraySlice(negative)", ArraySlice(A, (-1, slice(None, None, 2)))),
        ("ArrayElement", ArrayElement(A, (1, 2))),
        ("ArrayElement(negative)", ArrayElement(A, (-1, -2))),
        ("ArrayAxisSum", ArrayAxisSum(p**2, axis=1)),
        ("ArrayAxisSum(None)", ArrayAxisSum(p)),
        ("ArraySum", ArraySum(p, q)),
        ("ComplexSqrt", ComplexSqrt(x**2 - y)),
        ("UnevaluatableIntegral", UnevaluatableIntegral(x**2 * y, (x, 0, n))),
        ("_SymbolicSum", _SymbolicSum(x**i, (i, 0, n))),
    ]
    if mink is not None:
        out.append(("ArrayMultiplication", ArrayMultiplication(mink(p), q)))
        out.append(("MatrixMultiplication", MatrixMultiplication(mink(p), mink(q))))
    if boost is not None:
        out.append(("ArrayMultiplication(boost)", ArrayMultiplication(boost(p), q)))
    return out




# =====================================================================================================
# 5. pickle round trips (C15): description of objects, same-process and fresh-process loads, zoo models
# =====================================================================================================
with warnings.catch_warnings():
    warnings.simplefilter("ignore")
    from ampform.sympy.deprecated import UnevaluatedExpression, create_expression

    class LegacyExpr(UnevaluatedExpression):
        """Deprecated-style expression class with the optional `name` attribute (pickled via __getnewargs_ex__)."""

        def __new__(cls, x, y, name=None, **hints):
            with warnings.catch_warnings():
                warnings.simplefilter("ignore")
                return create_expression(cls, x, y, name=name, **hints)

        def evaluate(self):
            x, y = self.args
            return x**2 + y


def attr_fingerprint(v) -> str:
    """Kind and value of a non-SymPy attribute, independent of the process (no addresses) and of the code under verification."""
    import inspect as _inspect

    if v is None:
        return "None"
    if _inspect.isclass(v):
        return f"<class {v.__module__}.{v.__qualname__}>"
    if _inspect.isfunction(v) or _inspect.ismethod(v) or _inspect.isbuiltin(v):
        return f"<function {getattr(v, '__module__', '?')}.{getattr(v, '__qualname__', '?')}>"
    if isinstance(v, (str, int, float, bool, bytes)):
        return f"{type(v).__name__}:{v!r}"
    if isinstance(v, (list, tuple)):
        return f"{type(v).__name__}[" + ",".join(attr_fingerprint(x) for x in v) + "]"
    if isinstance(v, dict):
        return "dict{" + ",".join(f"{attr_fingerprint(k)}:{attr_fingerprint(x)}" for k, x in v.items()) + "}"
    if isinstance(v, sp.Basic):
        return "sympy:" + sp.srepr(v)
    return f"{type(v).__module__}.{type(v).__qualname__}:{v!r}"[:200]


def describe(obj) -> Any:
    """Process-independent description used to compare an object with its unpickled copy (srepr of every SymPy part,
    order of every mapping)."""
    if isinstance(obj, sp.Basic):
        extra = ""
        # every node of the tree that carries non-SymPy attributes, in preorder: kind AND value of each attribute, described by this
        # harness (not by the repository's own hashing helper, which identifies a class with its qualified name as a string)
        try:
            nodes = list(sp.preorder_traversal(obj))
        except Exception:  # noqa: BLE001
            nodes = [obj]
        for node in nodes:
            if is_decorated(type(node)) and nonsympy_fields(type(node)):
                extra += f"|{type(node).__name__}(" + ",".join(f"{f.name}={attr_fingerprint(getattr(node, f.name, '<missing>'))}" for f in nonsympy_fields(type(node))) + ")"
            elif node is obj and hasattr(obj, "_name"):
                extra += f"|_name={obj._name!r}"  # noqa: SLF001
        return sp.srepr(obj) + extra
    if type(obj).__name__ == "HelicityModel":
        return {
            "intensity": describe(obj.intensity),
            "amplitudes": [(describe(k), describe(v)) for k, v in obj.amplitudes.items()],
            "parameter_defaults": [(describe(k), repr(v)) for k, v in obj.parameter_defaults.items()],
            "kinematic_variables": [(describe(k), describe(v)) for k, v in obj.kinematic_variables.items()],
            "components": [(k, describe(v)) for k, v in obj.components.items()],
        }
    if isinstance(obj, (list, tuple)):
        return [describe(x) for x in obj]
    return repr(obj)


MODEL_ATTRS = ("intensity", "amplitudes", "parameter_defaults", "kinematic_variables", "components", "reaction_info")


def compare(orig, loaded) -> list[str]:
    """Names of the parts in which the loaded object differs from the original (== and description)."""
    bad = []
    if type(orig).__name__ == "HelicityModel":
        for a in MODEL_ATTRS:
            x, y = getattr(orig, a), getattr(loaded, a, None)
            try:
                same = bool(x == y)
            except Exception:  # noqa: BLE001
                same = False
            if a != "reaction_info" and same and hasattr(x, "items"):
                same = [describe(k) for k in x] == [describe(k) for k in y] and all(describe(x[k]) == describe(y[k]) for k in x)
                if not same:
                    bad.append(f"{a}(order or srepr)")
                    continue
            if not same:
                if hasattr(x, "items") and hasattr(y, "items"):
                    keys = [str(k) for k in x if k not in y or describe(x[k]) != describe(y[k])]
                    bad.append(f"{a}[{', '.join(keys[:3])}{' ...' if len(keys) > 3 else ''}]")
                else:
                    bad.append(a)
        if not bad and orig != loaded:
            bad.append("model != loaded model")
        return bad
    try:
        if not (orig == loaded):
            bad.append("==")
    except Exception as e:  # noqa: BLE001
        bad.append(f"== raised {type(e).__name__}")
    if describe(orig) != describe(loaded):
        bad.append("srepr")
    if isinstance(orig, sp.Basic) and not bad and hash(orig) != hash(loaded):
        bad.append("hash")
    return bad


def roundtrip_same(obj) -> dict[str, Any]:
    import pickle

    try:
        loaded = pickle.loads(pickle.dumps(obj))  # noqa: S301
    except Exception as e:  # noqa: BLE001
        return {"reproduced": True, "input": f"pickle.loads(pickle.dumps({_label(obj)}))", "expected": "an equal object", "observed": f"{type(e).__name__}: {e}"[:300]}
    bad = compare(obj, loaded)
    return {"reproduced": bool(bad), "input": f"pickle.loads(pickle.dumps({_label(obj)}))", "expected": _short_descr(obj),
            "observed": _short_descr(loaded) if not bad or isinstance(obj, sp.Basic) else _model_diff(obj, loaded, bad), "differs_in": bad}


def _label(obj) -> str:
    return str(obj)[:200] if isinstance(obj, sp.Basic) else type(obj).__name__


def _short_descr(obj) -> str:
    d = describe(obj)
    return d[:400] if isinstance(d, str) else f"{type(obj).__name__} with {len(getattr(obj, 'amplitudes', []))} amplitudes"


def _model_diff(orig, loaded, bad) -> str:
    for a in ("kinematic_variables", "amplitudes", "components"):
        x, y = getattr(orig, a), getattr(loaded, a)
        for k in x:
            if k in y and describe(x[k]) != describe(y[k]):
                return f"{a}[{k}]: original {describe(x[k])[:250]}  loaded {describe(y[k])[:250]}"
    return "; ".join(bad)


def roundtrip_fresh(items: list[tuple[str, Any]], timeout: float = 300.0) -> dict[str, dict[str, Any]]:
    """Pickle every object here, load it in a FRESH interpreter (subprocess, PYTHONPATH = $VERIF_REPO/src + the verif
    root), let the child describe it and pickle it again; compare the child's description with ours and the
    re-pickled object with the original. Returns label -> replay record."""
    import os
    import pickle
    import shutil
    import subprocess
    import sys
    import tempfile

    from vlib.core import REPO, ROOT

    payload, out = [], {}
    for label, obj in items:
        try:
            payload.append((label, pickle.dumps(obj)))
        except Exception as e:  # noqa: BLE001
            out[label] = {"reproduced": True, "input": f"pickle.dumps({_label(obj)})", "observed": f"{type(e).__name__}: {e}"[:300]}
    d = tempfile.mkdtemp(prefix="c15-")
    src, dst = os.path.join(d, "in.pkl"), os.path.join(d, "out.pkl")
    with open(src, "wb") as f:
        pickle.dump(payload, f)
    env = dict(os.environ)
    env["PYTHONPATH"] = os.pathsep.join([os.path.join(REPO, "src"), ROOT])
    env["PYTHONDONTWRITEBYTECODE"] = "1"
    env.pop("PYTHONHASHSEED", None)
    cmd = [sys.executable, "-c", "from contracts.decorator_common import child_main; child_main()", src, dst]
    proc = None
    try:
        proc = subprocess.run(cmd, env=env, capture_output=True, text=True, timeout=timeout, check=False, cwd=ROOT)  # noqa: S603
        with open(dst, "rb") as f:
            answers = dict(pickle.load(f))  # noqa: S301
        err = ""
    except Exception as e:  # noqa: BLE001
        answers, err = {}, f"{type(e).__name__}: {e}"
    for label, obj in items:
        if label in out:
            continue
        a = answers.get(label)
        inp = f"fresh process: pickle.loads(<bytes of {_label(obj)}>)"
        if a is None:
            out[label] = {"reproduced": False, "error": f"no answer from the child process {err} {(proc.stderr[-300:] if proc else '')}"}
            continue
        if not a["ok"]:
            out[label] = {"reproduced": True, "input": inp, "expected": "an equal object", "observed": a["error"]}
            continue
        bad = []
        if a["descr"] != describe(obj):
            bad.append("srepr (described in the child process)")
        back = None
        try:
            back = pickle.loads(a["bytes"])  # noqa: S301
            bad += [f"re-pickled: {b}" for b in compare(obj, back)]
        except Exception as e:  # noqa: BLE001
            bad.append(f"re-pickled object does not load: {type(e).__name__}")
        obs = a["descr"][:400] if isinstance(a["descr"], str) else (_model_diff(obj, back, bad) if back is not None and bad else "equal model")
        out[label] = {"reproduced": bool(bad), "input": inp, "expected": _short_descr(obj), "observed": obs, "differs_in": bad,
                      "fresh_process": a.get("pid") != os.getpid()}
    shutil.rmtree(d, ignore_errors=True)
    return out


def child_main() -> None:
    """Runs in the fresh interpreter: load, describe, re-pickle."""
    import os
    import pickle
    import sys

    warnings.filterwarnings("ignore")
    src, dst = sys.argv[-2], sys.argv[-1]
    with open(src, "rb") as f:
        payload = pickle.load(f)  # noqa: S301
    out = []
    for label, data in payload:
        try:
            obj = pickle.loads(data)  # noqa: S301
            out.append((label, {"ok": True, "descr": describe(obj), "bytes": pickle.dumps(obj), "pid": os.getpid()}))
        except Exception as e:  # noqa: BLE001
            out.append((label, {"ok": False, "error": f"{type(e).__name__}: {e}"[:300], "pid": os.getpid()}))
    with open(dst, "wb") as f:
        pickle.dump(out, f)


def expression_pool() -> list[tuple[str, Any]]:
    """One plain instance of every expression class, one whose SymPy fields all hold nested unevaluated expressions
    (with non-default non-SymPy attributes), one with non-default attributes; plus the helper-class instances and
    deprecated-style instances."""
    out: list[tuple[str, Any]] = []
    d = discover()
    nested = [inst for _, inst in nested_pool("quick")]
    for c in d["decorated"]:
        nm = c.__name__
        try:
            out.append((f"{nm}|plain", plain_instance(c)))
        except Exception:  # noqa: BLE001
            continue
        cands = [x for x in nested if type(x) is not c]
        vals = [cands[k % len(cands)] for k, _ in enumerate(sympy_fields(c))]
        try:
            out.append((f"{nm}|nested", c(*vals, **nondefault_attrs(c))))
        except Exception:  # noqa: BLE001
            pass
        if nonsympy_fields(c):
            out.append((f"{nm}|attrs", attr_instance(c)))
    for label, x in helper_instances():
        out.append((f"{label}|helper", x))
    a, b = sp.symbols("a b")
    out.append(("LegacyExpr|deprecated", LegacyExpr(a, b**2, name="legacy")))
    out.append(("LegacyExpr|deprecated_nested", LegacyExpr(a, plain_instance(d["decorated"][0]))))
    # RESULTS of doit(): what perform_cached_doit writes to disk. A node built by a doit() that bypasses its class's constructor is not
    # reproduced by pickle (pickle rebuilds through cls.__new__(*args), which may normalise: Integral folds a Piecewise integrand)
    from ampform.dynamics.phasespace import EqualMassPhaseSpaceFactor, PhaseSpaceFactor
    from ampform.sympy import PoolSum, UnevaluatableIntegral

    x_, s_, m1_, m2_ = sp.symbols("x s m1 m2", nonnegative=True)
    disp = s_ * UnevaluatableIntegral(EqualMassPhaseSpaceFactor(x_, m1_, m2_) / (x_ * (x_ - s_)), (x_, (m1_ + m2_) ** 2, sp.oo))
    ctrl = s_ * UnevaluatableIntegral(PhaseSpaceFactor(x_, m1_, m2_) / (x_ * (x_ - s_)), (x_, (m1_ + m2_) ** 2, sp.oo))
    out.append(("dispersion_integral[EqualMassPhaseSpaceFactor]|folded", disp))
    out.append(("dispersion_integral[PhaseSpaceFactor]|folded", ctrl))
    for label, x in list(out):
        if label.endswith("|plain") or label.endswith("|folded") or label.endswith("|attrs"):
            try:
                y = x.doit()
            except Exception:  # noqa: BLE001
                continue
            if isinstance(y, sp.Basic) and y != x:
                out.append((label + ".doit_result", y))
    return out


def model_configs(reaction):
    """(label, configure(builder)) for the builder configurations of the property's domain."""
    yield "default", lambda b: None

    def dyn(b):
        from ampform.dynamics.builder import create_relativistic_breit_wigner_with_ff

        for name in reaction.get_intermediate_particles().names:
            b.dynamics.assign(name, create_relativistic_breit_wigner_with_ff)

    yield "bw_ff", dyn

    def dpd(b):
        from ampform.helicity.align.dpd import DalitzPlotDecomposition

        b.config.spin_alignment = DalitzPlotDecomposition(reference_subsystem=1)

    yield "dpd", dpd

    def aa(b):
        from ampform.helicity.align.axisangle import AxisAngleAlignment

        b.config.spin_alignment = AxisAngleAlignment()

    yield "axisangle", aa


QUICK_MODELS = [("jpsi_gamma_pi0_pi0", "helicity"), ("jpsi_p_pbar", "helicity"), ("jpsi_pi0_pip_pim", "canonical-helicity")]


def build_models(tier: str) -> tuple[list[tuple[str, Any]], list[str]]:
    """Formulated models of the zoo: (label, model) and the (reaction, configuration) pairs that do not formulate."""
    from vlib import zoo

    pairs = list(QUICK_MODELS)
    if tier != "quick":
        pairs += [(n, f) for n in zoo.REACTIONS for f in ("helicity", "canonical-helicity") if (n, f) not in pairs]
    out, skipped = [], []
    for name, fm in pairs:
        try:
            reaction = zoo.reaction(name, fm)
        except Exception as e:  # noqa: BLE001
            skipped.append(f"{name}/{fm}: no reaction ({type(e).__name__})")
            continue
        for label, cfg in model_configs(reaction):
            try:
                r = reaction
                if label == "dpd":
                    from ampform.helicity.align.dpd import relabel_edge_ids

                    r = relabel_edge_ids(reaction)
                b = ampform.get_builder(r)
                cfg(b)
                out.append((f"{name}/{fm}/{label}", b.formulate()))
            except Exception as e:  # noqa: BLE001
                skipped.append(f"{name}/{fm}/{label}: {type(e).__name__}: {e}"[:160])
    return out, skipped


def left_subset(chk, pre: str, function: str, e: Exception, search, names: list[str]) -> None:
    """The code under contract left the E3 subset: the proof cannot be built. Recorded as refuted *lemma* obligations
    under the names the proof would have used (so the obligation set keeps its shape); each carries the property-level
    search on the real code as its replay, so a real defect still surfaces as a violation and a harmless rewrite as
    'undecided' -- never as a violation by itself."""
    why = f"{type(e).__name__}: {e}"[:300]
    chk.struct(f"{pre}.in_supported_subset", False, function, witness=why, lemma=True, replay=search)
    for n in names:
        guard = ".cover" in n or n.startswith("selftest.")  # vacuity guards / engine self-tests carry no property-level replay
        chk.struct(n, False, function, witness=f"not generated: the code left the E3 subset ({why})", lemma=True, replay=None if guard else search)
