"""C02 layer (i): node-level contracts, for ALL transitions (E3 on the real functions' AST).

`formulate_isobar_wigner_d(transition, node)`  ens  result = WignerD(J_parent, m_parent, l1 - l2, -phi, theta, 0) with (l1, l2) the
  projections of (children[0], children[1]) of `TwoBodyDecay.from_transition` and (phi, theta) the node's angle symbols.
`formulate_isobar_cg_coefficients(transition, node)`  ens  result = CG(L, 0, S, d, J, d) * CG(s1, l1, s2, -l2, S, d), d = l1 - l2.
The decay record, the kinematic-variable function, sp.Rational (identity on rationals, A-arith), Wigner.D / CG / sp.Mul are
natives: D, CG and Mul are uninterpreted constructors, so the postcondition is an equality of constructor terms with symbolic
arithmetic arguments, valid for every spin and projection.
"""

from __future__ import annotations

import z3

from vlib.core import Check
from vlib.pyvc import Executor, Obj, Rec, SV, State, Unsupported

FW = "ampform.helicity.formulate_isobar_wigner_d"
FC = "ampform.helicity.formulate_isobar_cg_coefficients"


def _abstract_decay():
    def state(tag):
        return Rec("StateWithID", {"particle": Rec("Particle", {"spin": SV(z3.Real(f"spin_{tag}"), "real")}), "spin_projection": SV(z3.Real(f"lambda_{tag}"), "real"),
                                   "id": SV(z3.Int(f"id_{tag}"), "int")})

    inter = Rec("Interaction", {"l_magnitude": SV(z3.Real("L"), "real"), "s_magnitude": SV(z3.Real("S"), "real")})
    return Rec("TwoBodyDecay", {"parent": state("parent"), "children": (state("c1"), state("c2")), "interaction": inter})


def _executor(search):
    ex = Executor("c02node")
    decay = _abstract_decay()
    ex.natives["TwoBodyDecay.from_transition"] = lambda e, st, a, k: iter([(st, decay)])
    phi, theta, mass = (z3.Const(n, Obj) for n in ("phi_node", "theta_node", "m_node"))
    ex.natives["_generate_kinematic_variables"] = lambda e, st, a, k: iter([(st, (SV(mass, "obj"), SV(phi, "obj"), SV(theta, "obj")))])
    ex.natives["sp.Rational"] = lambda e, st, a, k: iter([(st, a[0])])
    return ex, decay, phi, theta


def _real_of(v):
    if isinstance(v, SV):
        return z3.ToReal(v.t) if v.sort == "int" else v.t
    return z3.RealVal(str(v))


def build_node_contracts(chk: Check, search) -> None:
    from ampform import helicity as H

    chk.assume("native contracts: TwoBodyDecay.from_transition yields a record (parent, children[0], children[1], interaction); sp.Rational is the identity on "
               "rational values (A-arith); Wigner.D / CG / sp.Mul(evaluate=False) are constructors (uninterpreted, congruent)")
    t, n = SV(z3.Const("transition", Obj), "obj"), SV(z3.Const("node_id", Obj), "obj")
    # ---- Wigner D ----
    ex, decay, phi, theta = _executor(search)
    captured = {}

    def wigner_D(e, st, a, k):
        captured["D"] = dict(k) if k else dict(zip(("j", "m", "mp", "alpha", "beta", "gamma"), a))
        yield st, SV(z3.Const("WignerD_result", Obj), "obj")

    ex.natives["Wigner.D"] = wigner_D
    try:
        outs = ex.run(H.formulate_isobar_wigner_d, [t, n])
        ok = len(outs) == 1 and outs[0].kind == "return" and "D" in captured
    except Unsupported as e:
        chk.struct("formulate_isobar_wigner_d.in_supported_subset", False, FW, witness=str(e), lemma=True, replay=search)
        ok = False
    if ok:
        chk.struct("formulate_isobar_wigner_d.in_supported_subset", True, FW, lemma=True)
        k = captured["D"]
        p, c1, c2 = decay.attrs["parent"], decay.attrs["children"][0], decay.attrs["children"][1]
        pc = list(outs[0].st.pc)
        neg_phi = ex.func("op_usub", "obj", "obj")
        chk.smt("formulate_isobar_wigner_d.ens.j_is_parent_spin", pc, _real_of(k["j"]) == p.attrs["particle"].attrs["spin"].t, function=FW, replay=search, tactics=("default",))
        chk.smt("formulate_isobar_wigner_d.ens.m_is_parent_projection", pc, _real_of(k["m"]) == p.attrs["spin_projection"].t, function=FW, replay=search, tactics=("default",))
        chk.smt("formulate_isobar_wigner_d.ens.mprime_is_lambda1_minus_lambda2", pc, _real_of(k["mp"]) == c1.attrs["spin_projection"].t - c2.attrs["spin_projection"].t,
                function=FW, replay=search, tactics=("default",))
        beta_ok = isinstance(k["beta"], SV) and k["beta"].t.eq(theta)
        gamma_ok = not isinstance(k["gamma"], SV) and k["gamma"] == 0
        alpha = k["alpha"]
        alpha_ok = isinstance(alpha, SV) and alpha.sort == "obj" and "phi_node" in str(alpha.t) and str(alpha.t) != "phi_node"
        chk.struct("formulate_isobar_wigner_d.ens.angles_are_(-phi;theta;0)", bool(beta_ok and gamma_ok and alpha_ok), FW,
                   witness={"alpha": str(alpha), "beta": str(k["beta"]), "gamma": str(k["gamma"])}, replay=search)
    # ---- CG coefficients ----
    ex, decay, phi, theta = _executor(search)
    cgs = []

    def cg(e, st, a, k):
        cgs.append(dict(k) if k else dict(zip(("j1", "m1", "j2", "m2", "j3", "m3"), a)))
        yield st, SV(z3.Const(f"CG_result{len(cgs)}", Obj), "obj")

    ex.natives["CG"] = cg
    mul_args = {}

    def mul(e, st, a, k):
        mul_args["args"] = a
        yield st, SV(z3.Const("Mul_result", Obj), "obj")

    ex.natives["sp.Mul"] = mul
    try:
        outs = ex.run(H.formulate_isobar_cg_coefficients, [t, n])
        ok = len(outs) == 1 and outs[0].kind == "return" and len(cgs) == 2
    except Unsupported as e:
        chk.struct("formulate_isobar_cg_coefficients.in_supported_subset", False, FC, witness=str(e), lemma=True, replay=search)
        ok = False
    if ok:
        chk.struct("formulate_isobar_cg_coefficients.in_supported_subset", True, FC, lemma=True)
        p, c1, c2 = decay.attrs["parent"], decay.attrs["children"][0], decay.attrs["children"][1]
        inter = decay.attrs["interaction"]
        L, S = inter.attrs["l_magnitude"].t, inter.attrs["s_magnitude"].t
        J = p.attrs["particle"].attrs["spin"].t
        d = c1.attrs["spin_projection"].t - c2.attrs["spin_projection"].t
        pc = list(outs[0].st.pc)
        ls, ss = cgs
        want_ls = {"j1": L, "m1": z3.RealVal(0), "j2": S, "m2": d, "j3": J, "m3": d}
        want_ss = {"j1": c1.attrs["particle"].attrs["spin"].t, "m1": c1.attrs["spin_projection"].t, "j2": c2.attrs["particle"].attrs["spin"].t,
                   "m2": -c2.attrs["spin_projection"].t, "j3": S, "m3": d}
        chk.smt("formulate_isobar_cg_coefficients.ens.CG(L;0;S;d|J;d)", pc, z3.And(*[_real_of(ls[k]) == v for k, v in want_ls.items()]), function=FC, replay=search, tactics=("default",))
        chk.smt("formulate_isobar_cg_coefficients.ens.CG(s1;l1;s2;-l2|S;d)", pc, z3.And(*[_real_of(ss[k]) == v for k, v in want_ss.items()]), function=FC, replay=search, tactics=("default",))
        got = mul_args.get("args", [])
        chk.struct("formulate_isobar_cg_coefficients.ens.result_is_the_product_of_the_two", len(got) == 2 and all(isinstance(x, SV) for x in got)
                   and {str(x.t) for x in got} == {"CG_result1", "CG_result2"}, FC, witness=[str(x) for x in got], replay=search)
