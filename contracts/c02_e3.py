"""C02 layer (i): node-level contracts, for ALL transitions (E3 on the real functions' AST).

`formulate_isobar_wigner_d(transition, node)`  ens  result = WignerD(J_parent, m_parent, l1 - l2, -phi, theta, 0) with (l1, l2) the
  projections of (children[0], children[1]) of `TwoBodyDecay.from_transition` and (phi, theta) the node's angle symbols.
`formulate_isobar_cg_coefficients(transition, node)`  ens  result = CG(L, 0, S, d, J, d) * CG(s1, l1, s2, -l2, S, d), d = l1 - l2.
The decay record, the kinematic-variable function, sp.Rational (identity on rationals, A-arith), Wigner.D / CG / sp.Mul are
natives: D, CG and Mul are uninterpreted constructors, so the postcondition is an equality of constructor terms with symbolic
arithmetic arguments, valid for every spin and projection.
"""

from __future__ import annotations

import z3

from vlib.core import Check
from vlib.pyvc import Executor, Obj, Rec, SV, State, Unsupported

FW = "ampform.helicity.formulate_isobar_wigner_d"
FC = "ampform.helicity.formulate_isobar_cg_coefficients"


def _abstract_decay():
    # real classes attached: a property or helper method that the code under contract calls on these records is interpreted from its source
    from ampform.helicity import decay as D

    swid, tbd = getattr(D, "StateWithID", None), getattr(D, "TwoBodyDecay", None)

    def state(tag):
        return Rec("StateWithID", {"particle": Rec("Particle", {"spin": SV(z3.Real(f"spin_{tag}"), "real")}), "spin_projection": SV(z3.Real(f"lambda_{tag}"), "real"),
                                   "id": SV(z3.Int(f"id_{tag}"), "int")}, swid)

    inter = Rec("Interaction", {"l_magnitude": SV(z3.Real("L"), "real"), "s_magnitude": SV(z3.Real("S"), "real")})
    return Rec("TwoBodyDecay", {"parent": state("parent"), "children": (state("c1"), state("c2")), "interaction": inter}, tbd)


def _executor(search):
    ex = Executor("c02node")
    decay = _abstract_decay()
    ex.natives["TwoBodyDecay.from_transition"] = lambda e, st, a, k: iter([(st, decay)])
    phi, theta, mass = (z3.Const(n, Obj) for n in ("phi_node", "theta_node", "m_node"))
    ex.natives["_generate_kinematic_variables"] = lambda e, st, a, k: iter([(st, (SV(mass, "obj"), SV(phi, "obj"), SV(theta, "obj")))])
    ex.natives["sp.Rational"] = lambda e, st, a, k: iter([(st, a[0])])
    return ex, decay, phi, theta


def _real_of(v):
    if isinstance(v, SV):
        return z3.ToReal(v.t) if v.sort == "int" else v.t
    return z3.RealVal(str(v))


def build_node_contracts(chk: Check, search) -> None:
    from ampform import helicity as H

    chk.assume("native contracts: TwoBodyDecay.from_transition yields a record (parent, children[0], children[1], interaction); sp.Rational is the identity on "
               "rational values (A-arith); Wigner.D / CG / sp.Mul(evaluate=False) are constructors (uninterpreted, congruent)")
    t, n = SV(z3.Const("transition", Obj), "obj"), SV(z3.Const("node_id", Obj), "obj")
    # ---- Wigner D ----
    ex, decay, phi, theta = _executor(search)
    captured = {}

    def wigner_D(e, st, a, k):
        captured["D"] = dict(k) if k else dict(zip(("j", "m", "mp", "alpha", "beta", "gamma"), a))
        yield st, SV(z3.Const("WignerD_result", Obj), "obj")

    ex.natives["Wigner.D"] = wigner_D
    try:
        outs = ex.run(H.formulate_isobar_wigner_d, [t, n])
        ok = len(outs) == 1 and outs[0].kind == "return" and "D" in captured
    except Unsupported as e:
        chk.struct("formulate_isobar_wigner_d.in_supported_subset", False, FW, witness=str(e), lemma=True, replay=search)
        ok = False
    if ok:
        chk.struct("formulate_isobar_wigner_d.in_supported_subset", True, FW, lemma=True)
        k = captured["D"]
        p, c1, c2 = decay.attrs["parent"], decay.attrs["children"][0], decay.attrs["children"][1]
        pc = list(outs[0].st.pc)
        neg_phi = ex.func("op_usub", "obj", "obj")
        chk.smt("formulate_isobar_wigner_d.ens.j_is_parent_spin", pc, _real_of(k["j"]) == p.attrs["particle"].attrs["spin"].t, function=FW, replay=search, tactics=("default",))
        chk.smt("formulate_isobar_wigner_d.ens.m_is_parent_projection", pc, _real_of(k["m"]) == p.attrs["spin_projection"].t, function=FW, replay=search, tactics=("default",))
        chk.smt("formulate_isobar_wigner_d.ens.mprime_is_lambda1_minus_lambda2", pc, _real_of(k["mp"]) == c1.attrs["spin_projection"].t - c2.attrs["spin_projection"].t,
                function=FW, replay=search, tactics=("default",))
        beta_ok = isinstance(k["beta"], SV) and k["beta"].t.eq(theta)
        gamma_ok = not isinstance(k["gamma"], SV) and k["gamma"] == 0
        alpha = k["alpha"]
        alpha_ok = isinstance(alpha, SV) and alpha.sort == "obj" and "phi_node" in str(alpha.t) and str(alpha.t) != "phi_node"
        chk.struct("formulate_isobar_wigner_d.ens.angles_are_(-phi;theta;0)", bool(beta_ok and gamma_ok and alpha_ok), FW,
                   witness={"alpha": str(alpha), "beta": str(k["beta"]), "gamma": str(k["gamma"])}, replay=search)
    # ---- CG coefficients ----
    ex, decay, phi, theta = _executor(search)
    cgs = []

    def cg(e, st, a, k):
        cgs.append(dict(k) if k else dict(zip(("j1", "m1", "j2", "m2", "j3", "m3"), a)))
        yield st, SV(z3.Const(f"CG_result{len(cgs)}", Obj), "obj")

    ex.natives["CG"] = cg
    mul_args = {}

    def mul(e, st, a, k):
        mul_args["args"] = a
        yield st, SV(z3.Const("Mul_result", Obj), "obj")

    ex.natives["sp.Mul"] = mul
    try:
        outs = ex.run(H.formulate_isobar_cg_coefficients, [t, n])
        ok = len(outs) == 1 and outs[0].kind == "return" and len(cgs) == 2
    except Unsupported as e:
        chk.struct("formulate_isobar_cg_coefficients.in_supported_subset", False, FC, witness=str(e), lemma=True, replay=search)
        ok = False
    if ok:
        chk.struct("formulate_isobar_cg_coefficients.in_supported_subset", True, FC, lemma=True)
        p, c1, c2 = decay.attrs["parent"], decay.attrs["children"][0], decay.attrs["children"][1]
        inter = decay.attrs["interaction"]
        L, S = inter.attrs["l_magnitude"].t, inter.attrs["s_magnitude"].t
        J = p.attrs["particle"].attrs["spin"].t
        d = c1.attrs["spin_projection"].t - c2.attrs["spin_projection"].t
        pc = list(outs[0].st.pc)
        ls, ss = cgs
        want_ls = {"j1": L, "m1": z3.RealVal(0), "j2": S, "m2": d, "j3": J, "m3": d}
        want_ss = {"j1": c1.attrs["particle"].attrs["spin"].t, "m1": c1.attrs["spin_projection"].t, "j2": c2.attrs["particle"].attrs["spin"].t,
                   "m2": -c2.attrs["spin_projection"].t, "j3": S, "m3": d}
        chk.smt("formulate_isobar_cg_coefficients.ens.CG(L;0;S;d|J;d)", pc, z3.And(*[_real_of(ls[k]) == v for k, v in want_ls.items()]), function=FC, replay=search, tactics=("default",))
        chk.smt("formulate_isobar_cg_coefficients.ens.CG(s1;l1;s2;-l2|S;d)", pc, z3.And(*[_real_of(ss[k]) == v for k, v in want_ss.items()]), function=FC, replay=search, tactics=("default",))
        got = mul_args.get("args", [])
        chk.struct("formulate_isobar_cg_coefficients.ens.result_is_the_product_of_the_two", len(got) == 2 and all(isinstance(x, SV) for x in got)
                   and {str(x.t) for x in got} == {"CG_result1", "CG_result2"}, FC, witness=[str(x) for x in got], replay=search)


def build_chain_contract(chk: Check, search) -> None:
    """`HelicityAmplitudeBuilder.__formulate_sequential_decay(transition)` for ALL transitions with 1..3 nodes (E3):
    ens  result = [coefficient unless helicity couplings] * prod over nodes of _formulate_partial_decay(transition, node)
                  * [prefactor unless None];  components['A_{name}'] = result (added to an existing entry of that name:
                  symmetrised permutations), every other component unchanged.
    The node amplitudes, the coefficient and the prefactor are arbitrary real numbers (A-pure natives), so the equality is
    decided as nonlinear real arithmetic (commutativity/associativity of the product are the solver's)."""
    import itertools

    from ampform import helicity as H
    from vlib.pyvc import SMap

    FS = "ampform.helicity.HelicityAmplitudeBuilder.__formulate_sequential_decay"
    meth = getattr(H.HelicityAmplitudeBuilder, "_HelicityAmplitudeBuilder__formulate_sequential_decay", None)
    chk.struct("formulate_sequential_decay.exists", meth is not None, FS, lemma=True, replay=search)
    if meth is None:
        return
    chk.assume("native contracts for the chain contract: _formulate_partial_decay / coefficient / prefactor / amplitude name are arbitrary pure functions of "
               "(transition, node); functools.reduce(operator.mul, xs) = left fold of *; expression values are real numbers (A-arith; the complex case is the same "
               "polynomial identity)")
    for k, couplings, has_pf in itertools.product((1, 2, 3), (False, True), (False, True)):
        ex = Executor(f"chain{k}")
        p = [z3.Real(f"partial{i}") for i in range(k)]
        coef, pf = z3.Real("coefficient"), z3.Real("prefactor")
        name = z3.Const("amplitude_name", Obj)
        has0, val0 = z3.Array("comp_has0", Obj, z3.BoolSort()), z3.Array("comp_val0", Obj, Obj)
        comps = Rec("Mapping", {"__map__": SMap(has0, val0)})
        self_rec = Rec("Builder", {
            "config": Rec("Config", {"use_helicity_couplings": couplings}),
            "naming": Rec("Naming", {}),
            "__ingredients": Rec("Ingredients", {"components": comps}, getattr(H, "_HelicityModelIngredients", None)),  # helper methods a refactoring adds are interpreted
        }, real_class=H.HelicityAmplitudeBuilder)  # private helper methods of the real class are interpreted, not assumed
        ex.natives["Builder._formulate_partial_decay"] = lambda e, st, a, kw, p=p: iter([(st, SV(p[a[2]], "real"))])
        ex.natives["Builder.__generate_amplitude_coefficient"] = lambda e, st, a, kw: iter([(st, SV(coef, "real"))])
        ex.natives["Builder.__generate_amplitude_prefactor"] = lambda e, st, a, kw, has_pf=has_pf: iter([(st, SV(pf, "real") if has_pf else None)])
        ex.natives["Naming.generate_amplitude_name"] = lambda e, st, a, kw: iter([(st, SV(name, "obj"))])

        def n_reduce(e, st, a, kw):
            f, xs = a[0], list(a[1])
            acc = xs[0]
            for x in xs[1:]:
                acc = e.binop(__import__("ast").Mult(), acc, x, st)
            yield st, acc

        ex.natives["reduce"] = n_reduce
        # f-string names: the component key is a function of the amplitude name
        keyf = z3.Function("component_key", Obj, Obj)
        transition = Rec("Transition", {"topology": Rec("Topology", {"nodes": list(range(k))})})
        tag = f"k={k}/couplings={int(couplings)}/prefactor={'set' if has_pf else 'None'}"
        try:
            outs = ex.run(meth, [self_rec, transition])
        except Unsupported as e:
            chk.struct(f"formulate_sequential_decay[{tag}].in_supported_subset", False, FS, witness=str(e), lemma=True, replay=search)
            continue
        chk.struct(f"formulate_sequential_decay[{tag}].in_supported_subset", True, FS, lemma=True)
        want = z3.RealVal(1)
        for x in p:
            want = want * x
        if not couplings:
            want = coef * want
        if has_pf:
            want = want * pf
        posts = []
        for oc in outs:
            pc = z3.And(*oc.st.pc) if oc.st.pc else z3.BoolVal(True)
            if oc.kind != "return" or not isinstance(oc.value, SV):
                posts.append(z3.Not(pc))
                continue
            posts.append(z3.Implies(pc, _real_of(oc.value) == want))
        chk.smt(f"formulate_sequential_decay[{tag}].ens.coefficient_x_product_over_nodes_x_prefactor", [], z3.And(*posts) if posts else z3.BoolVal(False), function=FS, replay=search,
                tactics=("default", "nlsat"))
        chk.struct(f"formulate_sequential_decay[{tag}].paths", 1 <= len(outs) <= 2, FS, witness=len(outs), lemma=True, replay=search,
                   note="one path per 'component name already registered' case")
