"""C06 replay harness: digests of models formulated under different histories (run as a subprocess so that the
process-global functools caches start empty and PYTHONHASHSEED can be chosen).

usage: python -m contracts.c06_histories <reaction> <formalism> <history> ; history = comma-separated config words, the
LAST one is the model whose digest is printed; words: see WORDS below. A history that starts with '@' uses ONE builder whose
configuration is changed between the calls (no dpd words: they relabel the reaction).
"""

from __future__ import annotations

import hashlib
import json
import sys

WORDS = {
    "plain": dict(),
    "dpd1": dict(alignment="dpd1"),
    "dpd1+stable": dict(alignment="dpd1", stable="all"),
    "dpd1+stable+scalar": dict(alignment="dpd1", stable="all", scalar_initial_mass=True),
    "dpd2": dict(alignment="dpd2"),
    "dpd2+stable": dict(alignment="dpd2", stable="some"),
    "axis": dict(alignment="axis"),
    "axis+stable": dict(alignment="axis", stable="all"),
    "bwff": dict(dynamics="bwff"),
    "bw": dict(dynamics="bw"),
    "bwff+": dict(dynamics="bwff"),  # same configuration as bwff; a second spelling so that it can be the reference of its own group
    "bwsff": dict(dynamics="bwsff"),
    "bwedw": dict(dynamics="bwedw"),
    "nodynff": dict(dynamics="nodynff"),
    "couplings": dict(helicity_couplings=True),
    "stable": dict(stable="all"),
    "scalar": dict(scalar_initial_mass=True),
    "parent_hel": dict(naming="parent"),
    "no_child_hel": dict(naming="nochild"),
    "fail": None,  # one-builder histories only: a configuration that makes formulate() raise (a stable id that is no final state)
}


def digest(model) -> dict[str, str]:
    import sympy as sp

    def h(x) -> str:
        return hashlib.sha256(x.encode()).hexdigest()[:16]

    return {
        "intensity": h(sp.srepr(model.intensity)),
        "amplitudes": h(repr([(sp.srepr(k), sp.srepr(v)) for k, v in model.amplitudes.items()])),
        "parameter_defaults": h(repr([(sp.srepr(k), repr(v)) for k, v in model.parameter_defaults.items()])),
        "kinematic_variables": h(repr([(sp.srepr(k), sp.srepr(v)) for k, v in model.kinematic_variables.items()])),
        "components": h(repr([(k, sp.srepr(v)) for k, v in model.components.items()])),
        "reaction_info": h(repr(model.reaction_info)),
    }


def main() -> None:
    from vlib import models

    reaction, formalism, history = sys.argv[1], sys.argv[2], sys.argv[3].split(",")
    models.quiet()
    last = None
    if history[0].startswith("@"):
        # ONE builder (Breit-Wigner with form factor on every resonance), reconfigured between the formulate() calls
        history[0] = history[0][1:]
        for dyn in ("bwff", "bw"):  # the form-factor builder documents that it refuses nodes without L (helicity formalism, half-integer spins)
            b = models.make_builder(models.Config(reaction, formalism, dynamics=dyn))
            try:
                for w in history:
                    if WORDS[w] is None:
                        models.reconfigure(b, models.Config(reaction, formalism, stable="all"))
                        b.config.stable_final_state_ids = [max(b.reaction.final_state) + 1 + i for i in range(len(b.reaction.final_state))]
                        try:
                            b.formulate()
                        except ValueError as e:
                            if "Angular momentum is not defined" in str(e):
                                raise
                        except Exception:  # noqa: BLE001  (the failing call of the history)
                            pass
                        else:
                            raise RuntimeError("history word 'fail': formulate() did not raise")
                        continue
                    models.reconfigure(b, models.Config(reaction, formalism, **WORDS[w]))
                    last = b.formulate()
                break
            except ValueError as e:
                if dyn == "bw" or "Angular momentum is not defined" not in str(e):
                    raise
        print(json.dumps(digest(last)))
        return
    for w in history:
        last = models.build(models.Config(reaction, formalism, **WORDS[w]))  # dpd words relabel the final state to 1..3
    print(json.dumps(digest(last)))


if __name__ == "__main__":
    main()
