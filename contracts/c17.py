"""C17 — rename_symbols is a consistent renaming of the whole model.

Layer (i), E3 (contracts/c17_e3.py): the real `HelicityModel.rename_symbols` and `__collect_symbols` executed symbolically over
abstract models (symbolic names, assumptions, expressions, values, rename map), `xreplace` = uninterpreted congruent XR:
  ens intensity' = XR(sigma, intensity); amplitudes' = {a: XR(sigma, e)}; components' likewise;
      kinematic_variables' = {sigma(k): XR(sigma, e)}; parameter_defaults' = image of the old map under sigma (last value wins);
      a NEW instance is returned and `self` is unchanged; sigma(s) = Symbol(new name, **s.assumptions0), identity off the renamed
      names; the empty map returns self; unknown names only warn (one warning each); never raises.
  Consistency lemmas (z3, quantified): C01's P1 and P2 are preserved; P2 needs "no parameter is merged with a kinematic variable"
  (documented precondition, shown necessary by a must-fail obligation).
Layer (ii), bounded (contracts/c17_spec.py): zoo models x rename-map shapes: every attribute equals the original with the symbol map
applied (expected value computed independently with xreplace), C01's four postconditions hold for the result, assumptions are
preserved, the original is unchanged (digests), ParameterValues lookups work, and substituting the carried-over values gives the
same expression tree (injective maps).
"""

from __future__ import annotations

from contracts import c17_e3 as E
from contracts import c17_spec as S
from vlib import models
from vlib.core import Check

LEVEL = "other"
ENGINE = "E3 pyvc + E5 harness"
TECHNIQUE = ("contract-based deductive verification: symbolic execution of the real rename_symbols / __collect_symbols over abstract models with xreplace as an uninterpreted "
             "homomorphic extension (all paths, z3) plus quantified consistency lemmas; bounded exact comparison on zoo models x rename-map shapes")
CLAIM = (
    "For abstract models of the enumerated shapes (<= 4 symbols, <= 2 entries per mapping, <= 2 renames) with arbitrary names, assumptions, expressions, values and rename maps "
    "(injective, merging, chains, unknown names), every attribute of the returned model is the image of the original under one and the same symbol map, the receiver is not "
    "mutated, assumptions are kept and unknown names only warn (z3, all paths); C01's closure invariant is preserved under the stated precondition (z3). On zoo models the "
    "same clauses plus the value-level clause are compared exactly for ten map shapes (bounded)."
)
NOTE = (
    "Level 'other': shapes are enumerated (the comprehensions are pointwise, which is why small shapes are representative, but this is not a proof for all sizes). xreplace, "
    "attrs.evolve, sp.Symbol and logging are assumed contracts. Finding: a parameter that occurs in parameter_defaults only (stable final-state masses, scalar initial-state "
    "mass) is not collected by __collect_symbols and keeps its name (with a 'no symbol' warning): the parameter_defaults clause fails for that shape (E3 counter-model replayed "
    "on a zoo model). Merging a parameter with a kinematic variable is outside the property (precondition, reported as such)."
)
F = E.F


def build(chk: Check) -> None:
    models.quiet()
    chk.trust("z3 5.1.0 unsat answers; SymPy xreplace / structural equality / srepr for the expected values of the bounded layer")
    chk.assume("bounded in the space of models: the configurations of contracts/c17_spec.QUICK_CFGS / THOROUGH_CFGS x the map shapes of rename_maps()")
    chk.assume("C01 (contracts/c01.postconditions) is the well-formedness predicate of models")
    E.build_e3(chk)
    bounded_layer(chk)


def bounded_layer(chk: Check) -> None:
    from contracts.c01 import postconditions

    cfgs = S.THOROUGH_CFGS if chk.tier == "thorough" else S.QUICK_CFGS
    n_checks = 0
    for cfg in cfgs:
        try:
            maps = S.rename_maps(cfg)
        except Exception as e:  # noqa: BLE001
            chk.struct(f"model_builds[{cfg.tag}]", False, "ampform.helicity.HelicityAmplitudeBuilder.formulate", witness=f"{type(e).__name__}: {e}"[:300], lemma=True, bounded=True, replay=S.search_general)
            continue
        chk.struct(f"model_builds[{cfg.tag}]", True, "ampform.helicity.HelicityAmplitudeBuilder.formulate", lemma=True, bounded=True)
        well = postconditions(S.model_of(cfg))
        chk.struct(f"requires.well_formed[{cfg.tag}]", all(v[0] for v in well.values()), F, witness={k: v[1] for k, v in well.items() if not v[0]}, lemma=True, bounded=True, replay=S.search_general)
        for shape, history in maps.items():
            res = S.check(cfg, shape, history)
            for clause, (ok, wit) in res.items():
                n_checks += 1

                def rep(_m, cfg=cfg, shape=shape, history=history, clause=clause):
                    r = S.check(cfg, shape, history).get(clause, (False, "clause not evaluated"))
                    return {"reproduced": not r[0], "input": {"model": cfg.tag, "map_shape": shape, "renames": history}, "observed": r[1], "expected": clause}

                chk.struct(f"rename[{cfg.tag}/{shape}].{clause}", ok, F, witness={"renames": history if len(str(history)) < 400 else shape, "offending": wit}, replay=rep, bounded=True)
        pre = S.precondition_map(cfg)
        if pre:
            res = S.check(cfg, S.PRECONDITION_MAP, pre, want_c01=False)
            for clause, (ok, wit) in res.items():
                if clause.startswith(("attribute_is_sigma_image", "original_unchanged", "returns_a_model")):
                    def rep2(_m, cfg=cfg, pre=pre, clause=clause):
                        r = S.check(cfg, S.PRECONDITION_MAP, pre, want_c01=False).get(clause, (False, "clause not evaluated"))
                        return {"reproduced": not r[0], "input": {"model": cfg.tag, "renames": pre}, "observed": r[1], "expected": clause}

                    chk.struct(f"rename[{cfg.tag}/{S.PRECONDITION_MAP}].{clause}", ok, F, witness={"renames": pre, "offending": wit}, replay=rep2, bounded=True)
            p2 = postconditions(S.apply_history(S.model_of(cfg), pre))["P2.parameter_xor_kinematic"]
            chk.struct(f"precondition.merging_parameter_with_kinematic_variable_is_outside_the_property[{cfg.tag}]", not p2[0], F,
                       witness={"renames": pre, "symbols_that_are_parameter_and_kinematic_variable": p2[1]}, lemma=True, bounded=True, replay=S.search_general,
                       note="demonstration that the precondition is needed: C01.P2 is lost for this map; not a violation of C17")
    chk.extra["bounded_clause_evaluations"] = n_checks
    chk.extra["models"] = [c.tag for c in cfgs]
