"""C17, specification side on REAL models (bounded layer and replays).

The expected renamed model is computed here independently of `rename_symbols`: sigma is the by-name renaming of EVERY
symbol that occurs anywhere in the model (expression trees, keys of parameter_defaults and kinematic_variables), keeping
`assumptions0`; each attribute of the expected model is the original attribute with sigma applied by SymPy's xreplace.
"""

from __future__ import annotations

import hashlib
from functools import lru_cache

import sympy as sp

from vlib import models
from vlib.models import Config
from ampform.sympy import PoolSum

QUICK_CFGS = [
    Config("jpsi_gamma_pi0_pi0", dynamics="bwff"),
    Config("jpsi_gamma_pi0_pi0", formalism="canonical-helicity"),
    Config("lambdac_p_k_pi", alignment="dpd1", dynamics="bwff"),
    Config("jpsi_pi0_pip_pim", alignment="dpd1"),
    Config("jpsi_gamma_pi0_pi0", stable="all", dynamics="bwff"),  # stable final-state masses: parameters that occur in parameter_defaults only
]
THOROUGH_CFGS = QUICK_CFGS + [
    Config("jpsi_pi0_pip_pim", formalism="canonical-helicity", dynamics="bwff"),
    Config("lambdac_p_k_pi", formalism="canonical-helicity", dynamics="bwff"),
    Config("d1_k_k_k0", alignment="dpd1", dynamics="bwff"),
    Config("jpsi_k0_sigma_pbar_N", formalism="canonical-helicity", alignment="dpd1", dynamics="bwff"),
    Config("jpsi_k0_sigma_pbar_N"),
    Config("d1_k_k_k0", formalism="canonical-helicity", stable="some", scalar_initial_mass=True, dynamics="bwff"),
    Config("lambdac_p_k_pi", alignment="dpd1", stable="all", scalar_initial_mass=True),
]
ATTRS = ("intensity", "amplitudes", "parameter_defaults", "kinematic_variables", "components")


@lru_cache(maxsize=None)
def model_of(cfg: Config):
    models.quiet()
    return models.build(cfg)


@lru_cache(maxsize=None)
def expression_of(cfg: Config):
    return model_of(cfg).expression


def digest(model) -> str:
    h = hashlib.sha256()
    h.update(sp.srepr(model.intensity).encode())
    for name in ("amplitudes", "parameter_defaults", "kinematic_variables", "components"):
        for k, v in getattr(model, name).items():
            h.update(repr((sp.srepr(k) if isinstance(k, sp.Basic) else k, sp.srepr(v) if isinstance(v, sp.Basic) else repr(v))).encode())
    return h.hexdigest()


def all_symbols(model) -> set[sp.Symbol]:
    out: set[sp.Symbol] = set()
    out |= model.intensity.atoms(sp.Symbol)
    for name in ("amplitudes", "kinematic_variables", "components"):
        for k, v in getattr(model, name).items():
            if isinstance(k, sp.Basic):
                out |= k.atoms(sp.Symbol)
            out |= sp.sympify(v).atoms(sp.Symbol)
    for k in model.parameter_defaults:
        out |= k.atoms(sp.Symbol)
    return out - not_model_symbols(model)


def not_model_symbols(model) -> set[sp.Symbol]:
    """Symbol atoms that are not symbols OF THE MODEL: labels of indexed amplitude bases and bound summation indices. They are absent from
    the unfolded expression, are no parameters and no kinematic variables; their names are 'unknown names' of the statement's quantifier
    (renaming the base label inside `intensity` while the keys of `amplitudes` keep it would break the mutual consistency)."""
    out: set[sp.Symbol] = set()
    exprs = [model.intensity, *model.amplitudes.values(), *model.components.values()]
    for e in exprs:
        e = sp.sympify(e)
        for i in e.atoms(sp.Indexed):
            out |= i.base.label.atoms(sp.Symbol)
        for ps in e.atoms(PoolSum):
            out |= {idx for idx, _ in ps.indices}
    return out


def sigma_of(model, renames: dict[str, str]) -> dict[sp.Symbol, sp.Symbol]:
    return {s: sp.Symbol(renames[s.name], **s.assumptions0) for s in all_symbols(model) if s.name in renames}


def expected_attributes(model, renames: dict[str, str]) -> dict:
    sig = sigma_of(model, renames)

    def xr(e):
        return sp.sympify(e).xreplace(sig)

    pd: dict = {}
    for k, v in model.parameter_defaults.items():
        pd[xr(k)] = v  # image of the old map under sigma, the last value wins on merged keys
    return {
        "intensity": xr(model.intensity),
        "amplitudes": {k: xr(v) for k, v in model.amplitudes.items()},
        "components": {k: xr(v) for k, v in model.components.items()},
        "kinematic_variables": {xr(k): xr(v) for k, v in model.kinematic_variables.items()},
        "parameter_defaults": pd,
    }


def collected(model) -> set[sp.Symbol]:
    """The symbols the statement's renaming has to reach through expressions (used to pick rename targets only)."""
    out = set(model.kinematic_variables)
    for v in model.kinematic_variables.values():
        out |= v.free_symbols
    return out


def rename_maps(cfg: Config) -> dict[str, list[dict[str, str]]]:
    """Map shapes of the property's quantifier; each entry is a HISTORY of rename maps (applied in sequence)."""
    model = model_of(cfg)
    expr = expression_of(cfg)
    used = sorted((s for s in model.parameter_defaults if s in expr.free_symbols), key=lambda s: s.name)
    orphans = sorted((s for s in model.parameter_defaults if s not in expr.free_symbols and s not in collected(model)), key=lambda s: s.name)
    kin = sorted((s for s in model.kinematic_variables if s in expr.free_symbols), key=lambda s: s.name)
    masses = [s for s in used if s.name.startswith("m_")] or used
    p1, p2 = (masses + used)[0], [s for s in used if s is not (masses + used)[0]][-1]
    out = {
        "injective_two_parameters": [{p1.name: "renamed_1", p2.name: "renamed_2"}],
        "merge_two_parameters": [{p1.name: "coupled", p2.name: "coupled"}],
        "chain_a_to_existing_b": [{p1.name: p2.name}],
        "kinematic_variable": [{kin[0].name: "renamed_kinematic_variable"}],
        "empty": [{}],
        "unknown_name": [{"no such symbol": "x"}],
        "applied_twice": [{p1.name: "renamed_1", p2.name: "renamed_2"}, {"renamed_1": "again_1", kin[-1].name: "kin_again"}],
        "swap_two_parameters": [{p1.name: p2.name, p2.name: p1.name}],
        "all_parameters": [{s.name: f"par_{i}" for i, s in enumerate(used)}],  # every parameter of the expression
        "parameter_and_kinematic_variable_injective": [{p1.name: "renamed_1", kin[0].name: "renamed_kinematic_variable"}],
        # new names of unusual shape (the sorted mappings of the model compare names fragment by fragment): leading digit, sign + digit,
        # digits separated by a sign only, digits only, non-ASCII
        "kinematic_variable_to_name_with_leading_digit": [{kin[0].name: "2pi_mass"}],
        "kinematic_variables_to_signed_and_numeric_names": [{kin[0].name: "-1x", kin[-1].name: "a1+2b"} if len(kin) > 1 else {kin[0].name: "-1x"}],
        "parameter_to_digits_only_and_kinematic_variable_to_unicode": [{p1.name: "12", kin[0].name: "\u03b8_\u2081"}],
    }
    inner = sorted({x for v in model.kinematic_variables.values() for x in v.free_symbols}, key=lambda x: x.name)
    momenta = [x for x in inner if x not in model.kinematic_variables]
    nested = [x for x in inner if x in model.kinematic_variables]
    if momenta:  # a symbol that occurs inside the kinematic-variable definitions only
        out["four_momentum_symbol"] = [{momenta[0].name: "q_renamed"}]
    if nested:  # a kinematic variable that other kinematic variables are defined with (DPD alignment)
        out["kinematic_variable_used_by_other_kinematic_variables"] = [{nested[0].name: "renamed_inner_variable"}]
    if orphans:
        out["parameter_outside_the_expression"] = [{orphans[0].name: "renamed_orphan"}]
    # names that occur in the model's attributes but are NOT symbols of the model (not in the unfolded expression, not a parameter, not a
    # kinematic variable): labels of the indexed amplitude bases and bound summation indices of `intensity`. Renaming them is renaming an
    # unknown name: warn, change nothing.
    known = {s.name for s in all_symbols(model)}
    bases = sorted({str(i.base.label) for i in model.intensity.atoms(sp.Indexed)} - known)
    bound = sorted({str(idx) for ps in model.intensity.atoms(PoolSum) for idx, _ in ps.indices} - known)
    if bases:
        out["amplitude_base_label_is_unknown_name"] = [{bases[0]: "renamed_base"}]
        out["amplitude_base_label_and_kinematic_variable"] = [{bases[-1]: "renamed_base", kin[0].name: "renamed_kinematic_variable"}]
    if bound:
        out["bound_summation_index_is_unknown_name"] = [{bound[0]: "renamed_index"}]
    return out


PRECONDITION_MAP = "parameter_onto_kinematic_variable"


def precondition_map(cfg: Config) -> list[dict[str, str]]:
    model, expr = model_of(cfg), expression_of(cfg)
    ps = sorted((s for s in model.parameter_defaults if s in expr.free_symbols), key=lambda s: s.name)
    ks = sorted((s for s in model.kinematic_variables if s in expr.free_symbols), key=lambda s: s.name)
    for p in ps:  # a true merge needs equal assumptions (Symbol identity = name + assumptions)
        for k in ks:
            if p.assumptions0 == k.assumptions0:
                return [{p.name: k.name}]
    return []


def apply_history(model, history):
    for m in history:
        model = model.rename_symbols(m)
    return model


def expected_history(model, history) -> dict:
    """Expected attributes after a history: fold of `expected_attributes` (on a light-weight stand-in for the model)."""

    class _M:
        pass

    cur = _M()
    for a in ATTRS:
        setattr(cur, a, getattr(model, a))
    exp = {a: getattr(model, a) for a in ATTRS}
    for m in history:
        exp = expected_attributes(cur, m)
        cur = _M()
        for a in ATTRS:
            setattr(cur, a, exp[a])
    return exp


def check(cfg: Config, shape: str, history, want_c01: bool = True) -> dict[str, tuple[bool, object]]:
    """All clauses of C17 for one model x one rename history, on the real rename_symbols."""
    from contracts.c01 import postconditions

    models.quiet()
    model = model_of(cfg)
    before = digest(model)
    try:
        renamed = apply_history(model, history)
    except Exception as e:  # noqa: BLE001
        return {"returns_a_model": (False, f"{type(e).__name__}: {e}")}
    out: dict[str, tuple[bool, object]] = {"returns_a_model": (True, None)}
    out["original_unchanged"] = (digest(model) == before, "srepr digest of the original changed")
    exp = expected_history(model, history)
    for a in ATTRS:
        got = getattr(renamed, a)
        if a == "intensity":
            ok, wit = got == exp[a], None if got == exp[a] else {"expected": str(exp[a])[:200], "observed": str(got)[:200]}
        else:
            gd, ed = dict(got.items()), dict(exp[a].items())
            ok = gd == ed
            wit = None
            if not ok:
                wit = {"keys_only_expected": [str(k) for k in ed if k not in gd][:4], "keys_only_observed": [str(k) for k in gd if k not in ed][:4],
                       "values_differ_at": [str(k) for k in ed if k in gd and gd[k] != ed[k]][:3]}
        out[f"attribute_is_sigma_image.{a}"] = (ok, wit)
    if all(not m for m in history):
        out["empty_map_returns_self"] = (renamed is model, "a new object was returned for the empty map")
    # assumptions: every renamed symbol keeps assumptions0; unrelated symbols untouched
    sig_total: dict = {}
    cur_syms = {s: s for s in all_symbols(model)}  # original symbol -> its current image
    for m in history:
        for s0, s in list(cur_syms.items()):
            if s.name in m:
                cur_syms[s0] = sp.Symbol(m[s.name], **s.assumptions0)
    new_syms = all_symbols(renamed)
    by_name: dict = {}
    for s in new_syms:
        by_name.setdefault(s.name, []).append(s)
    renamed_names = {n for m in history for n in m}
    bad_assume = []
    for s0, s1 in cur_syms.items():
        if s0 != s1 and s1 not in new_syms and s1.name in by_name:  # renamed by the real code, but with other assumptions
            bad_assume.append(f"{s0}: expected assumptions {s1.assumptions0}; observed {[x.assumptions0 for x in by_name[s1.name]]}")
        if s0 == s1 and s0.name not in renamed_names and s0 not in new_syms:  # unrelated symbol
            bad_assume.append(f"unrelated symbol {s0} changed")
    out["assumptions_preserved_and_unrelated_untouched"] = (not bad_assume, bad_assume[:4])
    # expression (derived property) and the value-level clause
    sig_total = {s0: s1 for s0, s1 in cur_syms.items() if s0 != s1}
    expr0 = expression_of(cfg)
    expr1 = renamed.expression
    out["expression_is_sigma_image"] = (expr1 == expr0.xreplace(sig_total), "renamed.expression != original.expression.xreplace(sigma)")
    injective = len(set(cur_syms.values())) == len(cur_syms)
    if injective:
        v0 = expr0.xreplace(dict(model.parameter_defaults.items())).xreplace(sig_total)
        v1 = expr1.xreplace(dict(renamed.parameter_defaults.items()))
        out["value_level.same_tree_after_substituting_carried_over_values"] = (v0 == v1, "trees differ after substituting the parameter values")
    if want_c01:
        momenta_renamed = any(n in m for m in history for n in (f"p{i}" for i in model.reaction_info.final_state))
        for clause, (ok, wit) in postconditions(renamed).items():
            if momenta_renamed and clause.startswith("K."):
                continue  # C01's clause K identifies the four-momenta by their names p<i>; not applicable once one is renamed
            out[f"C01_still_holds.{clause}"] = (ok, wit)
    # ParameterValues lookups on the renamed model: by symbol, by name, by index
    pv = renamed.parameter_defaults
    okpv = all(pv[k] == v and pv[str(k)] == v and pv[i] == v for i, (k, v) in enumerate(pv.items()) if [str(x) for x in pv].count(str(k)) == 1)
    out["parameter_values.lookup_by_symbol_name_index"] = (okpv, "lookup mismatch")
    return out


ORPHAN_SHAPE = "parameter_outside_the_expression"


def search_general(_model=None):
    """Replay for the general E3 obligations: all map shapes whose parameters occur in the expression / kinematic variables."""
    return search(_model, only=lambda shape: shape != ORPHAN_SHAPE)


def search_orphan(_model=None):
    """Replay for the clause 'parameters that occur in parameter_defaults only are renamed too'."""
    return search(_model, only=lambda shape: shape == ORPHAN_SHAPE)


def search(_model=None, cfgs=None, only=lambda shape: True):
    """Property-level replay for the E3 obligations: first failing clause over the quick model zoo x map shapes."""
    for cfg in cfgs or QUICK_CFGS:
        for shape, history in rename_maps(cfg).items():
            if not only(shape):
                continue
            res = check(cfg, shape, history)
            bad = {k: v[1] for k, v in res.items() if not v[0]}
            if bad:
                return {"reproduced": True, "input": {"model": cfg.tag, "map_shape": shape, "renames": history}, "observed": bad,
                        "expected": "every attribute = original with the symbol map applied; C01 holds; assumptions kept; original unchanged"}
    return {"reproduced": False, "note": "real rename_symbols agrees with the spec on the quick model zoo x map shapes"}
