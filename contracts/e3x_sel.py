"""E3 extensions used by contracts/c13.py and contracts/c17.py (a subclass of vlib.pyvc.Executor plus natives).

What `Ex` adds to the base executor (all additive, nothing in vlib/ is changed):
  * private-name mangling: `self.__x` inside class C is read/written as attribute `_C__x` (as CPython compiles it);
  * properties of a record's real class are evaluated (their fget is interpreted, single path);
  * caller frames live in the State (ghost stack), so that a fork inside an inlined callee gives every path its own copy of
    the caller's heap records (the base class keeps the caller's env in a Python local that both paths then share);
  * `d[k]` on a symbolic map forks into "present -> value" / "absent -> KeyError" instead of emitting a precondition;
  * `d[k]`, `k in d`, `d.get(k, default)` on concrete dicts / sets whose keys are symbolic objects: fork over key equality;
  * `d[k] = v` on a concrete dict with a symbolic key overwrites the entry with an equal key, else inserts;
  * dict displays / comprehensions with symbolic keys are normalised (equal keys merge, the last value wins);
  * `Rec`s may carry a z3 identity term (`__obj__`) and dicts are embedded into Obj by an order-insensitive constructor;
  * `f(**opaque)` is passed to natives as kwargs["**"]; calling an opaque (symbolic) callable goes to `sv_call`;
  * iteration over a concrete set of symbolic objects unwraps the elements (deterministic order);
  * declared dynamic types of opaque terms (`sv_class`) drive `isinstance` and functools.singledispatch natives.
"""

from __future__ import annotations

import ast
import builtins
import inspect
from typing import Any, Iterator

import z3

from vlib.pyvc import Bound, Closure, Exc, Executor, Obj, Rec, SMap, SV, State, Unsupported, _HK, _hashable, _unhash, is_sym

MISSING = object()


class _Mangle(ast.NodeTransformer):
    def __init__(self, cls: str):
        self.cls = cls.lstrip("_")

    def visit_Attribute(self, n):  # noqa: N802
        self.generic_visit(n)
        if n.attr.startswith("__") and not n.attr.endswith("__"):
            n.attr = f"_{self.cls}{n.attr}"
        return n


def _class_of_qualname(qual: str) -> str | None:
    parts = [p for p in qual.split(".") if p != "<locals>"]
    return parts[-2] if len(parts) >= 2 else None


class Ex(Executor):
    def __init__(self, name: str = "", **kw):
        super().__init__(name, **kw)
        self.sv_class: dict[str, type] = {}  # str(z3 term) -> declared dynamic type of that opaque object
        self.obj_props: dict[str, Any] = {}  # attribute name -> fn(ex, st, sv) -> value, for opaque objects
        self.sv_call = None  # fn(ex, st, f_sv, args, kwargs) -> iterator of (state, value)
        self.natives.update({
            "set": n_set, "isinstance": n_isinstance, "reversed": n_reversed,
            "pydict.items": n_dict_items, "pydict.values": n_dict_values, "pydict.keys": n_dict_keys, "pydict.get": n_dict_get,
        })

    # ---- source: private name mangling ---------------------------------------------------------------
    def source_of(self, func):
        tree, glob, qual = super().source_of(func)
        cls = _class_of_qualname(qual)
        if cls:
            tree = _Mangle(cls).visit(tree)
        return tree, glob, qual

    # (frames of the callers live on the State in the base executor: vlib/pyvc.py, State.frames)

    # ---- embedding into Obj ---------------------------------------------------------------------------------
    def as_obj(self, v):
        if isinstance(v, _HK):
            return self.as_obj(v.v)
        if isinstance(v, Rec) and "__obj__" in v.attrs:
            return v.attrs["__obj__"]
        if isinstance(v, dict):
            pairs = sorted(((self.as_obj(_unhash(k)), self.as_obj(x)) for k, x in v.items()), key=lambda p: str(p[0]))
            if not pairs:
                return z3.Const("empty_dict", Obj)
            flat = [t for p in pairs for t in p]
            return self.func(f"mkdict{len(pairs)}", *(["obj"] * (len(flat) + 1)))(*flat)
        if isinstance(v, (set, frozenset)):
            elems = sorted((self.as_obj(x) for x in v), key=str)
            if not elems:
                return z3.Const("empty_set", Obj)
            return self.func(f"mkset{len(elems)}", *(["obj"] * (len(elems) + 1)))(*elems)
        return super().as_obj(v)

    def concrete_seq(self, v, st) -> list:
        if isinstance(v, (set, frozenset)):  # deterministic order; elements unwrapped
            return [_unhash(x) for x in sorted(v, key=lambda x: str(self.as_obj(x)))]
        return super().concrete_seq(v, st)

    def type_of(self, v) -> type:
        if isinstance(v, SV):
            if v.sort == "int":
                return int
            if v.sort == "real":
                return float
            if v.sort == "bool":
                return bool
            return self.sv_class.get(str(v.t), object)
        if isinstance(v, Rec):
            return v.real_class or object
        return type(v)

    # ---- attribute / item access ------------------------------------------------------------------------------
    def getattr(self, o, attr: str, st):
        if isinstance(o, SV) and o.sort == "obj" and attr in self.obj_props:
            return self.obj_props[attr](self, st, o)
        v = super().getattr(o, attr, st)
        if isinstance(v, tuple) and len(v) == 3 and v[0] == "__property__":
            outs = list(self.call_function(v[1], st, [v[2]], {}))
            if len(outs) != 1 or outs[0][1] != "return" or outs[0][0] is not st:
                raise Unsupported(f"property {attr} with several paths")
            return outs[0][2]
        return v

    def getitem(self, o, k, st) -> Iterator[tuple[State, Any]]:
        if isinstance(o, Rec) and "__map__" in o.attrs:
            m: SMap = o.attrs["__map__"]
            kk = self.as_obj(k)
            for st2, b in self.truth(st, SV(z3.Select(m.has, kk), "bool")):
                if b:
                    yield st2, SV(z3.Select(m.val, kk), "obj")
                else:
                    yield st2, Exc("KeyError", (k,))
            return
        if isinstance(o, dict) and (is_sym(k) or isinstance(k, Rec) and "__obj__" in k.attrs):
            for st2, v in self.dict_lookup(o, k, st):
                yield st2, (Exc("KeyError", (k,)) if v is MISSING else v)
            return
        yield from super().getitem(o, k, st)

    def dict_lookup(self, d: dict, key, st: State, i: int = 0, keys=None) -> Iterator[tuple[State, Any]]:
        """Fork over which key of the concrete dict equals `key`. Values are returned from the dict as it was when the
        lookup started (they are immutable values in all targets)."""
        keys = list(d.items()) if keys is None else keys
        if i >= len(keys):
            yield st, MISSING
            return
        k, val = keys[i]
        for st2, b in self.truth(st, self.equal(_unhash(k), key)):
            if b:
                yield st2, val
            else:
                yield from self.dict_lookup(d, key, st2, i + 1, keys)

    def equal(self, a, b):
        if isinstance(a, Rec) and "__obj__" in a.attrs or isinstance(b, Rec) and "__obj__" in b.attrs:
            return SV(self.as_obj(a) == self.as_obj(b), "bool")
        return super().equal(a, b)

    def compare(self, op, a, b, st):
        if isinstance(op, (ast.Eq, ast.NotEq)) and (isinstance(a, Rec) and "__obj__" in a.attrs or isinstance(b, Rec) and "__obj__" in b.attrs):
            r = self.equal(a, b)
            yield st, (self._not(r) if isinstance(op, ast.NotEq) else r)
            return
        yield from super().compare(op, a, b, st)

    def contains(self, cont, item, st):
        symbolic_item = is_sym(item) or isinstance(item, Rec) and "__obj__" in item.attrs
        if isinstance(cont, (set, frozenset, list, tuple, dict)) and (symbolic_item or any(isinstance(x, _HK) or is_sym(x) for x in cont)):
            ors = [self.as_bool(self.equal(_unhash(x), item)) for x in cont]
            yield st, SV(z3.Or(*ors) if ors else z3.BoolVal(False), "bool")
            return
        yield from super().contains(cont, item, st)

    def _assign(self, t, v, st: State, frame):
        """d[k] = v on a concrete dict with a symbolic key: overwrite the entry whose key equals k, else insert."""
        if isinstance(t, ast.Subscript):
            for st2, cont in self.ev(t.value, st, frame):
                for st3, key in self.ev(t.slice, st2, frame):
                    symbolic = is_sym(key) or isinstance(key, Rec) and "__obj__" in key.attrs
                    if isinstance(cont, dict) and symbolic:
                        yield from self._store(t, key, v, st3, frame, 0, len(cont))
                    else:
                        yield from self._store_plain(cont, key, v, st3)
            return
        yield from super()._assign(t, v, st, frame)

    def _store(self, t, key, v, st, frame, i, n):
        (cont,) = [c for _, c in self.ev(t.value, st, frame)]  # the container of THIS path (states fork)
        keys = list(cont)
        if i >= n:
            cont[_hashable(key)] = v
            yield st
            return
        for st2, b in self.truth(st, self.equal(_unhash(keys[i]), key)):
            if b:
                (c2,) = [c for _, c in self.ev(t.value, st2, frame)]
                c2[list(c2)[i]] = v
                yield st2
            else:
                yield from self._store(t, key, v, st2, frame, i + 1, n)

    def _store_plain(self, cont, key, v, st):
        if isinstance(cont, dict):
            cont[_hashable(key)] = v
            yield st
        elif isinstance(cont, list) and isinstance(key, int):
            cont[key] = v
            yield st
        elif isinstance(cont, Rec) and "__map__" in cont.attrs:
            m: SMap = cont.attrs["__map__"]
            k = self.as_obj(key)
            cont.attrs["__map__"] = SMap(z3.Store(m.has, k, True), z3.Store(m.val, k, self.as_obj(v)))
            yield st
        else:
            h = self.lookup_native_method(cont, "__setitem__")
            if h is None:
                raise Unsupported(f"subscript store on {type(cont).__name__}")
            for st4, _ in h(self, st, [cont, key, v], {}):
                yield st4

    # ---- dict displays / comprehensions with symbolic keys ---------------------------------------------------------
    def ev(self, n, st: State, frame):
        if isinstance(n, (ast.DictComp, ast.Dict)):
            for st2, d in super().ev(n, st, frame):
                if isinstance(d, dict) and sum(1 for k in d if isinstance(k, _HK)) >= 2:
                    yield from self._normalise_dict(list(d.items()), st2)
                else:
                    yield st2, d
            return
        yield from super().ev(n, st, frame)

    def _normalise_dict(self, pairs: list, st: State, j: int = 1):
        """pairs: insertion-ordered (key, value). Merge keys that are equal under the path condition; the later value wins
        (CPython: d[k] = v overwrites the value and keeps the first key object)."""
        if j >= len(pairs):
            yield st, dict(pairs)
            return
        yield from self._merge_into(pairs, j, 0, st)

    def _merge_into(self, pairs, j, i, st):
        if i >= j:
            yield from self._normalise_dict(pairs, st, j + 1)
            return
        for st2, b in self.truth(st, self.equal(_unhash(pairs[i][0]), _unhash(pairs[j][0]))):
            if b:
                merged = list(pairs)
                merged[i] = (pairs[i][0], pairs[j][1])
                del merged[j]
                yield from self._normalise_dict(merged, st2, j)
            else:
                yield from self._merge_into(pairs, j, i + 1, st2)

    # ---- calls ---------------------------------------------------------------------------------------------------------
    def _call_kw(self, kws, i, acc, f, args, src_name, st, frame):
        if i < len(kws) and kws[i].arg is None:
            for st2, v in self.ev(kws[i].value, st, frame):
                if isinstance(v, Exc):
                    yield st2, v
                    continue
                acc2 = dict(acc)
                if isinstance(v, dict):
                    acc2.update({_unhash(k): x for k, x in v.items()})
                else:
                    acc2["**"] = v  # opaque mapping: handed to the native as is
                yield from self._call_kw(kws, i + 1, acc2, f, args, src_name, st2, frame)
            return
        yield from super()._call_kw(kws, i, acc, f, args, src_name, st, frame)

    def apply(self, f, args: list, kwargs: dict, st: State, src_name: str = ""):
        if isinstance(f, SV) and self.sv_call is not None:
            yield from self.sv_call(self, st, f, args, kwargs)
            return
        yield from super().apply(f, args, kwargs, st, src_name)

    # ---- helpers for contracts -----------------------------------------------------------------------------------------
    def interpret(self, real_function):
        """A native that interprets the real function's source (used for methods reached through dunder protocols)."""

        def h(ex, st, args, kwargs):
            for st2, _kind, val in ex.call_function(real_function, st, list(args), dict(kwargs)):
                yield st2, val

        return h

    def singledispatch(self, dispatcher, arg_index: int):
        """A native for a functools.singledispatch(method): the REAL registry picks the implementation from the declared
        dynamic type of the dispatch argument; the chosen implementation is interpreted from its source."""

        def h(ex, st, args, kwargs):
            impl = dispatcher.dispatch(ex.type_of(args[arg_index]))
            for st2, _kind, val in ex.call_function(impl, st, list(args), dict(kwargs)):
                yield st2, val

        return h


# ---- natives -------------------------------------------------------------------------------------------------------------
def n_set(ex, st, args, kwargs):
    if not args:
        yield st, set()
        return
    yield st, {_hashable(x) for x in ex.concrete_seq(args[0], st)}


def n_reversed(ex, st, args, kwargs):
    yield st, list(reversed(ex.concrete_seq(args[0], st)))


def n_isinstance(ex, st, args, kwargs):
    v, cls = args
    if isinstance(v, (SV, Rec)):
        t = ex.type_of(v)
        if t is object:
            raise Unsupported(f"isinstance on an object without a declared type: {v!r}")
        yield st, issubclass(t, cls)
    else:
        yield st, isinstance(v, cls)


def n_dict_items(ex, st, args, kwargs):
    yield st, [(_unhash(k), v) for k, v in args[0].items()]


def n_dict_values(ex, st, args, kwargs):
    yield st, list(args[0].values())


def n_dict_keys(ex, st, args, kwargs):
    yield st, [_unhash(k) for k in args[0]]


def n_dict_get(ex, st, args, kwargs):
    d, key = args[0], args[1]
    default = args[2] if len(args) > 2 else kwargs.get("default")
    symbolic = is_sym(key) or any(isinstance(k, _HK) for k in d)
    if not symbolic:
        yield st, d.get(key, default)
        return
    for st2, v in ex.dict_lookup(d, key, st):
        yield st2, (default if v is MISSING else v)


def n_warning(ex, st, args, kwargs):
    """logging.Logger.warning: no effect on the program state; recorded on the ghost trace."""
    st.trace.append("warning")
    yield st, None


def conj(cs):
    cs = list(cs)
    return z3.And(*cs) if cs else z3.BoolVal(True)


def pc_of(st: State):
    return conj(st.pc)


def term(v, ex: Executor):
    """z3 Obj term of a value (SV, Rec with identity, concrete)."""
    return ex.as_obj(v)
