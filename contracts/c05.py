"""C05 — spin alignment never changes a single-topology intensity (work in progress: clause 2 first)."""

from __future__ import annotations

from contracts.c05_spin import build_spin_range
from vlib.core import Check

LEVEL = "proof"
ENGINE = "E3 pyvc"
TECHNIQUE = "contract-based deductive verification: symbolic execution of the real function's AST with a loop invariant, VCs discharged by z3"
CLAIM = "create_spin_range never raises and returns exactly -s..s in unit steps (0 removed iff no_zero_spin and more than one element), for every 2s in N"
NOTE = "float/Decimal treated as mathematical reals (A-arith); assumed contracts of list.append/list.remove"


def build(chk: Check) -> None:
    chk.trust("z3 5.1.0 unsat answers")
    chk.assume("A-arith: float / Decimal arithmetic is exact real arithmetic (exact for the half-integers that occur)")
    build_spin_range(chk)
