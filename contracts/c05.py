"""C05 — spin alignment never changes a single-topology intensity (work in progress: clause 2 first)."""

from __future__ import annotations

from contracts.c05_align import build_alignment, inner_pools, rotation_pools, wigner_unitarity_lemmas
from contracts.c05_spin import build_spin_range
from vlib.core import Check

LEVEL = "proof"
ENGINE = "E3 pyvc + E1 exprvc"
TECHNIQUE = (
    "contract-based deductive verification: E3 symbolic execution of create_spin_range with a loop invariant; E1: the alignment matrix read off the real aligned "
    "amplitude is proved unitary entrywise for all angles by z3 (per enumerated single-topology reaction), D^j unitarity lemmas"
)
CLAIM = (
    "create_spin_range never raises and returns exactly -s..s in unit steps for every 2s in N (all inputs, loop invariant). For every enumerated single-topology reaction "
    "with complete helicity sets and each of axis-angle / DPD reference 1..3, the matrix M of the real aligned amplitude (coefficients of the amplitude symbols) satisfies "
    "M^dagger M = 1 for all rotation angles, hence aligned intensity = unaligned intensity for all amplitude values at every event; D^j is unitary for j <= 5/2."
)
NOTE = (
    "Structural enumeration (the bound): 9 single-topology zoo reactions (spins 0, 1/2, 1, 3/2; massless photon, massless neutrino) x alignments; within each, angles and amplitudes are "
    "unbounded. float/Decimal as mathematical reals (A-arith); assumed contracts of list.append/list.remove; SymPy's Rotation.d explicit formulas are not trusted: "
    "their unitarity is an obligation. Unitarity is proved for ALL angle values (stronger than the statement); a refuted entry counts as a violation only if the replay "
    "on physical events (real kinematic-variable definitions evaluated on generated four-momenta) reproduces aligned != unaligned."
)


def build(chk: Check) -> None:
    chk.trust("z3 5.1.0 unsat answers")
    chk.assume("A-arith: float / Decimal arithmetic is exact real arithmetic (exact for the half-integers that occur)")
    build_spin_range(chk)
    rotation_pools(chk)
    inner_pools(chk)
    wigner_unitarity_lemmas(chk)
    build_alignment(chk)
