"""C16 — perform_cached_doit returns doit(expr) whatever the cache directory has seen.

Under contract: ampform.sympy.perform_cached_doit; ampform.sympy._cache.get_readable_hash, _to_bytes,
_get_python_hash_seed (interpreted from their source, inlined).

Model (E3).  The file system is ghost state of the symbolic execution: st.ghost["fs"] is a z3 array  file name -> Content,
Content = Absent | Complete(v) | Prefix(v, n) | Other.  Every file-system call of the real function is a native with the
assumed contract of the dependency (listed below) and is one *atomic step*; the steps are recorded while the AST is
executed (they are not hand-listed), and each one yields an obligation  {Inv} step {Inv}.

  Inv(fs)  =  for every name k of the form <dir>/<key>.pkl:  fs[k] = Absent  or  fs[k] = Complete(v) and Good(k, v)
  Good(k,v) = v is a pair (e', u) with u = doit(e')                                  [self-describing record]
            or v is not a tuple and v = doit(e0) for some e0 that some configuration of this function maps to the name k
                                                                                      [legacy record: bare unfolding]
Rely/guarantee: between any two steps of this call the environment (other processes running this function, including
ones that were killed) may change the file system arbitrarily as long as it preserves Inv, does not delete a *.pkl file
and leaves this call's own temporary files alone; the executor therefore havocs the ghost file system before every step
and assumes exactly that.  Each step of this function is shown to guarantee the same.  Hence one obligation per step covers
every crash point (a crash is "stop after step s": the state then satisfies Inv) and every interleaving of any number of
callers; there is no bound on the history.  At the read: Inv and `exists` => returned value = doit(expr); the value read is
related to `expr` only through what the code checks, so with key = sha256(str(expr)) or hash(expr) this needs the key to be
injective -- it is not (str and hash are functions, not injective; sha256 is assumed injective), and the obligation fails.
`never raises because of the directory's contents` is checked without assuming Inv (arbitrary content of every file).
"""

from __future__ import annotations

import json
import os
import subprocess
import sys

import z3

import ampform.sympy as AS
from ampform.sympy import _cache as AC
from contracts.e3x import XExecutor, run_guarded
from vlib.core import Check
from vlib.pyvc import Exc, Obj, Rec, SV, State

LEVEL = "proof"
ENGINE = "E3 pyvc + E5 harness"
TECHNIQUE = (
    "contract-based deductive verification: symbolic execution (E3) of the real source of perform_cached_doit with "
    "get_readable_hash/_to_bytes/_get_python_hash_seed inlined; the file system is ghost state (array name -> Absent|Complete|"
    "Prefix|Other), every file-system call is an atomic step with an assumed contract, one Hoare obligation {Inv} step {Inv} per "
    "step plus read/miss/exception postconditions, rely/guarantee for crashes and concurrency; z3 (QF_UF + arrays + datatypes); "
    "every refutation replayed on the real function in a temporary directory (subprocess per PYTHONHASHSEED setting)"
)
CLAIM = (
    "For every expression, every cache_directory argument kind, both branches of the key computation (PYTHONHASHSEED unset: "
    "sha256(str(expr)); set: hash(expr)) and every history of the directory produced by any number of concurrent or killed callers: "
    "each atomic file-system step of the real function preserves Inv (every <key>.pkl is absent or a complete, self-describing or "
    "legacy record), the value returned on a cache hit equals doit(expr), on a miss equals doit(expr), and no exception escapes for "
    "any content of the directory. On the pinned tree the read obligation fails for both key branches (equal str / equal hash) and "
    "open(filename,'wb') and pickle.dump break Inv (torn file); all replayed."
)
NOTE = (
    "Rely/guarantee: the ghost file system is havocked before every step under the rely (Inv, no *.pkl deleted, own temporary files "
    "untouched), and every step is shown to guarantee it, so the per-step obligations cover all crash points and interleavings without "
    "a bound. Assumed contracts: Path.exists/mkdir, open('wb') truncates at that step, pickle.dump makes prefixes visible, pickle.load "
    "returns v on Complete(v) and raises EOFError/UnpicklingError otherwise, os.replace atomic, tempfile.mkstemp returns a fresh name "
    "owned by the caller, doit/str/hash functions (not injective), sha256 injective, utf-8 encoding, hexdigest and the f-string templates "
    "injective, == on SymPy objects is structural equality. Not modelled: fsync ordering on power loss, NFS rename semantics, "
    "permission errors, a directory path that is a file. Scenario runs on the real function are bounded instances."
)

F = "ampform.sympy.perform_cached_doit"
FK = "ampform.sympy._cache.get_readable_hash"

# ------------------------------------------------------------------------------------------------
# sorts and specification functions
# ------------------------------------------------------------------------------------------------
Content = z3.Datatype("Content")
Content.declare("Absent")
Content.declare("Complete", ("val", Obj))
Content.declare("Prefix", ("pval", Obj), ("n", z3.IntSort()))
Content.declare("Other")
Content = Content.create()
FSS = z3.ArraySort(Obj, Content)

DOIT = z3.Function("doit", Obj, Obj)
STR = z3.Function("str", Obj, Obj)
HASH = z3.Function("hash", Obj, Obj, z3.IntSort())  # hash(seed setting, object)
ENC = z3.Function("encode", Obj, Obj)
SHA = z3.Function("sha256", Obj, Obj)
HEX = z3.Function("hexdigest", Obj, Obj)
ISDIGIT = z3.Function("isdigit", Obj, z3.BoolSort())
INTOF = z3.Function("int_of_str", Obj, z3.IntSort())
JOIN = z3.Function("path_join", Obj, Obj, Obj)
PATH = z3.Function("Path", Obj, Obj)
ISTUPLE = z3.Function("isinstance:tuple", Obj, z3.BoolSort())
LEN = z3.Function("len", Obj, z3.IntSort())
GETITEM = z3.Function("getitem", Obj, Obj, Obj)
ORG = z3.Function("origin", Obj, Obj, Obj)  # Skolem: the expression a legacy record was computed from
CFG = z3.Function("writer_seed", Obj, Obj, Obj)  # Skolem: the PYTHONHASHSEED setting of its writer
BOXI = z3.Function("box_int", z3.IntSort(), Obj)
NONEV = z3.Const("no_data", Obj)
EXPR = z3.Const("expr", Obj)
SEED = z3.Const("env_PYTHONHASHSEED", Obj)
PYNONE = z3.Const("py:NoneType:None", Obj)
PY0 = z3.Const("py:int:0", Obj)
PY1 = z3.Const("py:int:1", Obj)

INJECTIVE = {"path_join", "hexdigest", "sha256", "encode", "box_int", "Path"}  # + every f-string template "fmt:..."
NATIVE_TEXTS = [
    "Path(x) / name: path construction is injective in the name (names carry no separators)",
    "Path.mkdir(exist_ok=True, parents=True): changes no file content (directory path is a directory or absent)",
    "Path.exists(): true iff the file is not Absent at that step",
    "open(name,'wb'): creates/truncates the file AT THAT STEP (content Prefix(no_data,0) = empty), returns a handle",
    "open(name,'rb'): raises FileNotFoundError iff the file is Absent at that step",
    "pickle.dump(v,f): the file holds Prefix(v,n) for an arbitrary n (a crash may stop at any prefix); the handle's close makes it Complete(v)",
    "pickle.load(f): returns v on Complete(v); raises EOFError on an empty file and UnpicklingError on any other incomplete/foreign content",
    "os.replace(src,dst): atomically dst := content of src, src := Absent; FileNotFoundError iff src is Absent",
    "tempfile.mkstemp(dir,suffix): creates an empty file under a fresh name with that suffix which no other process touches; os.fdopen(fd,'wb') is a handle on it",
    "doit(): a function of the expression; an unfolded expression is not a tuple",
    "str(), hash() under a given PYTHONHASHSEED: functions of the object, NOT injective",
    "hashlib.sha256: assumed injective (collision resistance); bytes.hex/hexdigest, str.encode(utf-8), the f-string templates "
    "'{}.pkl' and 'pythonhashseed-{}{:+}' are injective; a hex digest never has the form 'pythonhashseed-...'",
    "os.environ.get('PYTHONHASHSEED', ''): a string (never None), a function of the process configuration",
    "tuples: isinstance((a,b),tuple), len((a,b)) = 2, (a,b)[0] = a, (a,b)[1] = b; == on SymPy objects is structural equality",
    "get_system_cache_directory(), importlib.metadata.version, logging calls: pure (A-pure)",
]


def is_pkl(k) -> bool | None:
    """Is the name term of the form <dir>/<...>.pkl? Decided from the f-string template / mkstemp suffix that built it."""
    if z3.is_app(k) and k.decl().name() == "path_join":
        leaf = k.arg(1)
        nm = leaf.decl().name() if z3.is_app(leaf) else ""
        if nm.startswith("fmt:"):
            return nm.endswith(".pkl")
    if z3.is_const(k) and str(k).startswith("tmpname"):
        return str(k).split("|")[1].endswith(".pkl") if "|" in str(k) else False
    return None


def pkl_term(k):
    v = is_pkl(k)
    return z3.BoolVal(v) if v is not None else z3.Function("is_pkl", Obj, z3.BoolSort())(k)


def consts_of(t, acc=None):
    acc = set() if acc is None else acc
    if z3.is_const(t) and t.decl().kind() == z3.Z3_OP_UNINTERPRETED:
        acc.add(str(t))
    for c in t.children():
        consts_of(c, acc)
    return acc


def unify(t1, t2, out):
    """Ground instances of the injectivity / disjointness facts along two name terms."""
    if t1.eq(t2) or not (z3.is_app(t1) and z3.is_app(t2)):
        return
    n1, n2 = t1.decl().name(), t2.decl().name()
    inj1 = n1 in INJECTIVE or n1.startswith("fmt:")
    if n1 == n2 and inj1 and t1.num_args() == t2.num_args() and t1.num_args() > 0:
        out.append(z3.Implies(t1 == t2, z3.And(*[a == b for a, b in zip(t1.children(), t2.children())])))
        for a, b in zip(t1.children(), t2.children()):
            unify(a, b, out)
    elif {n1, n2} == {"hexdigest", "fmt:pythonhashseed-{}{:+}"}:
        out.append(t1 != t2)


class Keys:
    """The key branches of the function (configuration conditions, name term), collected from the executed paths."""

    def __init__(self):
        self.branches = []  # (conds, name)

    def add(self, conds, name):
        if not any(name.eq(n) for _, n in self.branches):
            self.branches.append((list(conds), name))

    def wrote_as(self, k, e0, cfg0, out):
        ds = []
        for conds, name in self.branches:
            sub = [(EXPR, e0), (SEED, cfg0)]
            nm = z3.substitute(name, *sub)
            unify(nm, k, out)
            ds.append(z3.And(*[z3.substitute(c, *sub) for c in conds], nm == k))
        return z3.Or(*ds) if ds else z3.BoolVal(False)


def good(k, v, keys: Keys, out, witness=None):
    """Good(k, v). In a hypothesis the legacy record's origin is Skolemised (ORG, CFG); in a claim the writer is the witness."""
    pair = z3.And(ISTUPLE(v), LEN(v) == 2, GETITEM(v, PY1) == DOIT(GETITEM(v, PY0)))
    e0, c0 = (ORG(k, v), CFG(k, v)) if witness is None else witness
    legacy = z3.And(z3.Not(ISTUPLE(v)), v == DOIT(e0), keys.wrote_as(k, e0, c0, out))
    return z3.Or(pair, legacy)


def content_ok(k, c, keys, out, witness=None):
    return z3.Implies(pkl_term(k), z3.Or(c == Content.Absent, z3.And(Content.is_Complete(c), good(k, Content.val(c), keys, out, witness))))


# ------------------------------------------------------------------------------------------------
# natives
# ------------------------------------------------------------------------------------------------
_FRESH = [0]


def fresh_id() -> int:
    _FRESH[0] += 1
    return _FRESH[0]


def _name_of(ex, p):
    if isinstance(p, Rec) and p.cls_name == "Path":
        return p.attrs["t"]
    if isinstance(p, SV) and p.sort == "obj":
        return p.t
    return ex.as_obj(p)


def interfere(ex, st, *new_names):
    """Environment step (rely): the file system changes arbitrarily between two atomic steps of this call."""
    names = st.ghost.setdefault("names", [])
    for k in new_names:
        if not any(k.eq(x) for x in names):
            names.append(k)
    old = st.ghost["fs"]
    new = z3.Const(f"fs!{fresh_id()}", FSS)
    for k in names:
        if any(k.eq(o) for o in st.ghost.get("own", [])):
            st.pc.append(new[k] == old[k])
        elif ex.mode == "inv":
            st.pc.append(z3.Implies(z3.And(pkl_term(k), old[k] != Content.Absent), new[k] != Content.Absent))
            b = z3.Bool(f"Inv!{fresh_id()}")  # Inv at k for the havocked file system; defined in build() once all key branches are known
            st.pc.append(b)
            ex.inv_defs.append((b, new, k))
    st.ghost["fs"] = new
    return new


def record(ex, st, label, changes, pre):
    st.ghost.setdefault("steps", []).append({"label": label, "pc": list(st.pc), "pre": pre, "changes": changes})


def tag_of(k) -> str:
    v = is_pkl(k)
    return "<key>.pkl" if v else ("<tmp>" if v is False else "<file>")


def n_path(ex, st, args, kwargs):
    (x,) = args
    if isinstance(x, Rec) and x.cls_name == "Path":
        yield st, x
    else:
        yield st, Rec("Path", {"t": PATH(ex.as_obj(x))})


def b_path_div(ex, a, b, st):
    return Rec("Path", {"t": JOIN(a.attrs["t"], ex.as_obj(b))})


def n_with_suffix(ex, st, args, kwargs):
    """Path.with_suffix / with_name: a name that is a FUNCTION of the original path (so every caller computing it for the
    same key gets the same file: it is NOT owned by this call, unlike a tempfile.mkstemp name)."""
    p, suffix = args[0], args[1]
    if not isinstance(suffix, str):
        raise Unsupported("with_suffix with a symbolic suffix")
    f = z3.Function(f"fmt:with_suffix{suffix}", Obj, Obj)
    yield st, Rec("Path", {"t": JOIN(z3.Const("derived_dir", Obj), f(p.attrs["t"]))})


def n_mkdir(ex, st, args, kwargs):
    fs = interfere(ex, st)
    record(ex, st, "Path.mkdir(exist_ok=True; parents=True)", [], fs)
    yield st, None


def n_exists(ex, st, args, kwargs):
    k = _name_of(ex, args[0])
    fs = interfere(ex, st, k)
    record(ex, st, f"Path.exists({tag_of(k)})", [], fs)
    st.ghost.setdefault("lookups", []).append((list(st.pc), k))
    yield st, SV(fs[k] != Content.Absent, "bool")


def n_open(ex, st, args, kwargs):
    p, mode = args[0], (args[1] if len(args) > 1 else kwargs.get("mode", "r"))
    k = _name_of(ex, p)
    fs = interfere(ex, st, k)
    if "w" in mode:
        post = z3.Store(fs, k, Content.Prefix(NONEV, 0))
        record(ex, st, f"open({tag_of(k)};'{mode}')", [(k, Content.Prefix(NONEV, 0))], fs)
        st.ghost["fs"] = post
        yield st, Rec("File", {"name": k, "mode": mode, "data": None})
        return
    record(ex, st, f"open({tag_of(k)};'{mode}')", [], fs)
    for st2, absent in ex.truth(st, SV(fs[k] == Content.Absent, "bool")):
        if absent:
            yield st2, Exc("FileNotFoundError", (), "open")
        else:
            yield st2, Rec("File", {"name": k, "mode": mode, "data": None})


def n_enter(ex, st, args, kwargs):
    yield st, args[0]


def n_exit(ex, st, args, kwargs):
    f = args[0]
    if "w" in f.attrs["mode"] and f.attrs.get("data") is not None:
        k, v = f.attrs["name"], f.attrs["data"]
        fs = interfere(ex, st, k)
        record(ex, st, f"close({tag_of(k)}) after pickle.dump", [(k, Content.Complete(v))], fs)
        st.ghost["fs"] = z3.Store(fs, k, Content.Complete(v))
    yield st, None


def n_dump(ex, st, args, kwargs):
    obj, f = args[0], args[1]
    v = ex.as_obj(obj)
    if z3.is_app(v) and v.decl().name() == "seq2":
        st.pc += [ISTUPLE(v), LEN(v) == 2, GETITEM(v, PY0) == v.arg(0), GETITEM(v, PY1) == v.arg(1)]
    k = f.attrs["name"]
    fs = interfere(ex, st, k)
    n = z3.Int(f"written!{fresh_id()}")
    st.pc.append(n >= 0)
    record(ex, st, f"pickle.dump(...) into {tag_of(k)}", [(k, Content.Prefix(v, n))], fs)
    st.ghost["fs"] = z3.Store(fs, k, Content.Prefix(v, n))
    f.attrs["data"] = v
    yield st, None


def n_load(ex, st, args, kwargs):
    f = args[0]
    k = f.attrs["name"]
    fs = interfere(ex, st, k)
    record(ex, st, f"pickle.load({tag_of(k)})", [], fs)
    c = fs[k]
    for st2, complete in ex.truth(st, SV(Content.is_Complete(c), "bool")):
        if complete:
            st2.ghost["loaded"] = (k, Content.val(c))
            yield st2, SV(Content.val(c), "obj")
            continue
        for st3, empty in ex.truth(st2, SV(z3.And(Content.is_Prefix(c), Content.n(c) == 0), "bool")):
            yield st3, Exc("EOFError" if empty else "UnpicklingError", (), "pickle.load")


def n_mkstemp(ex, st, args, kwargs):
    suffix = kwargs.get("suffix", "") or ""
    fs = interfere(ex, st)
    k = z3.Const(f"tmpname!{fresh_id()}|{suffix if isinstance(suffix, str) else '?'}", Obj)
    st.pc.append(fs[k] == Content.Absent)
    for other in st.ghost.get("names", []):
        st.pc.append(k != other)
    st.ghost.setdefault("names", []).append(k)
    st.ghost.setdefault("own", []).append(k)
    record(ex, st, f"tempfile.mkstemp(suffix={suffix!r})", [(k, Content.Prefix(NONEV, 0))], fs)
    st.ghost["fs"] = z3.Store(fs, k, Content.Prefix(NONEV, 0))
    yield st, (Rec("fd", {"name": k}), SV(k, "obj"))


def n_fdopen(ex, st, args, kwargs):
    fd, mode = args[0], (args[1] if len(args) > 1 else "r")
    yield st, Rec("File", {"name": fd.attrs["name"], "mode": mode, "data": None})


def n_replace(ex, st, args, kwargs):
    src, dst = _name_of(ex, args[0]), _name_of(ex, args[1])
    fs = interfere(ex, st, src, dst)
    for st2, absent in ex.truth(st, SV(fs[src] == Content.Absent, "bool")):
        if absent:
            yield st2, Exc("FileNotFoundError", (), "os.replace")
            continue
        c = fs[src]
        record(ex, st2, f"os.replace({tag_of(src)} -> {tag_of(dst)})", [(dst, c), (src, Content.Absent)], fs)
        st2.ghost["fs"] = z3.Store(z3.Store(fs, dst, c), src, Content.Absent)
        yield st2, None


def n_isinstance(ex, st, args, kwargs):
    o, cls = args
    if isinstance(o, Rec):
        names = [c.__name__ for c in (cls if isinstance(cls, tuple) else (cls,))]
        yield st, o.cls_name in names
    elif isinstance(o, SV) and o.sort == "obj":
        nm = cls.__name__ if isinstance(cls, type) else str(cls)
        fn = ISTUPLE if cls is tuple else z3.Function(f"isinstance:{nm}", Obj, z3.BoolSort())
        yield st, SV(fn(o.t), "bool")
    elif isinstance(o, SV):
        yield st, False
    else:
        yield st, isinstance(o, cls)


def n_len(ex, st, args, kwargs):
    (v,) = args
    if isinstance(v, SV) and v.sort == "obj":
        yield st, SV(LEN(v.t), "int")
    else:
        yield st, len(v)


def n_str(ex, st, args, kwargs):
    (v,) = args
    yield st, (SV(STR(ex.as_obj(v)), "obj") if isinstance(v, (SV, Rec)) else str(v))


def n_hash(ex, st, args, kwargs):
    yield st, SV(HASH(SEED, ex.as_obj(args[0])), "int")


def n_int(ex, st, args, kwargs):
    (v,) = args
    if isinstance(v, SV) and v.sort == "obj":
        yield st, SV(INTOF(v.t), "int")
    elif isinstance(v, SV):
        yield st, v
    else:
        yield st, int(v)


def n_environ_get(ex, st, args, kwargs):
    st.pc.append(SEED != PYNONE)
    yield st, SV(SEED, "obj")


def _uf1(fn):
    def h(ex, st, args, kwargs):
        yield st, SV(fn(ex.as_obj(args[0])), "obj")

    return h


def n_isdigit(ex, st, args, kwargs):
    yield st, SV(ISDIGIT(args[0].t), "bool")


def n_none(ex, st, args, kwargs):
    yield st, None


def n_opaque(name):
    def h(ex, st, args, kwargs):
        yield st, SV(z3.Const(name, Obj), "obj")

    return h


def executor(mode: str) -> XExecutor:
    import pickle

    ex = XExecutor("c16")
    ex.mode = mode  # "inv": rely on Inv between steps; "any": arbitrary directory contents at every step
    ex.inv_defs = []
    ex.allowed_real_calls = False
    ex.exc_modules = [pickle]
    ex.natives.update({
        "Path": n_path, "Path.mkdir": n_mkdir, "Path.with_suffix": n_with_suffix, "Path.with_name": n_with_suffix, "Path.exists": n_exists, "open": n_open,
        "File.__enter__": n_enter, "File.__exit__": n_exit,
        "Path.open": n_open, "Path.replace": n_replace, "Path.rename": n_replace,  # method spellings of open(path, mode) / os.replace(path, target)
        "pickle.dump": n_dump, "pickle.load": n_load, "tempfile.mkstemp": n_mkstemp, "os.fdopen": n_fdopen, "os.replace": n_replace,
        "isinstance": n_isinstance, "len": n_len, "str": n_str, "hash": n_hash, "int": n_int, "os.environ.get": n_environ_get,
        "hashlib.sha256": _uf1(SHA), "obj.hexdigest": _uf1(HEX), "obj.encode": _uf1(ENC), "obj.isdigit": n_isdigit, "obj.doit": _uf1(DOIT),
        "_warn_about_unsafe_hash": n_none, "_LOGGER.warning": n_none, "_LOGGER.info": n_none, "_LOGGER.debug": n_none,
        "get_system_cache_directory": n_opaque("system_cache_dir"), "version": n_opaque("sympy_version"),
        "pickle.dumps": _uf1(z3.Function("pickle.dumps", Obj, Obj)),
    })
    ex.binops[("Path", "Div")] = b_path_div
    # values known to be str: results of hexdigest() and of string templates (what get_readable_hash returns)
    ex.is_string = lambda sv: z3.is_app(sv.t) and (sv.t.decl().name().startswith("fmt:") or sv.t.decl().name() in {"hexdigest", "str"})
    # Path.parent: the directory part, an uninterpreted function of the path (mkstemp's `dir=` does not enter the contract: the name it
    # returns is fresh in any directory)
    ex.rec_props = {("Path", "parent"): lambda e, o, st_: Rec("Path", {"t": z3.Function("path_parent", Obj, Obj)(o.attrs["t"])})}
    ex.inline |= {AC.get_readable_hash, AC._to_bytes, AC._get_python_hash_seed}
    return ex


VARIANTS = {"Path": lambda: Rec("Path", {"t": z3.Const("cache_dir", Obj)}), "None": lambda: None, "str": lambda: SV(z3.Const("cache_dir_str", Obj), "obj")}


def run_all(mode: str, tier: str):
    """Execute the real perform_cached_doit for every kind of cache_directory argument. Returns (paths, executor list, message)."""
    paths, exs = [], []
    for vname, mk in VARIANTS.items():
        ex = executor(mode)
        st = State()
        st.ghost["fs"] = z3.Const("fs0", FSS)
        st.pc.append(z3.Function("isinstance:Expr", Obj, z3.BoolSort())(EXPR))  # requires: unevaluated_expr is a sp.Expr
        if vname == "str":
            st.pc.append(z3.Not(z3.Function("isinstance:Path", Obj, z3.BoolSort())(z3.Const("cache_dir_str", Obj))))
            st.pc.append(z3.Const("cache_dir_str", Obj) != PYNONE)
        outs, msg = run_guarded(ex, AS.perform_cached_doit, [SV(EXPR, "obj"), mk()], st=st)
        if outs is None:
            return None, exs, f"[cache_directory: {vname}] {msg}"
        for o in outs:
            paths.append((vname, ex, o))
        exs.append(ex)
    return paths, exs, ""


def resolve_inv(paths, exs, keys: Keys):
    """Definitions of the Inv placeholders (Inv at a name, for the havocked file system) once all key branches are known."""
    defs, inst = [], []
    for ex in exs:
        for b, fs, k in ex.inv_defs:
            defs.append(b == content_ok(k, fs[k], keys, inst))
    return defs, inst


def key_branches(paths) -> Keys:
    keys = Keys()
    allowed = {"expr", "env_PYTHONHASHSEED"}
    for _, _, o in paths:
        for pc, k in o.st.ghost.get("lookups", []):
            if is_pkl(k):
                conds = [c for c in pc if consts_of(c) and consts_of(c) <= allowed and "isinstance:Expr" not in str(c)]
                keys.add(conds, k)
    return keys


def branch_label(name) -> str:
    s = str(name)
    if "sha256" in s and "hash(" not in s:
        return "key=sha256(str(expr)); PYTHONHASHSEED unset"
    if "hash(" in s and "sha256" not in s:
        return "key=hash(expr); PYTHONHASHSEED set"
    return "key=other"


# ------------------------------------------------------------------------------------------------
# the real function in a temporary directory (replays and bounded instances); one subprocess per PYTHONHASHSEED setting
# ------------------------------------------------------------------------------------------------
SCENARIO_SRC = r'''
import json, os, pickle, shutil, sys, tempfile, types, logging
logging.disable(logging.CRITICAL)
import sympy as sp
import ampform.sympy as AS
from ampform.sympy import perform_cached_doit, PoolSum
from ampform.sympy._cache import get_readable_hash
from ampform.dynamics import EnergyDependentWidth
from ampform.dynamics.phasespace import PhaseSpaceFactor, PhaseSpaceFactorSWave
thorough = sys.argv[1] == "thorough"
out = {"seed": os.environ.get("PYTHONHASHSEED"), "ampform": os.path.dirname(AS.__file__)}
class Killed(BaseException): pass
def fresh(): return tempfile.mkdtemp(prefix="c16-", dir="/tmp")
def call(e, d):
    try: return ("value", perform_cached_doit(e, d))
    except Exception as ex: return ("raised", f"{type(ex).__name__}: {ex}")
def pkls(d): return sorted(f for f in os.listdir(d) if f.endswith(".pkl"))
def torn(d):
    bad = []
    for f in pkls(d):
        try:
            with open(os.path.join(d, f), "rb") as h: pickle.load(h)
        except Exception as ex: bad.append(f"{f[:18]}..: {os.path.getsize(os.path.join(d, f))} bytes, {type(ex).__name__}")
    return bad
def pair(name, e1, e2, desc=""):
    d = fresh()
    try:
        r1 = call(e1, d); r2 = call(e2, d); want = e2.doit()
        ok = r2[0] == "value" and r2[1] == want
        out[name] = {"ok": ok, "input": f"{desc}perform_cached_doit({e1}) then perform_cached_doit({e2}) in one directory; str equal: {str(e1)==str(e2)}; hash equal: {hash(e1)==hash(e2)}; == : {e1==e2}; same key: {get_readable_hash(e1)==get_readable_hash(e2)}",
                     "expected": str(want), "observed": str(r2[1])}
    finally: shutil.rmtree(d, ignore_errors=True)
x, y, z = sp.symbols("x y z")
i = sp.Symbol("i")
E = PoolSum(x**i, (i, (1, 2, 3)))
# fresh miss and hit
d = fresh()
try:
    r1 = call(E, d); r2 = call(E, d)
    out["miss"] = {"ok": r1 == ("value", E.doit()), "input": f"perform_cached_doit({E}) in an empty directory", "expected": str(E.doit()), "observed": str(r1[1])}
    out["hit"] = {"ok": r2 == ("value", E.doit()) and len(pkls(d)) == 1, "input": f"second perform_cached_doit({E})", "expected": str(E.doit()), "observed": str(r2[1]), "files": pkls(d)}
finally: shutil.rmtree(d, ignore_errors=True)
# a hit must return what doit() returns also for expressions whose unfolding contains nodes that pickle rebuilds through a normalising
# constructor (an integral over a Piecewise integrand: the documented dispersion-integral use)
from ampform.sympy import UnevaluatableIntegral
from ampform.dynamics.phasespace import EqualMassPhaseSpaceFactor
xi, si, mi = sp.symbols("x s m", nonnegative=True)
DI = si * UnevaluatableIntegral(EqualMassPhaseSpaceFactor(xi, mi, mi) / (xi * (xi - si)), (xi, 4 * mi**2, sp.oo))
d = fresh()
try:
    r1 = call(DI, d); r2 = call(DI, d); want = DI.doit()
    out["hit_dispersion_integral"] = {"ok": r1 == ("value", want) and r2 == ("value", want), "input": f"perform_cached_doit({DI}) twice (miss, then hit)", "expected": sp.srepr(want)[:300],
                                      "observed": f"miss: {sp.srepr(r1[1])[:200] if r1[0] == 'value' else r1[1]}; hit: {sp.srepr(r2[1])[:200] if r2[0] == 'value' else r2[1]}"}
finally: shutil.rmtree(d, ignore_errors=True)
s, m0, w0, ma, mb = sp.symbols("s m0 Gamma0 m_a m_b", nonnegative=True)
pair("equal_str_different_phsp_factor", EnergyDependentWidth(s, m0, w0, ma, mb, 1, 1, phsp_factor=PhaseSpaceFactor), EnergyDependentWidth(s, m0, w0, ma, mb, 1, 1, phsp_factor=PhaseSpaceFactorSWave),
     "first: phsp_factor=PhaseSpaceFactor; second: phsp_factor=PhaseSpaceFactorSWave; ")
pair("equal_str_different_assumptions", PoolSum(sp.Symbol("a", real=True) * i, (i, (1, 2))), PoolSum(sp.Symbol("a", positive=True) * i, (i, (1, 2))),
     "first: Symbol('a', real=True); second: Symbol('a', positive=True); ")
pair("equal_hash_1/x_vs_1/x**2", PoolSum(x**i, (i, (-1,))), PoolSum(x**i, (i, (-2,))))
class PhspConfig:
    def __init__(self, power): self.power = power
    def factor(self, s, m1, m2): return PhaseSpaceFactor(s, m1, m2) ** self.power
cfg1, cfg2 = PhspConfig(1), PhspConfig(2)
pair("equal_str_bound_methods_of_different_objects", EnergyDependentWidth(s, m0, w0, ma, mb, 1, 1, phsp_factor=cfg1.factor), EnergyDependentWidth(s, m0, w0, ma, mb, 1, 1, phsp_factor=cfg2.factor),
     "first: phsp_factor=PhspConfig(1).factor; second: phsp_factor=PhspConfig(2).factor (same qualified name, different state); ")
# non-SymPy attributes of other kinds (the cache key cannot see them: only == on the stored expression protects the second call)
from ampform.sympy import unevaluated, argument
from typing import Any
@unevaluated
class Weighted(sp.Expr):
    x: Any
    weights: Any = argument(sympify=False)
    def evaluate(self):
        w = self.weights
        if callable(w): return w(self.x)
        if isinstance(w, dict): return sum(v * self.x**k for k, v in w.items())
        return sum(v * self.x**k for k, v in enumerate(w))
pair("attribute_dict_same_keys_other_values", Weighted(x, weights={1: 2, 2: 3}), Weighted(x, weights={1: 5, 2: 7}), "first: weights={1: 2, 2: 3}; second: weights={1: 5, 2: 7}; ")
pair("attribute_dict_other_keys", Weighted(x, weights={1: 2, 2: 3}), Weighted(x, weights={1: 2, 3: 3}), "first: weights={1: 2, 2: 3}; second: weights={1: 2, 3: 3}; ")
pair("attribute_list_other_values", Weighted(x, weights=[1, 2]), Weighted(x, weights=[1, 3]), "first: weights=[1, 2]; second: weights=[1, 3]; ")
pair("attribute_nested_list", Weighted(x, weights=[1, 2, {"a": 1}.get("a")]), Weighted(x, weights=[1, 2, 2]), "first: weights=[1, 2, 1]; second: weights=[1, 2, 2]; ")
# (closures and lambdas as attributes are outside the precondition: the record must be picklable)
# truncated file at (sampled) prefix lengths
d = fresh()
try:
    call(E, d)
    (fn,) = pkls(d); fn = os.path.join(d, fn)
    data = open(fn, "rb").read()
    lens = range(len(data)) if thorough else sorted({0, 1, len(data) // 2, len(data) - 1})
    bad = []
    for n in lens:
        with open(fn, "wb") as h: h.write(data[:n])
        r = call(E, d)
        if r != ("value", E.doit()): bad.append(f"{n} of {len(data)} bytes -> {r[1]}")
    out["truncated"] = {"ok": not bad, "input": f"<key>.pkl of {E} truncated to n bytes then perform_cached_doit", "expected": str(E.doit()), "observed": bad[:4], "lengths": len(list(lens))}
    with open(fn, "wb") as h: h.write(b"\x00not a pickle\xff" * 3)
    r = call(E, d)
    out["foreign"] = {"ok": r == ("value", E.doit()), "input": "<key>.pkl holding foreign bytes", "expected": str(E.doit()), "observed": str(r[1])}
    with open(fn, "wb") as h: pickle.dump(E.doit(), h)
    r = call(E, d)
    out["legacy_record"] = {"ok": r == ("value", E.doit()), "input": "<key>.pkl holding the bare unfolding (format of the pinned tree)", "expected": str(E.doit()), "observed": str(r[1])}
    with open(fn, "wb") as h: pickle.dump((E, E.doit()), h)
    r = call(E, d)
    out["pair_record"] = {"ok": r == ("value", E.doit()), "input": "<key>.pkl holding the pair (expression, unfolding)", "expected": str(E.doit()), "observed": str(r[1])}
finally: shutil.rmtree(d, ignore_errors=True)
# killed writer + observer: pickle.dump (the function of the pickle module itself, wherever the code under test calls it from) is
# replaced by one that looks at the directory as a concurrent reader would, writes n bytes and dies
import pickle as _pickle_mod
real_dump = _pickle_mod.dump
full = len(pickle.dumps((E, E.doit())))
kills = range(0, full, 7) if thorough else (0, 5, full // 2)
killed_bad, seen = [], []
for n in kills:
    d = fresh()
    def dump(obj, fh, *a, **k):
        seen.extend(torn(d))
        fh.write(pickle.dumps(obj)[:n]); fh.flush()
        seen.extend(torn(d))
        raise Killed()
    _pickle_mod.dump = dump
    try:
        try: perform_cached_doit(E, d)
        except Killed: pass
        finally: _pickle_mod.dump = real_dump
        r = call(E, d)
        if r != ("value", E.doit()): killed_bad.append(f"writer killed after {n} bytes -> next call: {r[1]}")
    finally:
        _pickle_mod.dump = real_dump
        shutil.rmtree(d, ignore_errors=True)
out["killed_writer"] = {"ok": not killed_bad, "input": f"perform_cached_doit({E}) killed inside pickle.dump after n bytes; then called again", "expected": str(E.doit()), "observed": killed_bad[:3], "kill_points": len(list(kills))}
out["observer"] = {"ok": not seen, "input": "directory listing taken by a concurrent reader while the writer is inside pickle.dump", "expected": "every *.pkl is a complete pickle", "observed": sorted(set(seen))[:3]}
# two writers of the SAME entry at the same time (threads of one process stand for two processes: the function keeps no process state):
# both have written their scratch file before either moves it into place
import threading
d = fresh(); gate = threading.Barrier(2, timeout=5); both_dumped = threading.Barrier(2, timeout=5); conc = []
def dump2(obj, fh, *a, **k):
    real_dump(obj, fh, *a, **k); fh.flush()
    try: both_dumped.wait()
    except threading.BrokenBarrierError: pass
def worker():
    try: gate.wait()
    except threading.BrokenBarrierError: pass
    conc.append(call(E, d))
_pickle_mod.dump = dump2
try:
    ts = [threading.Thread(target=worker) for _ in range(2)]
    [t.start() for t in ts]; [t.join(60) for t in ts]
finally:
    _pickle_mod.dump = real_dump
after = call(E, d)
bad = [r[1] for r in conc + [after] if r != ("value", E.doit())]
out["concurrent_writers_same_entry"] = {"ok": len(conc) == 2 and not bad, "input": f"two concurrent perform_cached_doit({E}) on one empty directory, both inside pickle.dump at the same time; then a third call",
                                        "expected": str(E.doit()), "observed": bad[:3] or f"{len(conc)} of 2 calls returned"}
shutil.rmtree(d, ignore_errors=True)
print("RESULT " + json.dumps(out))
'''

_SCEN: dict = {}


def scenarios(seed: str | None, tier: str = "quick") -> dict:
    key = (seed, tier)
    if key not in _SCEN:
        env = dict(os.environ)
        env.pop("PYTHONHASHSEED", None)
        if seed is not None:
            env["PYTHONHASHSEED"] = seed
        try:
            p = subprocess.run([sys.executable, "-c", SCENARIO_SRC, tier], capture_output=True, text=True, timeout=600, env=env, check=False)
            line = [ln for ln in p.stdout.splitlines() if ln.startswith("RESULT ")]
            _SCEN[key] = json.loads(line[-1][7:]) if line else {"error": (p.stderr or p.stdout)[-800:]}
        except Exception as e:  # noqa: BLE001
            _SCEN[key] = {"error": f"{type(e).__name__}: {e}"}
    return _SCEN[key]


def scen_replay(seed, names, tier="quick"):
    def rep(model=None):
        sc = scenarios(seed, tier)
        if "error" in sc:
            return {"reproduced": False, "error": sc["error"]}
        for n in names:
            r = sc.get(n)
            if r and not r["ok"]:
                return {"reproduced": True, "scenario": n, "PYTHONHASHSEED": seed, **{k: v for k, v in r.items() if k != "ok"}}
        return {"reproduced": False, "note": f"scenarios {names} behave as specified (PYTHONHASHSEED={seed})"}

    return rep


def search(model=None, tier="quick"):
    for seed in (None, "0"):
        r = scen_replay(seed, ["miss", "hit", "hit_dispersion_integral", "equal_str_different_phsp_factor", "equal_str_different_assumptions", "equal_hash_1/x_vs_1/x**2", "attribute_dict_same_keys_other_values",
                               "attribute_list_other_values", "truncated", "foreign",
                               "legacy_record", "pair_record", "killed_writer", "observer", "concurrent_writers_same_entry"], tier)()
        if r["reproduced"] or "error" in r:
            return r
    return r


# ------------------------------------------------------------------------------------------------
# build
# ------------------------------------------------------------------------------------------------
def conj(xs):
    xs = list(xs)
    return z3.And(*xs) if xs else z3.BoolVal(True)


def dedupe(forms):
    seen, out = set(), []
    for f in forms:
        h = f.hash()
        if h not in seen or not any(f.eq(g) for g in out):
            seen.add(h)
            out.append(f)
    return out


def build_key(chk: Check) -> None:
    ex = executor("inv")
    outs, msg = run_guarded(ex, AC.get_readable_hash, [SV(EXPR, "obj")], st=_key_state())
    ok = bool(outs) and all(o.kind == "return" and isinstance(o.value, SV) for o in outs)
    rep = lambda m=None: search(m, chk.tier)  # noqa: E731
    chk.struct("get_readable_hash.in_supported_subset_and_never_raises", ok, FK, witness=msg or None, lemma=True, replay=rep)
    if not ok:
        return
    sha = HEX(SHA(ENC(STR(EXPR))))
    fmt = z3.Function("fmt:pythonhashseed-{}{:+}", Obj, Obj, Obj)
    hsh = fmt(BOXI(INTOF(SEED)), BOXI(HASH(SEED, EXPR)))
    unset, isset = [], []
    for o in outs:
        pc = z3.And(*o.st.pc)
        unset.append(z3.Implies(z3.And(pc, z3.Not(ISDIGIT(SEED))), o.value.t == sha))
        isset.append(z3.Implies(z3.And(pc, ISDIGIT(SEED)), o.value.t == hsh))
    chk.smt("get_readable_hash[PYTHONHASHSEED unset or not a number].key==sha256(str(expr).encode()).hexdigest()", [], conj(unset), function=FK, lemma=True, replay=rep,
            tactics=("default",))
    chk.smt("get_readable_hash[PYTHONHASHSEED a number].key==f'pythonhashseed-{seed}{hash(expr):+}'", [], conj(isset), function=FK, lemma=True, replay=rep,
            tactics=("default",))
    det = all(consts_of(o.value.t) <= {"expr", "env_PYTHONHASHSEED"} for o in outs)
    chk.struct("get_readable_hash.key_is_a_function_of(expr;PYTHONHASHSEED)", det, FK, witness=[str(o.value.t) for o in outs], lemma=True, replay=rep)
    chk.cover("get_readable_hash.cover[PYTHONHASHSEED unset]", [z3.Or(*[z3.And(*o.st.pc, z3.Not(ISDIGIT(SEED))) for o in outs])], FK)
    chk.cover("get_readable_hash.cover[PYTHONHASHSEED set]", [z3.Or(*[z3.And(*o.st.pc, ISDIGIT(SEED)) for o in outs])], FK)


def _key_state():
    st = State()
    st.ghost["fs"] = z3.Const("fs0", FSS)
    st.pc.append(z3.Function("isinstance:Expr", Obj, z3.BoolSort())(EXPR))
    return st


def build(chk: Check) -> None:
    chk.trust("z3 5.1.0 unsat answers; the E3 executor vlib/pyvc.py with the extensions of contracts/e3x.py")
    for a in NATIVE_TEXTS:
        chk.assume("native contract: " + a)
    chk.assume("rely: between two steps other callers change the directory arbitrarily but preserve Inv, never delete a *.pkl and do not touch this call's mkstemp files; "
               "each step of this function is shown to guarantee the same (per-step obligations)")
    chk.assume("requires: unevaluated_expr is a sp.Expr; the directory path is a directory or absent; no permission errors")
    tier = chk.tier
    rep_any = lambda m=None: search(m, tier)  # noqa: E731
    build_key(chk)

    # ---- mode "inv": rely on Inv between the steps --------------------------------------------------------------
    paths, exs, msg = run_all("inv", tier)
    chk.struct("perform_cached_doit.in_supported_subset", paths is not None, F, witness=msg or None, lemma=True, replay=rep_any)
    if paths is None:
        return
    keys = key_branches(paths)
    chk.extra["e3"] = {"paths[rely on Inv]": len(paths), "key_branches": [branch_label(n) + ": " + str(n) for _, n in keys.branches]}
    chk.struct("perform_cached_doit.key_computation_has_both_branches", {branch_label(n) for _, n in keys.branches} >= {"key=sha256(str(expr)); PYTHONHASHSEED unset", "key=hash(expr); PYTHONHASHSEED set"},
               F, witness=[str(n) for _, n in keys.branches], lemma=True, replay=rep_any)
    inv_defs, inst = resolve_inv(paths, exs, keys)
    base_hyps = dedupe(inv_defs + inst) + [z3.Not(ISTUPLE(DOIT(EXPR)))]

    # steps: {Inv} step {Inv}, grouped by the step's label
    by_label: dict[str, list] = {}
    order = []
    for vname, ex, o in paths:
        for s in o.st.ghost.get("steps", []):
            if s["label"] not in by_label:
                by_label[s["label"]] = []
                order.append(s["label"])
            cl = []
            extra = []
            for k, c in s["changes"]:
                cl.append(content_ok(k, c, keys, extra, witness=(EXPR, SEED)))
                cl.append(z3.Implies(z3.And(pkl_term(k), s["pre"][k] != Content.Absent), c != Content.Absent))  # guarantee: no *.pkl deleted
            by_label[s["label"]].append(z3.Implies(z3.And(*s["pc"], *extra), conj(cl)))
    step_replays = {
        "open(<key>.pkl;'wb')": ["killed_writer", "observer"], "pickle.dump(...) into <key>.pkl": ["killed_writer", "observer"],
    }
    for label in order:
        names = step_replays.get(label, ["observer", "killed_writer", "concurrent_writers_same_entry", "hit", "miss"])
        chk.smt(f"perform_cached_doit.step[{label}].preserves_Inv", base_hyps, conj(dedupe(by_label[label])), function=F, replay=scen_replay(None, names, tier),
                tactics=("default",), note="{Inv} step {Inv} and the step deletes no *.pkl (guarantee)")
    chk.extra["e3"]["atomic_steps"] = order

    # read / miss postconditions, per key branch of the reader
    seeds = {"key=sha256(str(expr)); PYTHONHASHSEED unset": None, "key=hash(expr); PYTHONHASHSEED set": "0"}
    scen_for = {"key=sha256(str(expr)); PYTHONHASHSEED unset": ["equal_str_different_phsp_factor", "equal_str_different_assumptions"],
                "key=hash(expr); PYTHONHASHSEED set": ["equal_hash_1/x_vs_1/x**2", "equal_str_different_phsp_factor"]}
    labels = list(seeds) + sorted({branch_label(n) for _, n in keys.branches} - set(seeds))
    hit_cover, miss_cover = [], []
    for lab in labels:
        hit, miss = [], []
        for vname, ex, o in paths:
            looks = [k for _, k in o.st.ghost.get("lookups", []) if is_pkl(k)]
            if not looks or branch_label(looks[0]) != lab or o.kind != "return":
                continue
            val = o.value.t if isinstance(o.value, SV) else ex.as_obj(o.value)
            f = z3.Implies(z3.And(*o.st.pc), val == DOIT(EXPR))
            if "loaded" in o.st.ghost:
                hit.append(f)
                hit_cover.append(z3.And(*o.st.pc))
            else:
                miss.append(f)
                miss_cover.append(z3.And(*o.st.pc))
        rep = scen_replay(seeds.get(lab), scen_for.get(lab, ["hit"]), tier)
        chk.smt(f"perform_cached_doit.read.returns_doit(expr)[{lab}]", base_hyps, conj(hit), function=F, replay=rep, tactics=("default",),
                note="cache hit under Inv: the value read belongs to the requested expression")
        chk.smt(f"perform_cached_doit.miss.returns_doit(expr)[{lab}]", base_hyps, conj(miss), function=F, replay=scen_replay(seeds.get(lab), ["miss"], tier), tactics=("default",))
    raises = [z3.Not(z3.And(*o.st.pc)) for _, _, o in paths if o.kind == "raise"]
    chk.smt("perform_cached_doit.never_raises[directory satisfies Inv]", base_hyps, conj(raises), function=F, replay=scen_replay(None, ["hit", "miss", "pair_record", "legacy_record"], tier),
            tactics=("default",))
    chk.cover("perform_cached_doit.cover[cache hit]", base_hyps + [z3.Or(*hit_cover) if hit_cover else z3.BoolVal(False)], F)
    chk.cover("perform_cached_doit.cover[cache miss]", base_hyps + [z3.Or(*miss_cover) if miss_cover else z3.BoolVal(False)], F)

    # ---- mode "any": arbitrary directory contents at every step ------------------------------------------------------
    paths2, exs2, msg2 = run_all("any", tier)
    chk.struct("perform_cached_doit.in_supported_subset[arbitrary directory contents]", paths2 is not None, F, witness=msg2 or None, lemma=True, replay=rep_any)
    if paths2 is None:
        return
    chk.extra["e3"]["paths[arbitrary contents]"] = len(paths2)
    raises2 = [z3.Not(z3.And(*o.st.pc)) for _, _, o in paths2 if o.kind == "raise"]
    chk.smt("perform_cached_doit.never_raises[any content of the directory]", [], conj(raises2), function=F,
            replay=scen_replay(None, ["truncated", "foreign", "killed_writer", "legacy_record", "concurrent_writers_same_entry"], tier), tactics=("default",),
            note="no exception escapes because of the directory's contents: truncated, foreign, deleted or legacy files")
    hits2 = [z3.Implies(z3.And(*o.st.pc), (o.value.t if isinstance(o.value, SV) else ex.as_obj(o.value)) == DOIT(EXPR))
             for _, ex, o in paths2 if o.kind == "return" and "loaded" in o.st.ghost]
    chk.mustfail("selftest.read_value_is_not_doit(expr)_without_Inv", [], conj(hits2) if hits2 else z3.BoolVal(False), function=F)

    # ---- bounded: the real function in a temporary directory ------------------------------------------------------------
    for seed in (None, "0"):
        sc = scenarios(seed, tier)
        tagp = f"PYTHONHASHSEED={'unset' if seed is None else seed}"
        chk.struct(f"scenarios[{tagp}].ran_against_the_tree_under_verification", "error" not in sc and os.path.realpath(sc.get("ampform", "")) == os.path.realpath(os.path.dirname(AS.__file__)),
                   F, witness=sc.get("error") or sc.get("ampform"), lemma=True, replay=rep_any)
        for name in ("miss", "hit", "hit_dispersion_integral"):
            r = sc.get(name, {"ok": False, "observed": sc.get("error", "missing")})
            chk.struct(f"scenarios[{tagp}].{name}_returns_doit", r["ok"], F, witness=r, replay=scen_replay(seed, [name], tier), bounded=True)
        # the E3 proof assumes that == on expressions is structural equality incl. non-SymPy attributes (C14's contract): these
        # instance-level runs of the real function exercise that assumption with expressions that share str / hash / key
        for name in ("equal_str_different_phsp_factor", "equal_str_different_assumptions", "equal_hash_1/x_vs_1/x**2", "equal_str_bound_methods_of_different_objects",
                     "attribute_dict_same_keys_other_values", "attribute_dict_other_keys", "attribute_list_other_values", "attribute_nested_list"):
            r = sc.get(name, {"ok": False, "observed": sc.get("error", "missing")})
            chk.struct(f"scenarios[{tagp}].collision[{name}].second_call_returns_its_own_doit", r["ok"], F, witness=r, replay=scen_replay(seed, [name], tier), bounded=True)
        # damaged directories and concurrency, on the real function: a truncated / foreign / legacy file, a writer killed inside pickle.dump,
        # a reader listing the directory during a write, two writers of the same entry at once
        for name in ("truncated", "foreign", "legacy_record", "pair_record", "killed_writer", "observer", "concurrent_writers_same_entry"):
            r = sc.get(name, {"ok": False, "observed": sc.get("error", "missing")})
            chk.struct(f"scenarios[{tagp}].robust[{name}]", r["ok"], F, witness=r, replay=scen_replay(seed, [name], tier), bounded=True)
