"""C06 — formulate() is a pure function of (reaction, configuration).

Argument (DESIGN C06): a deterministic function can depend on history only through (a) state it reads that an earlier call
wrote, (b) iteration order of hash-based containers. E4 generates frame obligations for (a) (O-cache, O-global, reset) and
order obligations for (b) (O-order) from the package AST; E3 proves that `_HelicityModelIngredients.reset` rebinds fresh
dictionaries; the three `_order_*` converters are shown to canonicalise; and the E5 layer replays histories / hash seeds /
fresh processes on zoo reactions and compares srepr digests of all six model attributes (bounded).
"""

from __future__ import annotations

import itertools
import json
import os
import re
import subprocess
import sys
from concurrent.futures import ThreadPoolExecutor

import sympy as sp

from vlib import frames
from vlib.core import REPO, ROOT, Check
from vlib.pyvc import Executor, Rec, Unsupported

LEVEL = "other"
ENGINE = "E4 frames + E3 pyvc + E5 harness"
TECHNIQUE = "static frame/ownership and iteration-order obligations over the package AST (each refutation replayed by history / hash-seed subprocesses) plus bounded history replay"
CLAIM = (
    "No caller mutates the result of a functools-cached function, no module-level container is mutated in a function, reset() rebinds fresh dictionaries, every "
    "iteration over a set of non-int elements is sorted or covered by a listed commutativity lemma (static, over-approximate, for all histories and seeds); and on "
    "zoo reactions the six model attributes have identical srepr digests across histories, builders, PYTHONHASHSEED values and fresh processes (bounded)."
)
NOTE = (
    "A-static: syntactic analysis with name-based call resolution, no reflection / monkey-patching after import; third-party calls (qrules, SymPy) assumed "
    "deterministic given their inputs; CPython: iteration order of a set of small ints depends only on the values. The history replay is bounded by the zoo, the "
    "listed histories and the seed list."
)
F = "ampform.helicity.HelicityAmplitudeBuilder.formulate"

# Commutativity / determinism lemmas for set-iteration sites: (function, iterable text) -> reason
ORDER_LEMMAS = {
    ("ampform.helicity.HelicityModel.rename_symbols", "symbols"):
        "the set only feeds a dict used for xreplace()/.get() lookups; the renamed model's attributes pass the sorting converters",
    ("ampform.helicity.naming.HelicityAmplitudeNameGenerator.generate_amplitude_name", "node_ids"): "node ids are small ints (set order is value-determined)",
    ("ampform.helicity.naming.CanonicalAmplitudeNameGenerator.generate_amplitude_name", "node_ids"): "node ids are small ints",
    ("ampform.helicity.align.axisangle.AxisAngleAlignment.define_symbols", "wigner_rotation_ids"): "final-state ids are small ints; results go into a dict that passes the sorting converter",
    ("ampform.sympy._array_expressions.ArraySum._latex", "names"): "LaTeX printing only, singleton set (guarded by len(names) == 1)",
    ("ampform.kinematics.HelicityAdapter.__init__", "self.__topologies"): "assert-only loop, no output",
    ("ampform.kinematics.HelicityAdapter.register_topology", "self.__topologies"): "reads edge-id sets that are equal for all registered topologies (invariant enforced by this very method)",
    ("ampform.kinematics.HelicityAdapter.permutate_registered_topologies", "set(self.__topologies)"): "adds to a set: union is order-independent",
    ("ampform.kinematics.HelicityAdapter.create_expressions", "self.__topologies"):
        "dict.update per topology: independent of order iff overlapping keys have equal definitions (clause of C07, checked there); key order is canonicalised by _order_symbol_mapping",
    ("ampform.kinematics.angles.formulate_scattering_angle", "{1, 2, 3} - {state_id, sibling_id}"): "singleton set of ints",
    ("ampform.kinematics.angles.formulate_theta_hat_angle", "allowed_ids - {isobar_id, aligned_subsystem}"): "singleton set of ints",
    ("ampform.kinematics.angles.formulate_theta_hat_angle", "allowed_ids"): "set of ints {1,2,3}, error message only",
}


def _run_history(reaction: str, formalism: str, history: str, seed: int | None) -> dict:
    env = dict(os.environ)
    env["PYTHONPATH"] = f"{REPO}/src:{ROOT}"
    env["TQDM_DISABLE"] = "1"
    if seed is None:
        env.pop("PYTHONHASHSEED", None)
    else:
        env["PYTHONHASHSEED"] = str(seed)
    out = subprocess.run([sys.executable, "-m", "contracts.c06_histories", reaction, formalism, history], capture_output=True, text=True, env=env, cwd=ROOT, timeout=600, check=False)
    try:
        return json.loads(out.stdout.strip().splitlines()[-1])
    except Exception:  # noqa: BLE001
        return {"error": (out.stderr or out.stdout)[-400:]}


def _history_cases(tier: str):
    cases = [
        ("jpsi_sigmabar_sigma", "helicity", ["dpd1+stable", "dpd1,dpd1+stable", "dpd1+stable+scalar,dpd2,dpd1+stable", "plain,axis,dpd1+stable"]),
        ("jpsi_p_pbar", "helicity", ["plain", "axis,plain", "bwff,couplings,plain"]),
        ("lambdac_p_k_pi", "helicity", ["dpd2+stable", "dpd2,dpd2+stable", "plain,dpd1+stable+scalar,dpd2+stable"]),
        ("jpsi_gamma_pi0_pi0", "canonical-helicity", ["axis+stable", "axis,plain,axis+stable"]),
        ("etac_lambda_lambdabar", "helicity", ["plain", "axis,plain"]),  # amplitudes without transitions (zero-filled)
        ("jpsi_gamma_pi0_pi0", "helicity", ["@plain", "@stable,scalar,plain", "@axis+stable,couplings,plain"]),  # one builder, settings changed between calls
        ("jpsi_pi0_pip_pim", "canonical-helicity", ["@stable", "@scalar,plain,axis,stable"]),
        ("jpsi_sigmabar_sigma", "helicity", ["@parent_hel", "@plain,parent_hel", "@no_child_hel,plain,parent_hel"]),
        ("jpsi_gamma_pi0_pi0", "canonical-helicity", ["@stable", "@fail,stable", "@plain,fail,fail,stable"]),  # a formulate() that RAISES (bad configuration), then a good one  # naming flags decide which chains share a coefficient
        ("jpsi_pi0_pip_pim", "helicity", ["axis", "plain,axis"]),  # three topologies, final-state id 0: names m_01 / m_1 tie under natural sorting
        ("chic2_gamma_gamma", "helicity", ["plain", "couplings,plain", "parent_hel,plain"]),  # identical particles with spin: one amplitude per assignment of projections (label-keyed dicts)
        # every variant of the lineshape builders in ONE process: a module-level cache or constant that one variant mutates shows in the next
        ("jpsi_gamma_pi0_pi0", "canonical-helicity", ["bw", "bwsff,bw", "bwff,bwedw,nodynff,bw"]),
        ("jpsi_gamma_pi0_pi0", "canonical-helicity", ["bwff+", "bw,bwsff,bwff+", "nodynff,bwedw,bwff+"]),
    ]
    if tier == "thorough":
        cases += [
            ("jpsi_k0_sigma_pbar_N", "canonical-helicity", ["dpd1", "dpd2+stable,dpd1", "plain,dpd1"]),
            ("d1_k_k_k0", "helicity", ["dpd1+stable", "dpd1,dpd1+stable", "axis+stable,dpd1+stable"]),
            ("jpsi_pi0_pip_pim", "canonical-helicity", ["axis", "stable,scalar,axis"]),
        ]
    seeds = [0, 1, 2, 4] if tier == "quick" else [0, 1, 2, 3, 4, 5, 6, 7, None]
    return cases, seeds


def _replay_purity(tier: str = "quick"):
    """Property-level replay used by every static obligation: run the history / seed matrix on the real code."""
    cases, seeds = _history_cases(tier)
    jobs, row_of = [], {}
    for row, (reaction, formalism, hists) in enumerate(cases):
        for h in hists:
            jobs.append((reaction, formalism, h, 0))
            row_of[len(jobs) - 1] = row
        for s in seeds[1:]:
            jobs.append((reaction, formalism, hists[0], s))
            row_of[len(jobs) - 1] = row
    with ThreadPoolExecutor(max_workers=min(16, os.cpu_count() or 4)) as ex:
        res = list(ex.map(lambda j: _run_history(*j), jobs))
    by_reaction: dict = {}
    for i, (j, r) in enumerate(zip(jobs, res)):
        # one group per ROW of the case table (its first history is the reference model of the row): two rows on the same reaction and
        # formalism end in different configurations and must not be compared with each other
        by_reaction.setdefault((j[0], f"{j[1]}|row{row_of[i]}"), []).append((j, r))
    return by_reaction


def build(chk: Check) -> None:
    chk.assume("A-static: over-approximate syntactic analysis, name-based call resolution, no reflection or monkey-patching after import")
    chk.assume("qrules and SymPy are deterministic given their inputs; CPython set order of small ints is value-determined")
    chk.trust("CPython ast module; subprocess replay harness contracts/c06_histories.py")
    funcs = frames.load_package(os.path.join(REPO, "src"))
    chk.struct("package.parsed", len(funcs) > 100, F, witness=len(funcs), lemma=True)
    cache = {"result": None}

    def purity_replay(_model=None):
        if cache["result"] is None:
            cache["result"] = _replay_purity("quick")
        for (reaction, formalism), runs in cache["result"].items():
            ref = runs[0][1]
            for j, r in runs:
                if r != ref:
                    diff = [k for k in ref if r.get(k) != ref.get(k)] if "error" not in r and "error" not in ref else ["error"]
                    return {"reproduced": True, "input": {"reaction": reaction, "formalism": formalism.split("|")[0], "history": j[2], "PYTHONHASHSEED": j[3],
                                                          "reference_history": runs[0][0][2]},
                            "observed": {"attributes_that_differ": diff, "digest": r}, "expected": ref}
        return {"reproduced": False, "note": "all digests equal over the quick history/seed matrix"}

    # ---- O-cache ----
    res = frames.analyse_cache(funcs)
    chk.extra["cached_functions"] = res["cached"]
    chk.extra["cached_returning_mutable"] = res["returns_mutable"]
    chk.extra["functions_forwarding_cached_mutable"] = res["tainted"]
    chk.struct("O-cache.census_nonempty", len(res["cached"]) >= 1, F, witness=res["cached"], lemma=True)
    by_src: dict[str, list] = {}
    for v in res["violations"]:
        by_src.setdefault(v["cached_function"], []).append(v)
    for full in res["cached"]:
        short = full.split(".")[-1]
        sites = by_src.get(short, [])
        chk.struct(f"O-cache[{full}].result_never_mutated_by_callers", not sites, full, witness=sites, replay=purity_replay)
    # ---- O-cache: the key's equality must distinguish everything the result depends on ----
    # qrules' Particle leaves name / pid / latex out of == and hash (dependency), so StateTransition, State, ReactionInfo keys are blind
    # to particle NAMES: a memoised function with such a key may only return what does not carry names (ids, booleans, expressions over
    # ids). Decided from the annotations of the cached functions; a refutation is replayed with a renamed copy of a real transition.
    import ast as _ast

    BLIND, NAMED = ("StateTransition", "State", "Particle", "ReactionInfo", "TwoBodyDecay", "StateWithID"), ("State", "Particle", "StateTransition", "StateWithID", "TwoBodyDecay", "str")
    chk.assume("qrules.particle.Particle.__eq__/__hash__ ignore name, pid and latex (dependency; observed on the installed version)")
    for f in funcs:
        if not f.cached:
            continue
        params = [(_a.arg, _ast.unparse(_a.annotation) if _a.annotation else "") for _a in f.node.args.args]
        blind = [n for n, ann in params if any(re.search(rf"\b{b}\b", ann) for b in BLIND)]
        if not blind:
            continue
        ret = _ast.unparse(f.node.returns) if f.node.returns else "<unannotated>"
        carries = [b for b in NAMED if re.search(rf"\b{b}\b", ret)] or (["<unannotated>"] if f.node.returns is None else [])

        def rep_names(_m=None, f=f):
            """Two real transitions that differ in the particle names only (same quantum numbers): the second call must describe the second."""
            import importlib

            import attrs
            from vlib import zoo

            fn = getattr(importlib.import_module(f.module), f.name, None)
            r = zoo.reaction("jpsi_gamma_pi0_pi0", "helicity")
            t = r.transitions[0]
            t2 = attrs.evolve(t, states={i: attrs.evolve(st, particle=attrs.evolve(st.particle, name=st.particle.name + "#copy", latex=(st.particle.latex or "") + "'")) for i, st in t.states.items()})
            if fn is None or t != t2:
                return {"reproduced": False, "note": "not applicable (function not importable or the renamed transition is not equal to the original)"}
            try:
                node = next(iter(t.topology.nodes))
                a = fn(t, node) if len(f.node.args.args) == 2 else fn(t)
                b = fn(t2, node) if len(f.node.args.args) == 2 else fn(t2)
            except Exception as e:  # noqa: BLE001
                return {"reproduced": False, "note": f"{type(e).__name__}: {e}"[:200]}
            return {"reproduced": "#copy" not in repr(b) and "#copy" not in repr(a) and repr(a) == repr(b) and any(p.name in repr(a) for p in (s_.particle for s_ in t.states.values())),
                    "input": f"{f.full}(transition) then {f.full}(the same transition with every particle renamed to <name>#copy)", "observed": repr(b)[:300], "expected": "the result for the renamed transition carries the new names"}

        chk.struct(f"O-cache[{f.full}].key_equality_covers_what_the_result_carries", not carries, f.full,
                   witness={"name_blind_key_parameters": blind, "return_annotation": ret, "name_carrying_types_in_result": carries}, lemma=True, replay=rep_names)

    # ---- O-global ----
    g = frames.analyse_globals(funcs, os.path.join(REPO, "src"))
    chk.struct("O-global.no_module_level_container_mutated_in_functions", not g, F, witness=g, replay=purity_replay)
    # ---- O-order ----
    sites = frames.analyse_order(funcs)
    chk.extra["set_iteration_sites"] = [f"{s['in_function']} :: {s['iterable']}" for s in sites]
    for s in sites:
        key = (s["in_function"], s["iterable"])
        nm = f"O-order[{s['in_function']}::{s['iterable'].replace(',', ';')}]"
        if key in ORDER_LEMMAS:
            chk.struct(nm + ".covered_by_lemma", True, s["in_function"], witness=ORDER_LEMMAS[key], lemma=True)
        else:
            # a new unsorted iteration over a set: candidate, confirmed (or not) by the seed/history replay
            chk.struct(nm + ".sorted_or_lemma", False, s["in_function"], witness=s, replay=purity_replay, lemma=True)
    # the pools of the intensity sum: the one place where sets of Rationals reach a returned object
    top = [f for f in funcs if f.qual.endswith("__formulate_top_expression")]
    chk.struct("O-order.pools_of_intensity_are_sorted", bool(top) and not any(s["in_function"].endswith("__formulate_top_expression") for s in sites)
               and "sorted(" in "".join(__import__("ast").unparse(t.node) for t in top), F,
               witness="collect_spin_projections() returns sets of sp.Rational whose order depends on PYTHONHASHSEED", replay=purity_replay)

    # ---- reset() rebinds fresh dictionaries (E3) ----
    from ampform.helicity import _HelicityModelIngredients

    ex = Executor("reset")
    self_rec = Rec("_HelicityModelIngredients", {k: {"old": 1} for k in ("parameter_defaults", "amplitudes", "components", "kinematic_variables")}, _HelicityModelIngredients)
    olds = {k: v for k, v in self_rec.attrs.items()}
    if not hasattr(_HelicityModelIngredients, "reset"):
        chk.struct("reset.exists", False, "ampform.helicity._HelicityModelIngredients.reset", lemma=True, replay=purity_replay,
                   witness="formulate() starts from fresh ingredient dictionaries through this method; without it the start state of a call is whatever the previous call left")
    try:
        if not hasattr(_HelicityModelIngredients, "reset"):
            raise Unsupported("no reset() method")
        outs = ex.run(_HelicityModelIngredients.reset, [self_rec])
        ok = len(outs) == 1 and outs[0].kind == "return"
        fresh = ok and all(isinstance(self_rec.attrs[k], dict) and not self_rec.attrs[k] and self_rec.attrs[k] is not olds[k] for k in olds)
        distinct = ok and len({id(self_rec.attrs[k]) for k in olds}) == len(olds)
        untouched = all(v == {"old": 1} for v in olds.values())
        chk.struct("reset.rebinds_every_field_to_a_fresh_empty_dict", bool(fresh and distinct), "ampform.helicity._HelicityModelIngredients.reset", replay=purity_replay, lemma=True)
        chk.struct("reset.leaves_previous_dictionaries_untouched", bool(untouched), "ampform.helicity._HelicityModelIngredients.reset", replay=purity_replay, lemma=True)
        import attrs

        fields = [a.name for a in attrs.fields(_HelicityModelIngredients)]
        chk.struct("reset.covers_all_fields", set(fields) == set(olds), "ampform.helicity._HelicityModelIngredients.reset", witness=fields, replay=purity_replay, lemma=True)
    except Unsupported as e:
        chk.struct("reset.in_supported_subset", False, "ampform.helicity._HelicityModelIngredients.reset", witness=str(e), lemma=True, replay=purity_replay)

    # ---- converters canonicalise (all permutations of the insertion order give the same ordered mapping) ----
    from ampform import helicity as H

    a = sp.IndexedBase("A")
    samples = {
        "_order_component_mapping": {"I_{2}": 1, "A_{10}": 2, "A_{9}": 3, "I_{1}": 4},
        "_order_symbol_mapping": {sp.Symbol("m_01"): 1, sp.Symbol("m_1"): 2, sp.Symbol("phi_1^12"): 3, sp.Symbol("m_2"): 4, sp.Symbol("m_02"): 5},
        "_order_amplitudes": {a[0, 1]: 1, a[1, 0]: 2, a[-1, 0]: 3, a[0, -1]: 4},
    }
    for name, mapping in samples.items():
        conv = getattr(H, name)
        outs = {tuple(conv(dict(p)).items()) for p in itertools.permutations(mapping.items())}
        chk.struct(f"{name}.independent_of_insertion_order", len(outs) == 1, f"ampform.helicity.{name}", witness=len(outs), replay=purity_replay, bounded=True)
        once = conv(mapping)
        chk.struct(f"{name}.idempotent", list(conv(once).items()) == list(once.items()), f"ampform.helicity.{name}", replay=purity_replay, bounded=True)

    # ---- E4: ownership of containers that are mutated in place (state shared between calls through an object that outlives them) ----
    own = frames.analyse_ownership(funcs, ("",))
    chk.extra["ownership"] = [{k: r[k] for k in ("caller", "local", "callee", "fresh", "why")} for r in own]
    chk.struct("ownership.formulate_mutates_a_call_result", any(r["caller"].endswith("HelicityAmplitudeBuilder.formulate") and r["callee"] == "create_expressions" for r in own), F,
               witness=[r["caller"] for r in own][:5], lemma=True, replay=purity_replay,
               note="anchor of the analysis: formulate() deletes from / adds to the mapping it gets from the kinematics adapter")
    # one obligation per CALLEE whose result some caller mutates in place (named by the callee only: callers and locals get renamed and
    # split by refactorings); results copied at the call site (dict(...), list(...)) need nothing from the callee
    by_callee: dict[str, list] = {}
    for r in own:
        if r["wrapped_fresh"]:
            continue
        if not r["callees"]:
            chk.assume(f"external callee returns a fresh container: {r['callee']}() used in {r['caller']} (dependency, not under contract)")
            continue
        for c in r["callees"]:
            by_callee.setdefault(c, []).append(r)
    for callee, rs in sorted(by_callee.items()):
        chk.struct(f"ownership.mutated_call_result_is_fresh[{callee}]", all(r["fresh"] for r in rs), callee,
                   witness={"mutated_in": sorted({r["caller"] for r in rs}), "why": rs[0]["why"]}, lemma=True, replay=purity_replay)

    # ---- E4: containers a builder keeps in its own attributes and fills in its methods (memo tables that outlive formulate()) ----
    memo = frames.analyse_instance_containers(funcs, ("HelicityAmplitudeBuilder", "CanonicalAmplitudeBuilder", "HelicityAdapter", "_HelicityModelIngredients"))
    chk.extra["instance_containers"] = memo
    kept = [m for m in memo if not m["reset_in_formulate"]]
    chk.struct("ownership.builder_keeps_no_unreset_container_of_its_own", not kept, F, witness=kept, lemma=True, replay=purity_replay,
               note="per-formulate state lives in __ingredients (reset() at the start of formulate: obligation reset.*) and in the kinematics adapter's topology set (monotone registration, C01); "
                    "a dict/list/set bound in __init__ and filled by a method would make a later formulate() depend on an earlier one")

    # ---- E5: bounded history / seed / fresh-process replay ----
    matrix = _replay_purity(chk.tier)
    if chk.tier == "quick":
        cache["result"] = matrix
    n_runs = 0
    for (reaction, formalism), runs in matrix.items():
        ref_job, ref = runs[0]
        f = "hel" if formalism.split("|")[0] == "helicity" else "can"
        for j, r in runs:
            n_runs += 1
            tag = f"{reaction}/{f}/history={j[2].replace(',', '>')}/seed={j[3]}"
            if "error" in r:
                chk.struct(f"purity.history_runs[{tag}]", False, F, witness=r, bounded=True, replay=lambda m, j=j: {"reproduced": True, "input": j, "observed": _run_history(*j)})
                continue
            diff = [k for k in ref if r.get(k) != ref.get(k)]

            def rep(_m, j=j, ref_job=ref_job):
                a_, b_ = _run_history(*ref_job), _run_history(*j)
                d = [k for k in a_ if a_.get(k) != b_.get(k)]
                return {"reproduced": bool(d), "input": {"history": j[2], "seed": j[3], "reference": ref_job[2]}, "observed": {"differ": d}, "expected": "identical digests"}

            chk.struct(f"purity.same_model[{tag}]", not diff, F, witness={"attributes_that_differ": diff, "reference_history": ref_job[2]}, replay=rep, bounded=True)
    chk.extra["history_subprocess_runs"] = n_runs
    # engine self-test: the analysis must flag a mutation of a cached result in a synthetic module
    import ast
    import tempfile

    with tempfile.TemporaryDirectory() as d:
        os.makedirs(os.path.join(d, "ampform"))
        with open(os.path.join(d, "ampform", "m.py"), "w") as fh:
            fh.write("from functools import cache\n@cache\ndef g(x):\n    out = {}\n    return 1, out\ndef w(x):\n    return g(x)[1]\ndef user():\n    d = w(1)\n    d['k'] = 2\n"
                     "def ok():\n    d = dict(w(1))\n    d['k'] = 2\n")
        r2 = frames.analyse_cache(frames.load_package(d))
    flagged = [v["in_function"] for v in r2["violations"]]
    chk.struct("selftest.O-cache.flags_mutation_through_wrapper_and_accepts_copy", flagged == ["ampform.m.user"], F, witness=flagged, lemma=True)
