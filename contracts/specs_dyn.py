"""Contracts (functional specifications) of ampform's dynamics expression classes.

Each `@spec(C)` function is the `ensures` clause of class C written as "result = f(arguments)" over
values (`Cx` pairs of z3 reals). Whoever meets a node of class C inside another function's result uses
this spec (modular); that C's real `evaluate()` satisfies it is proved in the contract files that own the
class (C11: phase-space factors, C12: width / form factor / Blatt-Weisskopf / Hankel).

Sources of the specs (never the code): PDG 2021 "Kinematics" (49.17) for q^2, PDG "Resonances" (50.9),
(50.26)-(50.28) for rho, F_L, Gamma(s); the class docstrings for the |q^2| / ComplexSqrt variants; PDG 2018
"Resonances" p.9 for the equal-mass continuation; DLMF 10.49.6 for the spherical Hankel function.

Transcendental functions. `log` and `atan` are uninterpreted: every occurrence (in the real tree or in a
spec) becomes one *atom* = (argument value, result variables), registered per translator in `atoms(tr)`.
Nothing is known about an atom except what the contract adds as *instantiated* axioms (`Axiom` objects
built by the `ax_*` helpers below: an implication premise -> conclusion whose premise is a separate proof
obligation) and functional congruence (`congruence(tr)`: equal arguments -> equal results, A-pure).
The node is also entered in `tr.opaque` via `tr.opaque_atom`, as DEVGUIDE describes. `pi` is a real
constant with 3.14 < pi < 3.15.

Translator extensions needed by the dynamics trees live here (class `DynTr`, a subclass of `vlib.tr.Tr`):
memoised principal square roots, 1/sqrt(x) without the generic complex inverse, |w|^(2k) = (w conj w)^k,
exp(i x) for a real non-symbol x as an abstract unit pair (|exp(ix)| = 1, the only axiom about exp),
path-guarded well-definedness conditions inside Piecewise branches.
"""

from __future__ import annotations

import math
from dataclasses import dataclass
from fractions import Fraction
from typing import Any

import sympy as sp
import z3

import ampform.dynamics as DY
from ampform.dynamics import form_factor as FF
from ampform.dynamics import phasespace as PSP
from ampform.sympy.math import ComplexSqrt
from vlib.tr import CI, CONE, CZERO, ONE, ZERO, Cx, R, Tr, TrError, spec

PHSP_CLASSES = (
    PSP.PhaseSpaceFactor,
    PSP.PhaseSpaceFactorAbs,
    PSP.PhaseSpaceFactorComplex,
    PSP.PhaseSpaceFactorSWave,
    PSP.EqualMassPhaseSpaceFactor,
)

ASSUME_PI = "A-pi: pi is a real constant with 3.14 < pi < 3.15"
ASSUME_PURE = "A-pure: log / atan / undefined functions are functions of the value of their argument (congruence instances only)"


# =====================================================================================================
# per-translator registries
# =====================================================================================================
@dataclass
class Atom:
    kind: str  # "log" | "atan" | "arg" | undefined-function name
    arg: Any  # Cx (log, atan) or tuple of Cx (undefined function) or None (ghost Arg)
    val: Cx
    label: str = ""


class _Reg:
    def __init__(self) -> None:
        self.atoms: list[Atom] = []
        self.roots: dict[int, tuple[Any, Any]] = {}  # id of z3 term x -> (x, r) with r >= 0, r^2 = |x|
        self.roots_simplified: dict[int, tuple[Any, Any]] = {}  # id of simplify(x) -> (term, r)
        self.abs_of: dict[int, tuple[Any, Any]] = {}  # id of the term If(y>=0,y,-y) -> (term, y)
        self.signs: dict[int, tuple[Any, int]] = {}  # id of a real z3 term -> (term, +1 | -1): declared sign
        self.units: dict[Any, Cx] = {}  # sympy node x -> (cos, sin) of exp(i x)
        self.pi = None
        self.guard: list[Any] = []  # current Piecewise path condition (for well-definedness conditions)


def reg(tr: Tr) -> _Reg:
    r = getattr(tr, "_dyn", None)
    if r is None:
        r = _Reg()
        tr._dyn = r  # type: ignore[attr-defined]
    return r


def atoms(tr: Tr, kind: str | None = None) -> list[Atom]:
    return [a for a in reg(tr).atoms if kind is None or a.kind == kind]


def pi_value(tr: Tr) -> Cx:
    r = reg(tr)
    if r.pi is None:
        r.pi = z3.Real("pi")
        tr.assm += [r.pi > R(Fraction(314, 100)), r.pi < R(Fraction(315, 100))]
    return Cx(r.pi)


def need(tr: Tr, what: str, cond) -> None:
    """Well-definedness condition, guarded by the Piecewise path it occurs on."""
    g = reg(tr).guard
    tr.need(what, z3.Implies(z3.And(*g), cond) if g else cond)


def _same(a: Cx, b: Cx) -> bool:
    return a.re.eq(b.re) and a.imz.eq(b.imz)


# =====================================================================================================
# roots
# =====================================================================================================
def root_abs(tr: Tr, x) -> Any:
    """r >= 0 with r^2 = |x| for a real z3 term x. One variable per distinct x, where x, -x and |x| (as built by
    `cabs`) share their root: the defining constraint r^2 = |key| is the same for all of them."""
    x = R(x)
    rg = reg(tr)
    while x.get_id() in rg.abs_of:
        x = rg.abs_of[x.get_id()][1]
    hit = rg.roots.get(x.get_id())
    if hit is not None:
        return hit[1]
    if z3.is_rational_value(x):
        f = abs(Fraction(x.numerator_as_long(), x.denominator_as_long()))
        rt = sp.sqrt(sp.Rational(f.numerator, f.denominator))
        if rt.is_Rational:
            r = R(rt)
            rg.roots[x.get_id()] = (x, r)
            return r
    xs = z3.simplify(x)
    xn = z3.simplify(-x)
    for k in (xs, xn):
        hit = rg.roots_simplified.get(k.get_id())
        if hit is not None:
            rg.roots[x.get_id()] = (x, hit[1])
            return hit[1]
    r = tr.fresh("rt")
    sg = sign_of(tr, x)
    tr.side += [r >= 0, r * r == (x if sg > 0 else (-x if sg < 0 else z3.If(x >= 0, x, -x)))]
    rg.roots[x.get_id()] = (x, r)
    rg.roots_simplified[xs.get_id()] = (xs, r)
    return r


def declare_sign(tr: Tr, term, sign: int) -> None:
    """Region-specialised translation: from now on `term` (a real z3 term, matched structurally, also after
    z3.simplify) is known to be > 0 (sign=+1) or < 0 (sign=-1). The fact is added to the translator's assumptions
    (`tr.hyps()`), so every obligation that uses values built afterwards carries it as a hypothesis; the contract
    proves it from the region's requires in a separate obligation."""
    term = R(term)
    rg = reg(tr)
    fact = term > 0 if sign > 0 else term < 0
    if term.get_id() not in rg.signs:
        tr.assm.append(fact)
    for t in (term, z3.simplify(term)):
        rg.signs[t.get_id()] = (t, sign)


def sign_of(tr: Tr, x) -> int:
    """+1 / -1 if the sign of x is known (literal, declared), 0 otherwise."""
    if z3.is_rational_value(x):
        n = x.numerator_as_long()
        return 1 if n > 0 else (-1 if n < 0 else 0)
    rg = reg(tr)
    if not rg.signs:
        return 0
    hit = rg.signs.get(x.get_id()) or rg.signs.get(z3.simplify(x).get_id())
    if hit is not None:
        return hit[1]
    hit = rg.signs.get(z3.simplify(-x).get_id())
    return -hit[1] if hit is not None else 0


def psqrt(tr: Tr, v: Cx, what: str = "") -> Cx:
    """Principal square root; for a real x: x >= 0 -> sqrt(x), x < 0 -> i sqrt(-x)."""
    if not v.is_real:
        return tr.sqrt(v, what)
    x = v.re
    r = root_abs(tr, x)
    if x.get_id() in reg(tr).abs_of:
        return Cx(r)
    sg = sign_of(tr, x)
    if sg > 0 or (z3.is_rational_value(x) and x.numerator_as_long() == 0):
        return Cx(r)
    if sg < 0:
        return Cx(ZERO, r)
    return Cx(z3.If(x >= 0, r, ZERO), z3.If(x >= 0, ZERO, r))


def inv_psqrt(tr: Tr, v: Cx, what: str = "") -> Cx:
    """1 / principal sqrt; for a real x != 0: x > 0 -> 1/sqrt(x), x < 0 -> -i / sqrt(-x)."""
    if not v.is_real:
        return inv(tr, tr.sqrt(v, what), what)
    x = v.re
    r = root_abs(tr, x)
    sg = sign_of(tr, x)
    if sg == 0:
        need(tr, f"sqrt in a denominator: argument != 0 {what}", x != 0)
    if sg > 0:
        return Cx(ONE / r)
    if sg < 0:
        return Cx(ZERO, -(ONE / r))
    if x.get_id() in reg(tr).abs_of:
        return Cx(ONE / r)
    return Cx(z3.If(x >= 0, ONE / r, ZERO), z3.If(x >= 0, ZERO, -(ONE / r)))


def inv(tr: Tr, v: Cx, what: str = "") -> Cx:
    """1/v with a path-guarded well-definedness condition."""
    if v.is_real:
        if z3.is_rational_value(v.re):
            return Tr.inv(tr, v, what)
        need(tr, f"denominator != 0 {what}", v.re != 0)
        return Cx(ONE / v.re)
    n2 = v.abs2()
    need(tr, f"denominator != 0 {what}", n2 != 0)
    return Cx(v.re / n2, -v.im / n2)


def cabs(tr: Tr, v: Cx) -> Cx:
    if v.is_real:
        if z3.is_rational_value(v.re):
            return Cx(z3.simplify(z3.If(v.re >= 0, v.re, -v.re)))
        sg = sign_of(tr, v.re)
        if sg:
            return Cx(v.re if sg > 0 else -v.re)
        t = z3.If(v.re >= 0, v.re, -v.re)
        reg(tr).abs_of[t.get_id()] = (t, v.re)
        return Cx(t)
    r = root_abs(tr, v.abs2())
    return Cx(r)


# =====================================================================================================
# transcendental atoms and their instantiated axioms
# =====================================================================================================
def _atom(tr: Tr, kind: str, arg: Cx, node=None, label: str = "") -> Atom:
    for a in reg(tr).atoms:
        if a.kind == kind and isinstance(a.arg, Cx) and _same(a.arg, arg):
            if node is not None:
                tr.opaque.setdefault(node, a.val)
            return a
    if node is not None:
        val = tr.opaque_atom(node)
    else:
        tr.n += 1
        nm = f"{kind}!{tr.name}{tr.n}"
        val = Cx(z3.Real(nm + "_re"), z3.Real(nm + "_im"))
    a = Atom(kind, arg, val, label or (str(node)[:70] if node is not None else ""))
    reg(tr).atoms.append(a)
    return a


def log_atom(tr: Tr, arg: Cx, node=None, label: str = "") -> Atom:
    return _atom(tr, "log", arg, node, label)


def atan_atom(tr: Tr, arg: Cx, node=None, label: str = "") -> Atom:
    return _atom(tr, "atan", arg, node, label)


def arg_atom(tr: Tr, label: str = "") -> Atom:
    """Ghost: the principal argument (a real number) of some unit complex number."""
    tr.n += 1
    a = Atom("arg", None, Cx(z3.Real(f"Arg!{tr.name}{tr.n}")), label)
    reg(tr).atoms.append(a)
    return a


@dataclass
class Axiom:
    name: str
    text: str
    premise: Any
    conclusion: Any

    @property
    def hyp(self):
        return z3.Implies(self.premise, self.conclusion)


def _real_arg(a: Atom):
    return a.arg.imz == 0


def ax_log_pos(a: Atom) -> Axiom:
    return Axiom("log-real", "log x is real for x > 0", z3.And(_real_arg(a), a.arg.re > 0), a.val.imz == 0)


def ax_log_neg(tr: Tr, a: Atom, ghost: Atom) -> Axiom:
    """ghost must be the atom log(-x)."""
    return Axiom(
        "log-negative", "log x = log|x| + i pi for x < 0",
        z3.And(_real_arg(a), a.arg.re < 0, _real_arg(ghost), ghost.arg.re == -a.arg.re),
        z3.And(a.val.re == ghost.val.re, a.val.imz == pi_value(tr).re, ghost.val.imz == 0),
    )


def ax_log_recip(a: Atom, b: Atom) -> Axiom:
    return Axiom(
        "log-reciprocal", "log(1/x) = -log x for x > 0",
        z3.And(_real_arg(a), _real_arg(b), a.arg.re > 0, b.arg.re > 0, a.arg.re * b.arg.re == 1),
        z3.And(a.val.re == -b.val.re, a.val.imz == 0, b.val.imz == 0),
    )


def ax_log_le(a: Atom) -> Axiom:
    return Axiom("log1p", "log(1+x) <= x for x > -1", z3.And(_real_arg(a), a.arg.re > 0), z3.And(a.val.re <= a.arg.re - 1, a.val.imz == 0))


def ax_log_unit(a: Atom, theta: Atom) -> Axiom:
    """theta: ghost Arg atom of the same unit complex number."""
    return Axiom("log-unit", "log z = i Arg z for |z| = 1", a.arg.abs2() == 1, z3.And(a.val.re == 0, a.val.imz == theta.val.re))


def ax_arg_atan(theta: Atom, z: Cx, t: Atom) -> Axiom:
    """Arg z = 2 atan(sin/(1+cos)) for a unit z != -1; t must be the atom atan(Im z/(1+Re z))."""
    return Axiom(
        "arg-half-angle", "Arg(cos + i sin) = 2 atan(sin/(1+cos)) on (-pi, pi)",
        z3.And(z.abs2() == 1, z.re != -1, _real_arg(t), t.arg.re * (1 + z.re) == z.imz),
        z3.And(theta.val.re == 2 * t.val.re, t.val.imz == 0),
    )


def ax_atan_bound(tr: Tr, t: Atom) -> Axiom:
    p = pi_value(tr).re
    return Axiom("atan-bound", "|atan x| <= pi/2 for real x", _real_arg(t), z3.And(t.val.imz == 0, 2 * t.val.re <= p, 2 * t.val.re >= -p))


def ax_atan_sign(t: Atom) -> Axiom:
    return Axiom("atan-sign", "atan x >= 0 for real x >= 0", z3.And(_real_arg(t), t.arg.re >= 0), z3.And(t.val.imz == 0, t.val.re >= 0))


def congruence(tr: Tr) -> list[Any]:
    """Equal arguments -> equal results, for every pair of atoms of the same function."""
    out = []
    ats = [a for a in reg(tr).atoms if a.arg is not None]
    for i, a in enumerate(ats):
        for b in ats[i + 1 :]:
            if a.kind != b.kind:
                continue
            if isinstance(a.arg, Cx):
                prem = a.arg.eq(b.arg) if not (a.arg.is_real and b.arg.is_real) else a.arg.re == b.arg.re
            else:
                if len(a.arg) != len(b.arg):
                    continue
                prem = z3.And(*[x.eq(y) if not (x.is_real and y.is_real) else x.re == y.re for x, y in zip(a.arg, b.arg)])
            out.append(z3.Implies(prem, z3.And(a.val.re == b.val.re, a.val.imz == b.val.imz)))
    return out


# =====================================================================================================
# the translator used for dynamics trees
# =====================================================================================================
class DynTr(Tr):
    def __init__(self, name: str = "", sqrt_mode: str = "principal"):
        super().__init__(name, sqrt_mode=sqrt_mode)
        self.specs[ComplexSqrt] = _csqrt  # same contract as specs_kin._csqrt, with the memoised root

    def sqrt_real(self, x, mode: str | None = None, what: str = "") -> Cx:
        mode = mode or self.sqrt_mode
        if mode == "real":
            need(self, f"sqrt argument >= 0 {what}", x >= 0)
            return Cx(root_abs(self, x))
        return psqrt(self, Cx(x), what)

    def inv(self, v: Cx, what: str = "") -> Cx:
        return inv(self, v, what)

    def power(self, base: Cx, e: sp.Expr, what: str = "") -> Cx:
        if e.is_Rational and e.q == 2 and e.p < 0 and base.is_real:
            return self.power(inv_psqrt(self, base, what), sp.Integer(-e.p), what)
        return super().power(base, e, what)

    def _val(self, e):
        if isinstance(e, sp.Pow) and isinstance(e.base, sp.Abs) and e.exp.is_Integer and int(e.exp) % 2 == 0:
            # |w|^(2k) = (w conj(w))^k
            w = self.scalar(e.base.args[0])
            return self.power(Cx(w.abs2()), sp.Integer(int(e.exp) // 2), what=f"in {str(e)[:60]}")
        if isinstance(e, sp.Abs):
            return cabs(self, self.scalar(e.args[0]))
        if isinstance(e, sp.exp):
            try:
                return super()._val(e)
            except TrError:
                return unit_exp(self, e.args[0])
        if isinstance(e, sp.Piecewise):
            return self._piecewise(e)
        if isinstance(e, sp.core.function.AppliedUndef):
            return undef_atom(self, e).val
        return super()._val(e)

    def _piecewise(self, e):
        rg = reg(self)
        conds, vals = [], []
        negs: list[Any] = []
        for expr, cond in e.args:
            c = z3.BoolVal(True) if cond == True else self.cond(cond)  # noqa: E712
            rg.guard.append(z3.And(*negs, c) if negs else c)
            saved = self.cache
            self.cache = {}  # conditions met on this path are raised again under this path's guard
            try:
                vals.append(self.scalar(expr))
            finally:
                self.cache = saved
                rg.guard.pop()
            conds.append(c)
            negs.append(z3.Not(c))
            if cond == True:  # noqa: E712
                break
        out = None
        for c, v in zip(reversed(conds), reversed(vals)):
            if out is None:
                if not z3.is_true(c):
                    need(self, "piecewise without default", c)
                out = v
            else:
                out = Cx(z3.If(c, v.re, out.re), None if v.im is None and out.im is None else z3.If(c, v.imz, out.imz))
        return out


def unit_exp(tr: Tr, arg) -> Cx:
    """exp(arg) for arg = i x with x a real-valued expression: an abstract unit pair per distinct x."""
    co = arg.coeff(sp.I)
    if co == 0 or sp.simplify(arg - sp.I * co) != 0 or co.has(sp.I):
        raise TrError(f"exp of non-imaginary argument {arg}")
    rg = reg(tr)
    if co in rg.units:
        return rg.units[co]
    if not co.is_number:
        x = tr.scalar(co)
        if not x.is_real:
            raise TrError(f"exp(i x) with complex x: {arg}")
    tr.n += 1
    c, s = z3.Real(f"cos!{tr.name}{tr.n}"), z3.Real(f"sin!{tr.name}{tr.n}")
    tr.side.append(c * c + s * s == 1)
    rg.units[co] = Cx(c, s)
    return rg.units[co]


@spec(type(sp.pi))
def _pi(tr: Tr, e):
    return pi_value(tr)


@spec(sp.log)
def _log(tr: Tr, e):
    return log_atom(tr, tr.scalar(e.args[0]), node=e).val


@spec(sp.atan)
def _atan(tr: Tr, e):
    return atan_atom(tr, tr.scalar(e.args[0]), node=e).val


def node_key(e) -> tuple:
    """Explicit identity of an expression-class node: class, sympified arguments, and the phase-space factor it
    carries (independent of ampform's own __eq__/__hash__)."""
    ph = getattr(e, "phsp_factor", None)
    return (type(e).__name__, tuple(e.args), None if ph is None else (getattr(ph, "__qualname__", None) or str(ph), id(ph)))


def opaque_classes(tr: Tr, *classes) -> None:
    """For this translator, nodes of the given expression classes are uninterpreted: one atom per distinct
    `node_key`; the values of the translatable arguments are kept for congruence instances (`congruence`), the
    structural arguments (integer symbols such as L, the phase-space factor) are part of the atom's kind."""

    def make(t: Tr, e):
        key = node_key(e)
        table = reg(t).__dict__.setdefault("nodes", {})
        if key in table:
            return table[key].val
        args, structural = [], []
        for a in e.args:
            try:
                args.append(t.scalar(a))
            except TrError:
                structural.append(str(a))
        t.n += 1
        nm = f"{key[0]}!{t.name}{t.n}"
        val = Cx(z3.Real(nm + "_re"), z3.Real(nm + "_im"))
        a = Atom(f"{key[0]}[{';'.join(structural)}|{key[2][0] if key[2] else ''}]", tuple(args), val, str(e)[:70])
        table[key] = a
        reg(t).atoms.append(a)
        return val

    for c in classes:
        tr.specs[c] = make


def node_atoms(tr: Tr) -> dict:
    return reg(tr).__dict__.get("nodes", {})


def undef_atom(tr: Tr, e) -> Atom:
    """Applied undefined function f(args): one atom per node, with the argument values for congruence."""
    args = tuple(tr.scalar(a) for a in e.args)
    nm = type(e).__name__
    for a in reg(tr).atoms:
        if a.kind == nm and len(a.arg) == len(args) and all(_same(x, y) for x, y in zip(a.arg, args)):
            tr.opaque.setdefault(e, a.val)
            return a
    a = Atom(nm, args, tr.opaque_atom(e), str(e)[:70])
    reg(tr).atoms.append(a)
    return a


# =====================================================================================================
# phase-space factors (dynamics/phasespace.py)
# =====================================================================================================
def _sm(tr: Tr, e):
    s, m1, m2 = (tr.scalar(a) for a in e.args[:3])
    return s, m1, m2


def q2_value(tr: Tr, s: Cx, m1: Cx, m2: Cx) -> Cx:
    """PDG (49.17): q^2 = (s - (m1+m2)^2)(s - (m1-m2)^2) / (4 s);  requires s != 0."""
    sp_, sm_ = m1 + m2, m1 - m2
    return (s - sp_ * sp_) * (s - sm_ * sm_) * inv(tr, Cx(4) * s, "(q^2: s != 0)")


@spec(PSP.BreakupMomentumSquared)
def _q2(tr: Tr, e):
    return q2_value(tr, *_sm(tr, e))


def csqrt_value(tr: Tr, v: Cx) -> Cx:
    if not v.is_real:
        raise TrError("ComplexSqrt of a complex-valued argument")
    return psqrt(tr, v)


def _csqrt(tr: Tr, e):
    """ensures: x >= 0 -> +sqrt(x);  x < 0 -> i sqrt(-x)   (same contract as specs_kin, memoised root)."""
    return csqrt_value(tr, tr.scalar(e.args[0]))


@spec(PSP.PhaseSpaceFactor)
def _rho(tr: Tr, e):
    """PDG (50.9) without 1/(16 pi): rho = 2 sqrt(q^2)/sqrt(s), principal roots."""
    s, m1, m2 = _sm(tr, e)
    return Cx(2) * psqrt(tr, q2_value(tr, s, m1, m2)) * inv_psqrt(tr, s, "(rho: sqrt(s))")


def rho_abs_value(tr: Tr, s: Cx, m1: Cx, m2: Cx) -> Cx:
    q2 = q2_value(tr, s, m1, m2)
    if not (q2.is_real and s.is_real):
        raise TrError("PhaseSpaceFactorAbs of complex-valued arguments")
    need(tr, "PhaseSpaceFactorAbs contract requires s > 0", s.re > 0)
    return Cx(2) * Cx(root_abs(tr, q2.re)) * inv_psqrt(tr, s, "(rho-hat: sqrt(s))")


@spec(PSP.PhaseSpaceFactorAbs)
def _rho_abs(tr: Tr, e):
    """requires s > 0 (PDG's rho-hat is |rho|; the docstring's formula 2 sqrt(|q^2|)/sqrt(s) agrees with it only
    there; for s < 0 users of this class inline the body: `transparent(PhaseSpaceFactorAbs)`).
    ensures: rho-hat = 2 sqrt(|q^2|)/sqrt(s)."""
    return rho_abs_value(tr, *_sm(tr, e))


def transparent(tr: Tr, *classes) -> None:
    """Declare classes transparent for this translator: contract = body, inlined (one level of evaluate())."""
    for c in classes:
        tr.specs[c] = lambda t, e: t.val(e.evaluate())


@spec(PSP.PhaseSpaceFactorComplex)
def _rho_c(tr: Tr, e):
    """docstring: as PhaseSpaceFactor with ComplexSqrt(q^2)."""
    s, m1, m2 = _sm(tr, e)
    return Cx(2) * csqrt_value(tr, q2_value(tr, s, m1, m2)) * inv_psqrt(tr, s, "(rho^c: sqrt(s))")


def chew_mandelstam_value(tr: Tr, s: Cx, m1: Cx, m2: Cx) -> Cx:
    """PDG 2021 Resonances (50.44) S-wave Chew-Mandelstam function (times 1/pi as in ampform):
    Sigma = 1/pi [ 2q/sqrt(s) log((m1^2+m2^2-s+2 sqrt(s) q)/(2 m1 m2)) - (m1^2-m2^2)(1/s - 1/(m1+m2)^2) log(m1/m2) ]."""
    q = csqrt_value(tr, q2_value(tr, s, m1, m2))
    rs = psqrt(tr, s)
    i2m = inv(tr, Cx(2) * m1 * m2, "(Chew-Mandelstam: 2 m1 m2)")
    l1 = log_atom(tr, (m1 * m1 + m2 * m2 - s + Cx(2) * rs * q) * i2m, label="log((m1^2+m2^2-s+2 sqrt(s) q)/(2 m1 m2))")
    left = Cx(2) * q * inv_psqrt(tr, s, "(Chew-Mandelstam: sqrt(s))") * l1.val
    sp_ = m1 + m2
    l2 = log_atom(tr, m1 * inv(tr, m2, "(Chew-Mandelstam: m2)"), label="log(m1/m2)")
    right = (m1 * m1 - m2 * m2) * (inv(tr, s, "(Chew-Mandelstam: s)") - inv(tr, sp_ * sp_, "(Chew-Mandelstam: (m1+m2)^2)")) * l2.val
    return inv(tr, pi_value(tr)) * (left - right)


@spec(PSP.PhaseSpaceFactorSWave)
def _rho_cm(tr: Tr, e):
    """rho^CM = -i Sigma(s)."""
    return -(CI * chew_mandelstam_value(tr, *_sm(tr, e)))


def analytic_continuation_value(tr: Tr, rho: Cx, s: Cx, s_thr: Cx) -> Cx:
    """PDG 2018 Resonances p.9 (equal masses), rho-hat = `rho`:
    s < 0:          i rho/pi log|(1+rho)/(1-rho)|
    s > s_thr:      rho + i rho/pi log|(1+rho)/(1-rho)|
    otherwise:      2 i rho/pi atan(1/rho)."""
    rg = reg(tr)
    ipi = inv(tr, pi_value(tr))
    c1 = s.re < 0
    c2 = s.re > s_thr.re
    if not (s.is_real and s_thr.is_real):
        raise TrError("analytic continuation with complex s")
    rg.guard.append(z3.Or(c1, c2))
    try:
        lg = log_atom(tr, cabs(tr, (CONE + rho) * inv(tr, CONE - rho, "(continuation: 1 - rho-hat)")), label="log|(1+rho)/(1-rho)|")
    finally:
        rg.guard.pop()
    rg.guard.append(z3.Not(z3.Or(c1, c2)))
    try:
        at = atan_atom(tr, inv(tr, rho, "(continuation: 1/rho-hat)"), label="atan(1/rho)")
    finally:
        rg.guard.pop()
    b1 = CI * rho * ipi * lg.val
    b2 = rho + b1
    b3 = Cx(2) * CI * rho * ipi * at.val
    return Cx(z3.If(c1, b1.re, z3.If(c2, b2.re, b3.re)), z3.If(c1, b1.imz, z3.If(c2, b2.imz, b3.imz)))


@spec(PSP.EqualMassPhaseSpaceFactor)
def _rho_eq(tr: Tr, e):
    """_analytic_continuation applied to rho-hat = PhaseSpaceFactorAbs(s, m1, m2) (its contract, or its body where
    the translator declares it transparent) with s_thr = (m1+m2)^2."""
    s, m1, m2 = _sm(tr, e)
    sp_ = m1 + m2
    rho = tr.scalar(PSP.PhaseSpaceFactorAbs(*e.args[:3]))
    return analytic_continuation_value(tr, rho, s, sp_ * sp_)


# =====================================================================================================
# form factor, Blatt-Weisskopf, spherical Hankel (dynamics/form_factor.py), width (dynamics/__init__.py)
# =====================================================================================================
def hankel_coefficients(ell: int) -> list[int]:
    """a_k = (l+k)! / (k! (l-k)!), k = 0..l  (DLMF 10.49.1)."""
    return [math.factorial(ell + k) // (math.factorial(k) * math.factorial(ell - k)) for k in range(ell + 1)]


def bw_denominator(ell: int) -> list[Fraction]:
    """Coefficients w_k (k = 0..l) of  x^2 |h_l(x)|^2 = sum_k w_k x^(-2k) = sum_k w_k z^(-k) with z = x^2.
    From h_l(x) = (-i)^(l+1) e^{ix}/x sum_k a_k (i/(2x))^k:  |sum_k a_k (i y)^k|^2 with y = 1/(2x)."""
    a = hankel_coefficients(ell)
    # real part: sum_{k even} (-1)^(k/2) a_k y^k ; imaginary part: sum_{k odd} (-1)^((k-1)/2) a_k y^k
    re = {k: (-1) ** (k // 2) * a[k] for k in range(0, ell + 1, 2)}
    im = {k: (-1) ** ((k - 1) // 2) * a[k] for k in range(1, ell + 1, 2)}
    w = [Fraction(0)] * (ell + 1)
    for part in (re, im):
        for i, ci in part.items():
            for j, cj in part.items():
                w[(i + j) // 2] += Fraction(ci * cj, 4 ** ((i + j) // 2))  # y^(i+j) = (1/(4z))^((i+j)/2)
    return w


def bw_poly(ell: int) -> tuple[Fraction, list[Fraction]]:
    """(c_L, [d_0..d_L]) with B_L^2(z) = c_L z^L / D_L(z), D_L(z) = sum_k d_k z^(L-k) (d_0 = 1), c_L = D_L(1)."""
    w = bw_denominator(ell)
    return sum(w), w


def blatt_weisskopf_value(tr: Tr, z: Cx, ell: int) -> Cx:
    """Normalised Blatt-Weisskopf factor (docstring: B_L^2(z) = |h_L(1)|^2 / (z |h_L(sqrt z)|^2), B_L^2(1) = 1),
    written as the quotient of polynomials c_L z^L / D_L(z), which also defines it at z = 0."""
    c, d = bw_poly(ell)
    zp = [CONE]
    for _ in range(ell):
        zp.append(zp[-1] * z)
    den = CZERO
    for k, dk in enumerate(d):
        den = den + zp[ell - k].scale(R(dk))
    return zp[ell].scale(R(c)) * inv(tr, den, f"(B_{ell}^2 denominator)")


def _int_ell(node) -> int:
    if node.free_symbols or not node.is_Integer or int(node) < 0:
        raise TrError(f"angular momentum {node} must be instantiated with a non-negative integer")
    return int(node)


@spec(FF.BlattWeisskopfSquared)
def _bl2(tr: Tr, e):
    return blatt_weisskopf_value(tr, tr.scalar(e.args[0]), _int_ell(e.args[1]))


def hankel_value(tr: Tr, ell: int, xnode) -> Cx:
    """h_l^(1)(x) = (-i)^(l+1) e^{ix}/x sum_{k=0}^{l} a_k (i/(2x))^k for real x != 0 (DLMF 10.49.6)."""
    x = tr.scalar(xnode)
    if not x.is_real:
        raise TrError("SphericalHankel1 of a complex-valued argument")
    try:
        ex = tr.scalar(sp.exp(sp.I * xnode, evaluate=False))
    except TrError:
        ex = unit_exp(tr, sp.I * xnode)
    ix = inv(tr, x, "(Hankel: 1/x)")
    y = CI * ix.scale(R(Fraction(1, 2)))
    acc, yp = CZERO, CONE
    for a in hankel_coefficients(ell):
        acc = acc + yp.scale(R(a))
        yp = yp * y
    pref = CONE
    for _ in range(ell + 1):
        pref = pref * Cx(ZERO, -ONE)
    return pref * ex * ix * acc


@spec(FF.SphericalHankel1)
def _hankel(tr: Tr, e):
    return hankel_value(tr, _int_ell(e.args[0]), e.args[1])


def form_factor_value(tr: Tr, s: Cx, m1: Cx, m2: Cx, ell: int, d: Cx) -> Cx:
    """PDG (50.26): F_L = sqrt(B_L^2(q^2 d^2)) (principal root)."""
    return psqrt(tr, blatt_weisskopf_value(tr, q2_value(tr, s, m1, m2) * d * d, ell))


@spec(FF.FormFactor)
def _ff(tr: Tr, e):
    s, m1, m2, ell, d = e.args
    return form_factor_value(tr, tr.scalar(s), tr.scalar(m1), tr.scalar(m2), _int_ell(ell), tr.scalar(d))


def width_value(tr: Tr, g0: Cx, f: Cx, f0: Cx, rho: Cx, rho0: Cx) -> Cx:
    """PDG (50.28) with the normalised form factor: Gamma(s) = Gamma0 (F(s)/F(m0^2))^2 rho(s)/rho(m0^2)."""
    fr = f * inv(tr, f0, "(width: F(m0^2))")
    return g0 * fr * fr * rho * inv(tr, rho0, "(width: rho(m0^2))")


@spec(DY.EnergyDependentWidth)
def _width(tr: Tr, e):
    s, m0, g0, ma, mb, ell, d = e.args
    f = tr.scalar(FF.FormFactor(s, ma, mb, ell, d))
    f0 = tr.scalar(FF.FormFactor(m0**2, ma, mb, ell, d))
    rho = tr.scalar(e.phsp_factor(s, ma, mb))
    rho0 = tr.scalar(e.phsp_factor(m0**2, ma, mb))
    return width_value(tr, tr.scalar(g0), f, f0, rho, rho0)


def breit_wigner_value(tr: Tr, s: Cx, m0: Cx, g0: Cx) -> Cx:
    """m0 Gamma0 / (m0^2 - s - i m0 Gamma0)."""
    return m0 * g0 * inv(tr, m0 * m0 - s - CI * m0 * g0, "(Breit-Wigner denominator)")


def breit_wigner_ff_value(tr: Tr, s: Cx, m0: Cx, g0: Cx, ff: Cx, width: Cx) -> Cx:
    """PDG (50.26)/(50.28): F m0 Gamma0 / (m0^2 - s - i m0 Gamma(s))."""
    return ff * m0 * g0 * inv(tr, m0 * m0 - s - CI * m0 * width, "(Breit-Wigner denominator)")


# =====================================================================================================
# numeric evaluation of the real trees (replays, cover cross-check with complex dtype)
# =====================================================================================================
def numeric(expr, values: dict[str, complex | float], dtype=complex):
    """Evaluate the real SymPy object via doit() + lambdify('numpy') at named symbol values."""
    import numpy as np

    expr = sp.sympify(expr)
    unfolded = expr.doit()
    syms = sorted(unfolded.free_symbols, key=lambda s: s.name)
    args = [np.array([values.get(s.name, 0.0)], dtype=dtype) for s in syms]
    f = sp.lambdify(syms, unfolded, "numpy")
    with np.errstate(all="ignore"):
        out = np.asarray(f(*args), dtype=complex).reshape(-1)
    return complex(out[0])


def true_model(tr: Tr, model: dict[str, Any]) -> dict[str, Any]:
    """The model with pi and every log / atan atom replaced by its true value at the model's arguments, so
    that the SMT denotation can be compared numerically with the real tree (atoms are set in creation
    order: an atom's argument only contains earlier atoms)."""
    import cmath

    import numpy as np

    from vlib import e1

    m = dict(model)
    m["pi"] = math.pi
    for a in reg(tr).atoms:
        if a.kind not in ("log", "atan"):
            continue
        try:
            z = e1.cfloat(a.arg, m)
            with np.errstate(all="ignore"):
                v = cmath.log(z) if a.kind == "log" else complex(np.arctan(complex(z)))
        except (ValueError, ZeroDivisionError, OverflowError):
            v = complex("nan")
        m[a.val.re.decl().name()] = v.real
        if a.val.im is not None:
            m[a.val.im.decl().name()] = v.imag
    # exp(i x): the abstract unit pairs and the (cos_x, sin_x) pairs of angle symbols get the true cos/sin of x
    for co, u in reg(tr).units.items():
        try:
            ang = float(co) if co.is_number else float(co.xreplace({sy: float(m.get(sy.name, 0.0)) for sy in co.free_symbols}))
        except (TypeError, ValueError):
            continue
        m[u.re.decl().name()], m[u.im.decl().name()] = math.cos(ang), math.sin(ang)
    for atom in tr.angle_base:
        if isinstance(atom, sp.Symbol) and atom.name in m:
            m[f"cos_{atom.name}"], m[f"sin_{atom.name}"] = math.cos(float(m[atom.name])), math.sin(float(m[atom.name]))
    return m


def cover_check_complex(tr: Tr, value: Cx, real_expr, tol: float = 1e-6, dtype=complex):
    """As e1.cover_check, with complex-dtype input (needed where sqrt/log see negative reals) and with the
    transcendental atoms of the SMT denotation set to their true values (`true_model`)."""
    from vlib import e1

    def check(model):
        import numpy as np

        vals = {k: float(v) for k, v in model.items() if not isinstance(v, bool)}
        num = numeric(real_expr, vals, dtype=dtype)
        smt = e1.cfloat(value, true_model(tr, model))
        if not np.isfinite(num):
            return f"real code gives non-finite value {num} at the cover model"
        if not abs(num - smt) <= tol * (1 + abs(num)):
            return f"|real - smt| = {abs(num - smt):.3e}: real={num} smt={smt}"
        return None

    return check


def add_wd(chk, prefix: str, tr: Tr, requires: list[Any], function: str, start: int = 0, replay=None, lemma: bool = True) -> int:
    """ONE obligation `<prefix>.well-defined` for all well-definedness conditions collected by the translator since
    `start` (non-zero denominators, root arguments, contract preconditions of nested classes), each under the
    definitions that precede it and under the Piecewise path guard raised by `need`. One aggregated obligation keeps
    the obligation names independent of the shape of the code. Returns the number of distinct conditions."""
    seen: set[str] = set()
    parts, texts = [], []
    for what, cond, nside in tr.wd[start:]:
        key = cond.sexpr()
        if key in seen:
            continue
        seen.add(key)
        side = list(tr.side[:nside])
        parts.append(z3.Implies(z3.And(*side), cond) if side else cond)
        texts.append(what[:60])
    claim = z3.And(*parts) if parts else z3.BoolVal(True)
    chk.smt(f"{prefix}.well-defined", list(requires) + list(tr.assm), claim, function=function, replay=replay, lemma=lemma, note="; ".join(texts)[:400])
    return len(seen)
