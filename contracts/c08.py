"""C08 — boost and rotation expressions are proper Lorentz transformations.

Functions under contract (kinematics/lorentz.py, sympy/_array_expressions.py, sympy/math.py):
BoostMatrix.{as_explicit,evaluate}, BoostZMatrix.{as_explicit,evaluate}, RotationYMatrix,
RotationZMatrix (both methods), the four _*Implementation printers, NegativeMomentum.evaluate,
MinkowskiMetric.{as_explicit,_numpycode}, Energy/FourMomentumX/Y/Z/ThreeMomentum/
EuclideanNormSquared/EuclideanNorm/InvariantMass.evaluate, ComplexSqrt.get_definition,
ArrayMultiplication/MatrixMultiplication.{_numpycode,_create_einsum_subscripts}.

requires (general boost): E > 0, E^2 > |p|^2, |p|^2 > 0  (0/0 at rest: see DESIGN C08).
ensures: the statement's equations, each an SMT obligation over all real (E, px, py, pz) / all
(cos, sin) pairs; plus "body meets spec" for every class so that callers (C07) may use the specs.
"""

from __future__ import annotations

import numpy as np
import sympy as sp
import z3

from ampform.kinematics import lorentz as L
from ampform.sympy import _array_expressions as AE
from ampform.sympy.math import ComplexSqrt
from contracts import specs_kin as K
from vlib import e1, npvc
from vlib.core import Check
from vlib.tr import CONE, CZERO, ETA, Ang, Cx, Tr, det, eq_all, flatten, ident, matmul, matvec, transpose

LEVEL = "proof"
ENGINE = 'E1 exprvc + E2 npvc'
CLAIM = (
    'Every equation of the statement (L^T eta L = eta, det 1, L00>=1, rest frame, inverse = boost of negated momentum, z-boost = general boost along z, additive composition, generated code = explicit matrix for cse on/off) is an SMT obligation over all real momenta with E>0, E^2>|p|^2, |p|>0 and all angles, generated from the current source on every run; discrete structure (4 classes, cse flag, einsum chain lengths 1..18) is enumerated exhaustively.'
)
NOTE = (
    "Trusted: z3 5.1 / cvc5 1.0.3 'unsat' answers; the SymPy-node -> SMT translation table (vlib/tr.py), cross-checked on every run at each cover model against numpy evaluation of the real tree; floats treated as exact reals (A-arith); per-event semantics of array expressions (A-batch). requires |p|>0 for the general boost (0/0 at rest). Floating-point conditioning over orders of magnitude of beta*gamma is not decided."
)
TECHNIQUE = (
    "contract-based deductive verification: E1 denotational VCs on the SymPy trees returned by the real "
    "functions (nested classes replaced by their contracts), E2 VCs on the generated numpy source; z3 nlsat / cvc5"
)
F = "ampform.kinematics.lorentz."


def _p_req(tr: Tr, p):
    E, x, y, z = (c.re for c in tr.val(p))
    return [E > 0, E * E - x * x - y * y - z * z > 0, x * x + y * y + z * z > 0]


def _num_matrix(m, model):
    return np.array([[complex(e1.numeric_real_tree(m[i, j], model)) for j in range(4)] for i in range(4)])


def _replay_matrix_vs(tr, real_matrix, expected):
    """Replay for 'real matrix == expected tensor' obligations: evaluate both at the model."""

    def rep(model):
        real = _num_matrix(real_matrix, model)
        exp = np.array([[e1.cfloat(c, model) for c in row] for row in expected])
        err = float(np.max(np.abs(real - exp)))
        return {
            "reproduced": bool(not np.all(np.isfinite(real)) or err > 1e-7),
            "input": {k: float(v) for k, v in model.items() if not isinstance(v, bool)},
            "expected": str(exp.round(9).tolist()),
            "observed": str(real.round(9).tolist()),
            "max_abs_err": err,
        }

    return rep


def _replay_lorentz(real_matrix, what):
    def rep(model):
        Lm = _num_matrix(real_matrix, model)
        eta = np.diag([1, -1, -1, -1]).astype(complex)
        if what == "metric":
            err = float(np.max(np.abs(Lm.T @ eta @ Lm - eta)))
        elif what == "det":
            err = float(abs(np.linalg.det(Lm) - 1))
        elif what == "l00":
            err = float(max(0.0, 1 - Lm[0, 0].real))
        else:
            err = float("nan")
        return {
            "reproduced": bool(not np.all(np.isfinite(Lm)) or err > 1e-7),
            "input": {k: float(v) for k, v in model.items() if not isinstance(v, bool)},
            "observed": str(Lm.round(9).tolist()),
            "violation_measure": err,
            "condition": what,
        }

    return rep


def _lorentz_obligations(chk: Check, prefix: str, fn: str, hyps, Lm, real_matrix=None):
    """L^T eta L = eta (10 entries), det L = 1, L00 >= 1."""
    lhs = matmul(matmul(transpose(Lm), ETA), Lm)
    rep = _replay_lorentz(real_matrix, "metric") if real_matrix is not None else None
    for i in range(4):
        for j in range(i, 4):
            chk.smt(f"{prefix}.metric[{i}{j}]", hyps, lhs[i][j].eq(ETA[i][j]), function=fn, replay=rep)
    chk.smt(
        f"{prefix}.det", hyps, det(Lm).eq(CONE), function=fn,
        replay=_replay_lorentz(real_matrix, "det") if real_matrix is not None else None,
    )
    chk.smt(
        f"{prefix}.L00>=1", hyps, z3.And(Lm[0][0].re >= 1, Lm[0][0].imz == 0), function=fn,
        replay=_replay_lorentz(real_matrix, "l00") if real_matrix is not None else None,
    )


def _entrywise(chk, prefix, fn, hyps, got, want, replay=None, lemma=False):
    for i in range(len(want)):
        if isinstance(want[i], list):
            for j in range(len(want[i])):
                chk.smt(f"{prefix}[{i}{j}]", hyps, got[i][j].eq(want[i][j]), function=fn, replay=replay, lemma=lemma)
        else:
            chk.smt(f"{prefix}[{i}]", hyps, got[i].eq(want[i]), function=fn, replay=replay, lemma=lemma)


def build(chk: Check) -> None:
    chk.assume("A-arith: floating point treated as exact real arithmetic (conditioning over many orders of beta*gamma is not decided)")
    chk.assume("A-batch: array expressions act independently on each event (leading axis)")
    chk.assume("A-denote: SymPy node -> SMT translation table (vlib/tr.py), cross-checked at each cover model against numpy evaluation of the real tree")
    chk.assume("requires |p| > 0 for the general boost (the expression is 0/0 at rest; stated reading of the property)")
    chk.trust("z3 5.1.0 / cvc5 1.0.3 unsat answers")
    chk.trust("sympy.lambdify returns the function whose source inspect.getsource shows")
    p = L.create_four_momentum_symbol(0)

    # ---------------- general boost ----------------
    tr = Tr("B")
    req = _p_req(tr, p)
    spec_val = K.boost_spec(tr, tr.val(p))
    spec_hyps = req + tr.hyps()
    e1.add_wd(chk, "BoostMatrix.spec", tr, req, F + "BoostMatrix")
    n_wd = len(tr.wd)
    B = L.BoostMatrix(p)
    real = B.as_explicit()
    got = tr.val(real)
    hyps = req + tr.hyps()
    e1.add_wd(chk, "BoostMatrix.as_explicit", tr, req, F + "BoostMatrix.as_explicit", start=n_wd)
    _entrywise(chk, "BoostMatrix.as_explicit==spec", F + "BoostMatrix.as_explicit", hyps, got, spec_val, lemma=True)
    chk.cover("BoostMatrix.as_explicit.cover", hyps, F + "BoostMatrix.as_explicit",
              model_check=e1.cover_check(tr, got, real))
    # evaluate(): one level, the implementation node is laid out by its own contract
    n_wd = len(tr.wd)
    impl = B.evaluate()
    chk.struct("BoostMatrix.evaluate.returns_impl", isinstance(impl, L._BoostMatrixImplementation),
               F + "BoostMatrix.evaluate", witness=type(impl).__name__)
    # the layout of the printer-side implementation node is an implementation detail: if it changes, this lemma cannot be
    # stated any more (refuted lemma); the property-level statement "generated code == explicit matrix" is E2's (below)
    got_ev = chk.guarded("BoostMatrix.evaluate.impl_layout", lambda: tr.val(impl), F + "BoostMatrix.evaluate")
    if got_ev is not None:
        hyps_ev = req + tr.hyps()
        e1.add_wd(chk, "BoostMatrix.evaluate", tr, req, F + "BoostMatrix.evaluate", start=n_wd)
        _entrywise(chk, "BoostMatrix.evaluate==spec", F + "BoostMatrix.evaluate", hyps_ev, got_ev, spec_val, lemma=True)

    # the statement's equations, on the real as_explicit() output ...
    _lorentz_obligations(chk, "BoostMatrix.as_explicit.lorentz", F + "BoostMatrix.as_explicit", hyps, got, real)
    # ... and from the contract alone (what callers rely on)
    _lorentz_obligations(chk, "BoostMatrix.spec.lorentz", F + "BoostMatrix", spec_hyps, spec_val)
    # B(p) p = (m, 0, 0, 0)
    pv = tr.val(p)
    rest = matvec(got, pv)
    m = tr.fresh("m")
    E, x, y, z = (c.re for c in pv)
    mh = [m >= 0, m * m == E * E - x * x - y * y - z * z]

    def rep_rest(model):
        Lm = _num_matrix(real, model)
        v = np.array([float(model.get(f"p0_{c}", 0)) for c in "Exyz"])
        out = Lm @ v
        mm = np.sqrt(max(v[0] ** 2 - v[1] ** 2 - v[2] ** 2 - v[3] ** 2, 0))
        err = float(np.max(np.abs(out - np.array([mm, 0, 0, 0]))))
        return {"reproduced": bool(err > 1e-7 * (1 + abs(v[0]))), "input": v.tolist(), "observed": str(out), "expected": [mm, 0, 0, 0]}

    chk.smt("BoostMatrix.as_explicit.rest_frame[0]", hyps + mh, rest[0].eq(Cx(m)), function=F + "BoostMatrix.as_explicit", replay=rep_rest)
    for i in (1, 2, 3):
        chk.smt(f"BoostMatrix.as_explicit.rest_frame[{i}]", hyps, rest[i].eq(CZERO), function=F + "BoostMatrix.as_explicit", replay=rep_rest)
    rest_s = matvec(spec_val, pv)
    chk.smt("BoostMatrix.spec.rest_frame[0]", spec_hyps + mh, rest_s[0].eq(Cx(m)), function=F + "BoostMatrix")
    for i in (1, 2, 3):
        chk.smt(f"BoostMatrix.spec.rest_frame[{i}]", spec_hyps, rest_s[i].eq(CZERO), function=F + "BoostMatrix")

    # inverse = boost of the space-inverted momentum
    tr2 = Tr("Binv")
    req2 = _p_req(tr2, p)
    fwd = tr2.val(real)
    neg = L.NegativeMomentum(p)
    real_inv = L.BoostMatrix(neg).as_explicit()
    bwd = tr2.val(real_inv)
    hyps2 = req2 + tr2.hyps()
    e1.add_wd(chk, "BoostMatrix(NegativeMomentum).as_explicit", tr2, req2, F + "BoostMatrix.as_explicit")
    prod = matmul(bwd, fwd)

    def rep_inv(model):
        a, b = _num_matrix(real_inv, model), _num_matrix(real, model)
        err = float(np.max(np.abs(a @ b - np.eye(4))))
        return {"reproduced": bool(err > 1e-7), "input": {k: float(v) for k, v in model.items()}, "max_abs_err": err}

    _entrywise(chk, "BoostMatrix.inverse_is_boost_of_negated", F + "BoostMatrix.as_explicit", hyps2, prod, ident(4), replay=rep_inv)

    # ---------------- NegativeMomentum / MinkowskiMetric ----------------
    tr3 = Tr("neg")
    body = neg.evaluate()
    chk.smt("NegativeMomentum.evaluate==spec", tr3.hyps(), eq_all(tr3.val(body), K._neg_mom(tr3, neg)), function=F + "NegativeMomentum.evaluate")
    chk.struct("MinkowskiMetric.as_explicit==eta", L.MinkowskiMetric(p).as_explicit() == sp.diag(1, -1, -1, -1),
               F + "MinkowskiMetric.as_explicit")

    # ---------------- selector and norm classes: body meets spec ----------------
    for cls in (L.Energy, L.FourMomentumX, L.FourMomentumY, L.FourMomentumZ, L.ThreeMomentum):
        t = Tr(cls.__name__)
        node = cls(p)
        chk.smt(f"{cls.__name__}.evaluate==spec", t.hyps(), eq_all(t.val(node.evaluate()), t.specs[cls](t, node)),
                function=F + cls.__name__ + ".evaluate", lemma=True)
    t = Tr("n2")
    v3 = L.ThreeMomentum(p)
    node = L.EuclideanNormSquared(v3)
    chk.smt("EuclideanNormSquared.evaluate==spec", t.hyps(), eq_all(t.val(node.evaluate()), K._norm2(t, node)),
            function=F + "EuclideanNormSquared.evaluate", lemma=True)
    t = Tr("n")
    node = L.EuclideanNorm(v3)
    sv = K._norm(t, node)
    bv = t.val(node.evaluate())
    e1.add_wd(chk, "EuclideanNorm.evaluate", t, [], F + "EuclideanNorm.evaluate")
    chk.smt("EuclideanNorm.evaluate==spec", t.hyps(), bv.eq(sv), function=F + "EuclideanNorm.evaluate", lemma=True)
    t = Tr("im")
    node = L.InvariantMass(p)
    sv = K._inv_mass(t, node)
    bv = t.val(node.evaluate())
    e1.add_wd(chk, "InvariantMass.evaluate", t, [], F + "InvariantMass.evaluate")
    chk.smt("InvariantMass.evaluate==spec", t.hyps(), bv.eq(sv), function=F + "InvariantMass.evaluate", lemma=True)
    chk.cover("InvariantMass.cover", t.hyps() + [t.val(p)[0].re > 0], F + "InvariantMass.evaluate", model_check=e1.cover_check(t, bv, node))
    # ComplexSqrt: the definition it prints is the principal root with +i for negative input
    t = Tr("cs", sqrt_mode="principal")
    xs = sp.Symbol("x", real=True)
    node = ComplexSqrt(xs)
    sv = K._csqrt(t, node)
    bv = t.val(node.get_definition())
    chk.smt("ComplexSqrt.get_definition==spec", t.hyps(), bv.eq(sv), function="ampform.sympy.math.ComplexSqrt.get_definition")
    xv = t.val(xs).re
    chk.smt("ComplexSqrt.spec.squares_to_x", t.hyps(), (sv * sv).eq(Cx(xv)), function="ampform.sympy.math.ComplexSqrt")
    chk.smt("ComplexSqrt.spec.branch", t.hyps(), z3.And(sv.re >= 0, sv.imz >= 0, z3.Implies(xv >= 0, sv.imz == 0), z3.Implies(xv < 0, sv.re == 0)),
            function="ampform.sympy.math.ComplexSqrt")

    # ---------------- z boost ----------------
    beta = sp.Symbol("beta", real=True)
    n_ev = sp.Symbol("n", integer=True, positive=True)
    tz = Tr("Bz", sqrt_mode="principal")
    bvz = tz.val(beta).re
    reqz = [bvz > -1, bvz < 1]
    specz = K.boostz_spec(tz, tz.val(beta))
    BZ = L.BoostZMatrix(beta, n_events=n_ev)
    realz = BZ.as_explicit()
    n_wd = len(tz.wd)
    gotz = tz.val(realz)
    hz = reqz + tz.hyps()
    e1.add_wd(chk, "BoostZMatrix.as_explicit", tz, reqz, F + "BoostZMatrix.as_explicit", start=n_wd)
    _entrywise(chk, "BoostZMatrix.as_explicit==spec", F + "BoostZMatrix.as_explicit", hz, gotz, specz, lemma=True)
    chk.cover("BoostZMatrix.as_explicit.cover", hz + [bvz != 0], F + "BoostZMatrix.as_explicit", model_check=e1.cover_check(tz, gotz, realz))
    tz2 = Tr("Bz2", sqrt_mode="real")
    bvz2 = tz2.val(beta).re
    reqz2 = [bvz2 > -1, bvz2 < 1]
    specz2 = K.boostz_spec(tz2, tz2.val(beta))
    n_wd = len(tz2.wd)
    implz = BZ.evaluate()
    chk.struct("BoostZMatrix.evaluate.returns_impl", isinstance(implz, L._BoostZMatrixImplementation), F + "BoostZMatrix.evaluate")
    gotz2 = chk.guarded("BoostZMatrix.evaluate.impl_layout", lambda: tz2.val(implz), F + "BoostZMatrix.evaluate")
    if gotz2 is not None:
        e1.add_wd(chk, "BoostZMatrix.evaluate", tz2, reqz2, F + "BoostZMatrix.evaluate", start=n_wd)
        _entrywise(chk, "BoostZMatrix.evaluate==spec", F + "BoostZMatrix.evaluate", reqz2 + tz2.hyps(), gotz2, specz2, lemma=True)
    _lorentz_obligations(chk, "BoostZMatrix.as_explicit.lorentz", F + "BoostZMatrix.as_explicit", hz, gotz, realz)
    # z boost agrees with the general boost for momenta along z
    t = Tr("Bz=B")
    reqp = _p_req(t, p)
    pv = t.val(p)
    along = [pv[1].re == 0, pv[2].re == 0]
    gen = t.val(real)
    pz_over_e = L.FourMomentumZ(p) / L.Energy(p)
    realzz = L.BoostZMatrix(pz_over_e, n_events=n_ev).as_explicit()
    t.sqrt_mode = "principal"
    zz = t.val(realzz)
    hh = reqp + along + t.hyps()
    e1.add_wd(chk, "BoostZ_vs_Boost", t, reqp + along, F + "BoostZMatrix.as_explicit")

    def rep_zz(model):
        model = dict(model)
        a, b = _num_matrix(real, model), _num_matrix(realzz, model)
        err = float(np.max(np.abs(a - b)))
        return {"reproduced": bool(not np.isfinite(err) or err > 1e-7), "input": {k: float(v) for k, v in model.items()}, "max_abs_err": err}

    _entrywise(chk, "BoostZMatrix(pz/E)==BoostMatrix(p)|along_z", F + "BoostZMatrix.as_explicit", hh, zz, gen, replay=rep_zz)

    # ---------------- rotations ----------------
    a, b = sp.Symbol("a", real=True), sp.Symbol("b", real=True)
    for cls, specf in ((L.RotationYMatrix, K.roty_spec), (L.RotationZMatrix, K.rotz_spec)):
        nm = cls.__name__
        t = Tr(nm)
        Ra = cls(a, n_events=n_ev)
        real_a = Ra.as_explicit()
        ga = t.val(real_a)
        sa = specf(t.angle(a))
        _entrywise(chk, f"{nm}.as_explicit==spec", F + nm + ".as_explicit", t.hyps(), ga, sa, lemma=True)
        impl = Ra.evaluate()
        chk.struct(f"{nm}.evaluate.returns_impl", type(impl).__name__ == f"_{nm}Implementation", F + nm + ".evaluate")
        got_impl = chk.guarded(f"{nm}.evaluate.impl_layout", lambda: t.val(impl), F + nm + ".evaluate")
        if got_impl is not None:
            _entrywise(chk, f"{nm}.evaluate==spec", F + nm + ".evaluate", t.hyps(), got_impl, sa, lemma=True)
        _lorentz_obligations(chk, f"{nm}.as_explicit.lorentz", F + nm + ".as_explicit", t.hyps(), ga, real_a)
        chk.smt(f"{nm}.as_explicit.L00==1", t.hyps(), ga[0][0].eq(CONE), function=F + nm + ".as_explicit")
        gb = t.val(cls(b, n_events=n_ev).as_explicit())
        gab = t.val(cls(a + b, n_events=n_ev).as_explicit())
        _entrywise(chk, f"{nm}.compose_additive", F + nm + ".as_explicit", t.hyps(), matmul(ga, gb), gab)
        chk.cover(f"{nm}.cover", t.hyps(), F + nm + ".as_explicit", model_check=e1.cover_check(t, ga, real_a))

    # engine self-test: a deliberately false postcondition on the real boost must be refuted
    chk.mustfail("selftest.BoostMatrix.b01_sign_flipped", hyps, got[0][1].eq(-spec_val[0][1]), function=F + "BoostMatrix.as_explicit")

    # ---------------- E2: generated numpy code ----------------
    npvc.c08_codegen_obligations(chk, tier=chk.tier)
