"""C07 — kinematic variables mean what their names say, in every topology.

Under contract: kinematics/lorentz.py `compute_invariant_masses`, `get_invariant_mass_symbol`, `InvariantMass.evaluate`,
`get_four_momentum_sum`; kinematics/angles.py `compute_helicity_angles` (incl. the inner recursion), `Phi.evaluate`,
`Theta.evaluate`, `formulate_scattering_angle`; helicity/naming.py `get_helicity_angle_symbols`, `get_boost_chain_suffix`;
helicity/decay.py `is_opposite_helicity_state`, `get_sibling_state_id`, `determine_attached_final_state`;
kinematics/__init__.py `HelicityAdapter.{create_expressions, permutate_registered_topologies, register_topology}`.

Structural domain (exhaustive): every topology of `qrules.topology.create_isobar_topologies(n)`, n = 2..4 (quick) / 2..5
(thorough), under every permutation of the final-state ids and every permutation of the intermediate-edge ids
(`Topology.relabel_edges`).  The real functions are run once per distinct topology object.

The *specification* below is written from the documentation only (docstrings of `get_boost_chain_suffix`,
`compute_helicity_angles`, `is_opposite_helicity_state`, `get_invariant_mass_symbol`) on top of qrules' `Topology.edges`:
  name  m_<ids>               := invariant mass of the summed four-momenta of exactly the final states <ids>
  name  phi/theta_<a>^<chain> := (atan2, acos) of frame(chain) applied to the documented momentum, where
        frame([])          = identity
        frame([c, *rest])  = H(q) . frame(rest),   q = momentum of state c in frame(rest)
        H(q)               = Bz(|q|/E_q) Ry(-theta_q) Rz(-phi_q)
        documented momentum: the decaying child's where exactly one child of the node decays (docstring example of
        compute_helicity_angles: theta_0 = Theta(p1+p2)), the helicity state's own where no child decays, and either
        child's where both decay (this freedom is exactly what obligation family (d) shows to be a defect).
It is stated twice: as SymPy trees built from the *contracted* primitives (Phi, Theta, BoostZMatrix, RotationY/ZMatrix,
ArrayMultiplication, ArraySum, EuclideanNorm, Energy, InvariantMass; their contracts: specs_kin.py (proved in C08) and
specs_angles.py (proved here)), and as an independent numpy boost-and-rotate implementation used by every replay.
"""

from __future__ import annotations

import itertools
import math
import re
from typing import Any

import numpy as np
import sympy as sp
import z3

from contracts import specs_angles as SA
from contracts import specs_kin as K
from vlib import e1, npvc
from vlib.core import Check
from vlib.tr import CZERO, Ang, Cx, Tr, TrError, eq_all, matvec

LEVEL = "proof"
ENGINE = "E1 exprvc + E2 npvc + exhaustive structural enumeration"
CLAIM = (
    "For every isobar topology with 2..4 (quick) / 2..5 (thorough) final states under every relabelling of final-state and "
    "intermediate edges: each m_<ids> is InvariantMass of exactly the named momenta (SMT, all real momenta), each "
    "phi/theta_<a>^<chain> is syntactically the spec tree frame(chain) applied to the documented momentum built from the "
    "contracted primitives (structural equality = equal denotation), the frame convention H(q) q = (m,0,0,0) with the "
    "rotated q along +z is an SMT lemma over all time-like q, Phi/Theta bodies meet their contracts, generated numpy code "
    "(cse on/off) denotes the symbolic value (E2), and a name never has two definitions across topologies — except the "
    "two-decaying-children nodes, which is a replayed genuine defect."
)
NOTE = (
    "Trusted: z3/cvc5 unsat answers; the SymPy-node -> SMT translation table (vlib/tr.py), cross-checked at every cover model "
    "against numpy evaluation of the real tree; qrules Topology accessors; floats as exact reals (A-arith: near-threshold / "
    "highly boosted floating-point conditioning is not decided); per-event array semantics (A-batch). Requires: composite "
    "momenta time-like with non-zero transverse part (measure-zero complement), final-state ids are single digits. The "
    "three-body Dalitz clause is an instance-level numeric cross-check (bounded) plus C19's lemma chain. For n = 5 the "
    "enumeration is complete (3600 relabellings, 1080 distinct objects) in the thorough tier only."
)
TECHNIQUE = (
    "contract-based deductive verification: the real functions are run on every relabelled isobar topology; the returned SymPy "
    "trees are compared with a specification written from the documentation (structural equality over contracted primitives, "
    "else E1/SMT), primitives' contracts and the helicity-frame alignment lemma are SMT obligations (z3 nlsat / cvc5), generated "
    "numpy code is given a denotation (E2) and compared; name consistency is a finite check over the whole enumeration"
)

FA = "ampform.kinematics.angles."
FL = "ampform.kinematics.lorentz."
FN = "ampform.helicity.naming."
FD = "ampform.helicity.decay."
FK = "ampform.kinematics.HelicityAdapter."


# =====================================================================================================
# 1. enumeration of the structural domain
# =====================================================================================================
def children(t, node_id: int) -> list[int]:
    return sorted(i for i, e in t.edges.items() if e.originating_node_id == node_id)


def fs_ids(t, edge_id: int) -> tuple[int, ...]:
    """Final-state ids below an edge (own tree walk over qrules' Edge records)."""
    e = t.edges[edge_id]
    if e.ending_node_id is None:
        return (edge_id,)
    out: list[int] = []
    for c in children(t, e.ending_node_id):
        out += fs_ids(t, c)
    return tuple(sorted(out))


def root_edge(t) -> int:
    (r,) = [i for i, e in t.edges.items() if e.originating_node_id is None]
    return r


def canon(t) -> str:
    """Canonical, comma-free string of a topology *object*: final ids, tree shape and intermediate edge ids."""

    def rec(eid: int, top: bool = False) -> str:
        e = t.edges[eid]
        if e.ending_node_id is None:
            return str(eid)
        kids = sorted(children(t, e.ending_node_id), key=lambda c: fs_ids(t, c))
        s = "(" + "|".join(rec(k) for k in kids) + ")"
        return s if top else f"{s}:{eid}"

    n = len(fs_ids(t, root_edge(t)))
    return f"{n}body:" + rec(root_edge(t), top=True)


def enumerate_topologies(n: int):
    """All relabellings: final-state permutations x intermediate-edge permutations of every isobar shape."""
    from qrules.topology import create_isobar_topologies

    for shape in create_isobar_topologies(n):
        fs = sorted(shape.outgoing_edge_ids)
        im = sorted(shape.intermediate_edge_ids)
        for pf in itertools.permutations(fs):
            for pi in itertools.permutations(im):
                mapping = dict(zip(fs, pf))
                mapping.update(zip(im, pi))
                yield shape.relabel_edges(mapping)


# =====================================================================================================
# 2. the specification as SymPy trees over contracted primitives
# =====================================================================================================
def _prims():
    from ampform.kinematics import angles as A
    from ampform.kinematics import lorentz as L
    from ampform.sympy import _array_expressions as AE

    return A, L, AE


_NEV = sp.Symbol("n_events", integer=True, positive=True)  # canonical stand-in for every ArraySize(...) argument


def ids_label(ids) -> str:
    return "".join(str(i) for i in ids)


def suffix(a, chain) -> str:
    """Documentation of get_boost_chain_suffix: subscript = the state (sum of final-state ids), superscript = its
    ancestors from the nearest one upwards, comma separated, the initial state not listed."""
    s = "_" + ids_label(a)
    if chain:
        s += "^" + ",".join(ids_label(c) for c in chain)
    return s


def helicity_child(a, b):
    """is_opposite_helicity_state's documentation: exactly one child of a node is the helicity state, the one with 0 is
    never the opposite one: the child whose sorted id tuple is the smaller one names the angle pair."""
    return min(tuple(a), tuple(b))


def documented_momenta(a, b) -> list[tuple[int, ...]]:
    """Which state's momentum the pair named after helicity_child(a, b) describes (see module docstring)."""
    dec = [c for c in (a, b) if len(c) > 1]
    if len(dec) == 1:
        return [dec[0]]
    if not dec:
        return [helicity_child(a, b)]
    return [tuple(a), tuple(b)]


class SpecTrees:
    """frame(chain) and the variables of one topology as SymPy trees."""

    def __init__(self, momenta: dict[int, Any]):
        self.p = momenta
        self._tf: dict[tuple, Any] = {}

    def H(self, q):
        A, L, AE = _prims()
        beta = L.EuclideanNorm(L.ThreeMomentum(q)) / L.Energy(q)
        return (L.BoostZMatrix(beta, _NEV), L.RotationYMatrix(-A.Theta(q), _NEV), L.RotationZMatrix(-A.Phi(q), _NEV))

    def transform(self, chain: tuple, i: int):
        """final-state momentum i in frame(chain)"""
        A, L, AE = _prims()
        key = (chain, i)
        if key not in self._tf:
            if not chain:
                self._tf[key] = self.p[i]
            else:
                q = self.state(chain[1:], chain[0])
                self._tf[key] = AE.ArrayMultiplication(*self.H(q), self.transform(chain[1:], i))
        return self._tf[key]

    def state(self, chain: tuple, ids):
        """momentum of the state `ids` in frame(chain): the sum of its constituents' momenta in that frame"""
        A, L, AE = _prims()
        terms = [self.transform(chain, i) for i in ids]
        return terms[0] if len(terms) == 1 else AE.ArraySum(*terms)


def spec_variables(t):
    """-> (masses: {name: tree}, angles: {name: [admissible trees]}, meta: {name: (a, chain, sibling)})"""
    A, L, AE = _prims()
    final = fs_ids(t, root_edge(t))
    mom = {i: L.create_four_momentum_symbol(i) for i in final}
    S = SpecTrees(mom)
    masses = {}
    for eid in t.edges:
        ids = fs_ids(t, eid)
        masses["m_" + ids_label(ids)] = L.InvariantMass(S.state((), ids))
    angles: dict[str, list[Any]] = {}
    meta: dict[str, Any] = {}

    def visit(eid: int, chain: tuple):
        e = t.edges[eid]
        if e.ending_node_id is None:
            return
        c1, c2 = children(t, e.ending_node_id)
        a, b = fs_ids(t, c1), fs_ids(t, c2)
        h = helicity_child(a, b)
        sfx = suffix(h, chain)
        cands = [S.state(chain, ids) for ids in documented_momenta(a, b)]
        angles["phi" + sfx] = [A.Phi(q) for q in cands]
        angles["theta" + sfx] = [A.Theta(q) for q in cands]
        meta["phi" + sfx] = meta["theta" + sfx] = (h, chain, b if h == a else a)
        for c, ids in ((c1, a), (c2, b)):
            visit(c, (ids, *chain))

    visit(root_edge(t), ())
    return masses, angles, meta


def normalise(e, memo: dict | None = None):
    """Denotation-preserving normal form: nested ArrayMultiplication flattened (associativity of the contraction),
    one-term ArraySum dropped and terms sorted (component-wise sum), every ArraySize(...) replaced by one symbol (the
    matrix contracts do not depend on n_events)."""
    A, L, AE = _prims()
    memo = {} if memo is None else memo

    def go(x):
        if not isinstance(x, sp.Basic) or not x.args:
            return x
        if x in memo:
            return memo[x]
        if isinstance(x, L.ArraySize):
            out = _NEV
        else:
            args = [go(a) for a in x.args]
            if isinstance(x, AE.ArrayMultiplication) and args and isinstance(args[-1], AE.ArrayMultiplication):
                args = args[:-1] + list(args[-1].args)
            if isinstance(x, AE.ArraySum):
                args = sorted(args, key=sp.default_sort_key) if len(args) > 1 else args
                out = args[0] if len(args) == 1 else AE.ArraySum(*args)
            elif all(a is b for a, b in zip(args, x.args)):
                out = x
            else:
                out = x.func(*args)
        memo[x] = out
        return out

    return go(e)


# =====================================================================================================
# 3. the specification as an independent numpy boost-and-rotate implementation (used by every replay)
# =====================================================================================================
def np_helicity_frame(q):
    """Documentation: the helicity frame of q is reached by rotating q onto +z (first by -phi_q about z, then by
    -theta_q about y) and boosting along z into q's rest frame.  Component formulas, no matrices, no ampform."""
    E, x, y, z = (q[:, k] for k in range(4))
    rho = np.hypot(x, y)
    n = np.sqrt(rho * rho + z * z)
    safe = rho > 0
    cphi = np.where(safe, x / np.where(safe, rho, 1.0), 1.0)
    sphi = np.where(safe, y / np.where(safe, rho, 1.0), 0.0)
    cth, sth = z / n, rho / n
    beta = n / E
    gamma = 1.0 / np.sqrt(1.0 - beta * beta)

    def apply(p):
        e, px, py, pz = (p[:, k] for k in range(4))
        x1 = cphi * px + sphi * py
        y1 = -sphi * px + cphi * py
        x2 = cth * x1 - sth * pz
        z2 = sth * x1 + cth * pz
        return np.stack([gamma * (e - beta * z2), x2, y1, gamma * (z2 - beta * e)], axis=1)

    return apply


_NAME = re.compile(r"^(phi|theta|m)_(\d+)(?:\^([\d,]+))?$")


def parse_name(name: str):
    """'theta_3^34,234' -> ('theta', (3,), ((3,4),(2,3,4)))   (final-state ids are single digits: assumption)"""
    m = _NAME.match(name)
    if not m:
        raise ValueError(f"not a kinematic variable name: {name}")
    kind, sub, sup = m.groups()
    a = tuple(int(c) for c in sub)
    chain = tuple(tuple(int(c) for c in grp) for grp in sup.split(",")) if sup else ()
    return kind, a, chain


def indep_mass(ids, ev) -> np.ndarray:
    tot = sum(ev[i] for i in ids)
    m2 = tot[:, 0] ** 2 - tot[:, 1] ** 2 - tot[:, 2] ** 2 - tot[:, 3] ** 2
    return np.sqrt(m2.astype(complex))


def indep_values(name: str, all_ids, ev) -> list[np.ndarray]:
    """Admissible values of the variable `name` on the events `ev` (dict id -> (N,4) array), from its *name* alone."""
    kind, a, chain = parse_name(name)
    if kind == "m":
        return [indep_mass(a, ev)]
    frames: list[Any] = []

    def in_frame(i):
        p = ev[i]
        for f in frames:
            p = f(p)
        return p

    for c in reversed(chain):
        q = sum(in_frame(i) for i in c)
        frames.append(np_helicity_frame(q))
    parent = chain[0] if chain else tuple(sorted(all_ids))
    sib = tuple(i for i in parent if i not in a)
    out = []
    for ids in documented_momenta(a, sib):
        p = sum(in_frame(i) for i in ids)
        if kind == "phi":
            out.append(np.arctan2(p[:, 2], p[:, 1]))
        else:
            with np.errstate(all="ignore"):
                out.append(np.arccos(p[:, 3] / np.sqrt(p[:, 1] ** 2 + p[:, 2] ** 2 + p[:, 3] ** 2)))
    return out


def gen_events(ids, seed: int = 0, n: int = 40, cm: bool = False) -> dict[int, np.ndarray]:
    """Deterministic physical events: generic, massless particles, near threshold (|p| << m), highly boosted."""
    ids = sorted(ids)
    rng = np.random.default_rng(1000 + 7 * seed + len(ids))
    masses_pool = np.array([0.0, 0.0, 0.139, 0.494, 0.938, 1.5])
    ev = {i: np.zeros((n, 4)) for i in ids}
    for k in range(n):
        cls = k % 4  # 0 generic, 1 massless-rich, 2 near threshold, 3 highly boosted
        ms = rng.choice(masses_pool, size=len(ids))
        if cls == 1:
            ms = np.where(rng.random(len(ids)) < 0.7, 0.0, ms)
        if cls == 2:
            ms = np.where(ms == 0, 0.139, ms)
        scale = 0.01 if cls == 2 else 1.0
        ps = rng.normal(size=(len(ids), 3)) * scale
        ps[-1] = -ps[:-1].sum(axis=0)  # centre-of-mass frame of the decaying particle
        Es = np.sqrt(ms**2 + (ps**2).sum(axis=1))
        vecs = np.concatenate([Es[:, None], ps], axis=1)
        if cls == 3 and not cm:
            # boost the whole event along a random direction (gamma up to 60): the lab is not the rest frame
            d = rng.normal(size=3)
            d /= np.linalg.norm(d)
            g = float(rng.choice([3.0, 20.0, 60.0]))
            b = math.sqrt(1 - 1 / g**2)
            pl = vecs[:, 1:] @ d
            pl2 = g * (pl + b * vecs[:, 0])
            e2 = g * (vecs[:, 0] + b * pl)
            vecs = np.concatenate([e2[:, None], vecs[:, 1:] + np.outer(pl2 - pl, d)], axis=1)
        for j, i in enumerate(ids):
            ev[i][k] = vecs[j]
    return ev


def event_from_model(model, ids):
    if not model or not any(f"p{i}_E" in model for i in ids):
        return None
    return {i: np.array([[float(model.get(f"p{i}_{c}", 0.0)) for c in "Exyz"]]) for i in ids}


# ---- evaluation of the REAL expressions ---------------------------------------------------------------
_LAMB: dict[Any, Any] = {}


def numeric(expr, ev, cse: bool = True) -> np.ndarray:
    """doit() + lambdify(numpy) of a real expression, evaluated on the events."""
    key = (expr, cse)
    if key not in _LAMB:
        un = expr.doit()
        args = npvc.ordered_args(un)
        _LAMB[key] = (args, sp.lambdify(args, un, "numpy", cse=cse))
    args, f = _LAMB[key]
    vals = [ev[int(str(a.name)[1:])] for a in args]
    with np.errstate(all="ignore"):
        out = np.asarray(f(*vals))
    n = len(next(iter(ev.values())))
    return np.broadcast_to(out, (n,)) if out.shape != (n,) else out


def real_variables(t):
    """Run the real functions under contract on one topology."""
    from ampform.kinematics.angles import compute_helicity_angles
    from ampform.kinematics.lorentz import compute_invariant_masses, create_four_momentum_symbols

    mom = create_four_momentum_symbols(t)
    ang = {k.name: v for k, v in compute_helicity_angles(mom, t).items()}
    mas = {k.name: v for k, v in compute_invariant_masses(mom, t).items()}
    return ang, mas


def _angdiff(a, b):
    return np.abs((a - b + np.pi) % (2 * np.pi) - np.pi)


def compare(name: str, got: np.ndarray, cands: list[np.ndarray], tol: float = 1e-6):
    """-> index of the first event on which `got` matches none of the admissible values (or None)."""
    kind = name.split("_")[0]
    ok = np.zeros(len(got), dtype=bool)
    with np.errstate(all="ignore"):
        for w in cands:
            if kind == "phi":
                d = _angdiff(np.real(got), np.real(w))
            elif kind == "theta":
                d = np.abs(got - w)
            else:
                d = np.abs(got - w) / (1.0 + np.abs(w))
            ok |= np.nan_to_num(d, nan=np.inf) <= tol
            ok |= ~np.isfinite(np.real(w))  # floating-point acos at the boundary is outside the model (A-arith)
    bad = np.nonzero(~ok)[0]
    return int(bad[0]) if len(bad) else None


def _num(x):
    x = complex(x)
    return float(x.real) if abs(x.imag) < 1e-300 else [x.real, x.imag]


def check_variable(name: str, expr, all_ids, evs, cse: bool = True):
    """Compare one real expression with the independent implementation; -> failing record or None."""
    try:
        got = numeric(expr, evs, cse)
    except Exception as e:  # noqa: BLE001
        return {"variable": name, "observed": f"{type(e).__name__}: {e}"[:300], "expected": "a numpy array", "cse": cse}
    cands = indep_values(name, all_ids, evs)
    k = compare(name, got, cands)
    if k is None:
        return None
    return {
        "variable": name,
        "cse": cse,
        "input": {f"p{i}": [float(x) for x in evs[i][k]] for i in sorted(evs)},
        "observed": _num(got[k]),
        "expected": [_num(w[k]) for w in cands],
    }


def replay_variable(t, name: str, kind: str):
    """Property-level replay: the REAL functions are run again on topology t, the expression stored under `name` is
    evaluated (doit + lambdify numpy) on the counter-model's four-momenta (or, for structural obligations, on generated
    events) and compared with the independent implementation."""

    def rep(model):
        ids = fs_ids(t, root_edge(t))
        ang, mas = real_variables(t)
        table = ang if kind == "angle" else mas
        if name not in table:
            return {"reproduced": True, "input": {"topology": canon(t)}, "expected": f"a key named {name}",
                    "observed": f"keys {sorted(table)}"}
        evs = event_from_model(model, ids)
        source = "counter-model"
        if evs is None:
            evs, source = gen_events(ids, seed=0), "generated events"
        rec = check_variable(name, table[name], ids, evs)
        if rec is None and source == "counter-model":
            evs, source = gen_events(ids, seed=0), "generated events (the counter-model itself did not reproduce)"
            rec = check_variable(name, table[name], ids, evs)
        if rec is None:
            return {"reproduced": False, "note": f"real expression agrees with the independent implementation on {source}"}
        return {"reproduced": True, "topology": canon(t), "events": source, "real_expression": str(table[name])[:400], **rec}

    return rep


_SEARCH: dict[str, Any] = {}


def search_topologies():
    tops = []
    for n in (2, 3, 4):
        seen = set()
        for t in enumerate_topologies(n):
            c = canon(t)
            if c not in seen:
                seen.add(c)
                tops.append(t)
    return [t for k, t in enumerate(tops) if len(fs_ids(t, root_edge(t))) < 4 or k % 5 == 0]


def search(model=None):
    """Property-level replay for lemma obligations: run the REAL functions on a deterministic set of relabelled
    topologies (n = 2, 3, 4) and compare every kinematic variable (doit + lambdify, cse on and off) with the independent
    boost-and-rotate implementation on generated physical events (massless, near-threshold, highly boosted)."""
    if "result" in _SEARCH:
        return _SEARCH["result"]
    picked = search_topologies()
    checked = 0
    out = None
    for t in picked:
        ids = fs_ids(t, root_edge(t))
        try:
            ang, mas = real_variables(t)
        except Exception as e:  # noqa: BLE001
            out = {"reproduced": True, "topology": canon(t), "observed": f"{type(e).__name__}: {e}"[:300]}
            break
        smas, sang, _ = spec_variables(t)
        if set(ang) != set(sang) or set(mas) != set(smas):
            out = {"reproduced": True, "topology": canon(t), "expected": f"keys {sorted(sang) + sorted(smas)}",
                   "observed": f"keys {sorted(ang) + sorted(mas)}"}
            break
        evs = gen_events(ids, seed=1)
        for name, expr in list(ang.items()) + list(mas.items()):
            for cse in (True, False):
                if not cse and name.count(",") >= 1:
                    continue  # 270 kB of generated source per variable; cse=off is covered at chain depth <= 1
                rec = check_variable(name, expr, ids, evs, cse)
                checked += 1
                if rec is not None:
                    out = {"reproduced": True, "topology": canon(t), **rec}
                    break
            if out:
                break
        if out:
            break
    if out is None:
        out = {"reproduced": False,
               "note": f"no property-level failure: {checked} (variable; cse) pairs on {len(picked)} topologies x 40 events"}
    _SEARCH["result"] = out
    return out


# =====================================================================================================
# 4. E2 for nested frames: shared roots and let-abstraction of intermediate four-vectors
# =====================================================================================================
class _Point:
    """Memoised float evaluation of z3 terms at one random (physical) assignment: a *fingerprint*, never a proof."""

    def __init__(self, seed: int):
        import random

        self.rng = random.Random(seed)
        self.vals: dict[str, float] = {}
        self.memo: dict[int, Any] = {}
        self.keep: list[Any] = []

    def var(self, name: str) -> float:
        if name not in self.vals:
            self.vals[name] = self.rng.uniform(4.0, 6.0) if name.endswith("_E") else self.rng.uniform(0.3, 1.7) * self.rng.choice((-1, 1))
        return self.vals[name]

    def ev(self, t):
        i = t.get_id()
        if i in self.memo:
            return self.memo[i]
        self.keep.append(t)
        if z3.is_rational_value(t):
            v = t.numerator_as_long() / t.denominator_as_long()
        elif z3.is_const(t) and t.decl().kind() == z3.Z3_OP_UNINTERPRETED:
            v = self.var(t.decl().name())
        else:
            k = t.decl().kind()
            ch = [self.ev(c) for c in t.children()]
            if k == z3.Z3_OP_ADD:
                v = sum(ch)
            elif k == z3.Z3_OP_MUL:
                v = math.prod(ch)
            elif k == z3.Z3_OP_SUB:
                v = ch[0] - sum(ch[1:])
            elif k == z3.Z3_OP_UMINUS:
                v = -ch[0]
            elif k == z3.Z3_OP_DIV:
                v = ch[0] / ch[1] if ch[1] != 0 else float("nan")
            elif k == z3.Z3_OP_ITE:
                v = ch[1] if ch[0] else ch[2]
            elif k in (z3.Z3_OP_GE, z3.Z3_OP_LE, z3.Z3_OP_GT, z3.Z3_OP_LT):
                v = {z3.Z3_OP_GE: ch[0] >= ch[1], z3.Z3_OP_LE: ch[0] <= ch[1], z3.Z3_OP_GT: ch[0] > ch[1], z3.Z3_OP_LT: ch[0] < ch[1]}[k]
            else:
                raise TrError(f"fingerprint: unsupported z3 op {t.decl().name()}")
        self.memo[i] = v
        return v


_VARS: dict[int, tuple[Any, frozenset]] = {}


def _zvars(t) -> frozenset:
    """names of the uninterpreted constants of a z3 term (memoised per ast)"""
    i = t.get_id()
    hit = _VARS.get(i)
    if hit is not None:
        return hit[1]
    if z3.is_const(t):
        out = frozenset([t.decl().name()]) if t.decl().kind() == z3.Z3_OP_UNINTERPRETED else frozenset()
    else:
        out = frozenset().union(*[_zvars(c) for c in t.children()])
    _VARS[i] = (t, out)
    return out


def relevant(hyps: list[Any], claim) -> list[Any]:
    """Hypotheses that speak only about the claim's variables (a weaker hypothesis set: still a valid proof).  The
    merge lemmas are field identities between two small terms; the definitions of unrelated roots only slow nlsat."""
    vs = _zvars(claim)
    return [h for h in hyps if _zvars(h) <= vs]


def _close(fa, fb) -> bool:
    return all(abs(a - b) <= 1e-9 * (1.0 + abs(a)) for a, b in zip(fa, fb))


class TrE2(Tr):
    """Translator for E2 on nested frames.

    The generated code is a re-association of the unfolded tree's arithmetic, so the two denotations are equal as field
    expressions *once the same root is the same variable on both sides*.  (i) `sqrt_real` is memoised per argument term;
    an argument that is only numerically (fingerprint) equal to an earlier one re-uses the earlier root and records the
    lemma "arguments equal" — a root is a function of its argument, so this is sound exactly when the lemma holds, and
    the lemma is an obligation.  (ii) `abstract` names every contracted four-vector (result of ArrayMultiplication /
    einsum) by fresh variables defined by `v == term` (conservative extension); a later vector with the same fingerprint
    re-uses the variables under the lemma "terms equal".  Terms therefore never grow beyond one frame."""

    def __init__(self, name: str, sqrt_mode: str = "real"):
        super().__init__(name, sqrt_mode)
        self.points = [_Point(11), _Point(23)]
        self._root_by_id: dict[Any, Any] = {}
        self._root_list: list[Any] = []
        self._abs_by_id: dict[int, Any] = {}
        self._abs_list: list[Any] = []
        self.lemmas: list[tuple[str, list[Any], Any]] = []

    def _ctx(self):
        return list(self.assm) + list(self.side) + [c for _, c, _ in self.wd]

    def sqrt_real(self, x, mode=None, what=""):
        mode = mode or self.sqrt_mode
        if z3.is_rational_value(x):
            return super().sqrt_real(x, mode, what)
        key = (mode, x.get_id())
        if key in self._root_by_id:
            return self._root_by_id[key][0]
        fp = [p.ev(x) for p in self.points]
        for m2, x2, v2, fp2 in self._root_list:
            if m2 == mode and _close(fp, fp2):
                self.lemmas.append(("root_argument", relevant(self._ctx(), x == x2), x == x2))
                self._root_by_id[key] = (v2, x)
                return v2
        v = super().sqrt_real(x, mode, what)
        for p, f in zip(self.points, fp):
            p.vals[f"rt!{self.name}{self.n}"] = math.sqrt(abs(f))
        self._root_by_id[key] = (v, x)
        self._root_list.append((mode, x, v, fp))
        return v

    def abstract(self, vec):
        out = []
        for c in vec:
            if not isinstance(c, Cx) or not c.is_real or z3.is_rational_value(c.re):
                out.append(c)
                continue
            i = c.re.get_id()
            if i in self._abs_by_id:
                out.append(self._abs_by_id[i][0])
                continue
            fp = [p.ev(c.re) for p in self.points]
            hit = None
            for var, term, fp2 in self._abs_list:
                if _close(fp, fp2):
                    hit = (var, term)
                    break
            if hit is not None:
                self.lemmas.append(("vector_component", relevant(self._ctx(), c.re == hit[1]), c.re == hit[1]))
                self._abs_by_id[i] = (Cx(hit[0]), c.re)
                out.append(Cx(hit[0]))
                continue
            a = self.fresh("v")
            self.side.append(a == c.re)
            for p, f in zip(self.points, fp):
                p.vals[a.decl().name()] = f
            self._abs_list.append((a, c.re, fp))
            self._abs_by_id[i] = (Cx(a), c.re)
            out.append(Cx(a))
        return out


def _tre2(tag: str) -> TrE2:
    _, L, AE = _prims()
    tr = TrE2(tag)
    tr.specs[AE.ArrayMultiplication] = lambda tr_, e: tr_.abstract(K._array_mul(tr_, e))
    return tr


class InterpE2(npvc.Interp):
    def call(self, n):
        v = super().call(n)
        import ast as _ast

        if isinstance(n.func, _ast.Name) and n.func.id == "einsum" and isinstance(v, list) and v and isinstance(v[0], Cx):
            v = self.tr.abstract(v)
        return v


def e2_angle(chk: Check, prefix: str, fn: str, name: str, tree, cse: bool, replay) -> None:
    """Obligations: the numpy code generated for `tree.doit()` binds its names, is well defined wherever the unfolded
    tree is, and denotes the same (cos, sin) pair as the unfolded tree (whose equality with the folded tree is the
    body-meets-contract lemmas of C08 and of Phi/Theta here)."""
    unfolded = tree.doit()
    args = npvc.ordered_args(unfolded)
    try:
        _, src = npvc.lambdify_source(args, unfolded, cse)
    except Exception as e:  # noqa: BLE001
        chk.struct(f"{prefix}.lambdify_succeeds", False, fn, witness=f"{type(e).__name__}: {e}"[:300], replay=replay)
        return
    unbound = sorted(npvc.free_names(src) - (npvc.KNOWN_FUNCS | npvc.KNOWN_CONSTS))
    chk.struct(f"{prefix}.names_bound", not unbound, fn, witness={"unbound_names": unbound, "cse": cse}, replay=replay)
    if unbound:
        return

    def translate():
        tr = _tre2("e2")
        sym = tr.val(unfolded)
        n_sym_wd = len(tr.wd)
        val = InterpE2(tr, args).run(src)
        if not isinstance(sym, Ang) or not isinstance(val, Ang):
            raise TrError(f"expected angles, got {type(sym).__name__} / {type(val).__name__}")
        return tr, sym, val, n_sym_wd

    try:
        got = chk.guarded(prefix, translate, fn, replay=replay)
    except (npvc.NpvcUnsupported, npvc.UnboundName) as e:
        chk.struct(f"{prefix}.translatable", False, fn, witness=f"{type(e).__name__}: {e}"[:300], replay=replay, lemma=True)
        return
    if got is None:
        return
    tr, sym, val, n_sym_wd = got
    requires = [c for _, c, _ in tr.wd[:n_sym_wd]]  # "the symbolic tree is well defined at the event"
    known = {c.sexpr() for c in requires}
    wds = []
    for _what, cond, nside in tr.wd[n_sym_wd:]:
        s_ = cond.sexpr()
        if s_ in known:
            continue
        known.add(s_)
        wds.append((relevant(requires + list(tr.assm) + list(tr.side[:nside]), cond), cond))

    def conj(items):
        return z3.And(*[z3.Implies(z3.And(*h), c) if h else c for h, c in items])

    # one obligation per family (names must not depend on how many roots the printer happens to emit)
    if wds:
        chk.smt(f"{prefix}.code_well_defined", [], conj(wds), function=fn, replay=replay, lemma=True, note=f"{len(wds)} conditions of the generated code")
    else:
        chk.struct(f"{prefix}.code_well_defined", True, fn, replay=replay, lemma=True)
    if tr.lemmas:
        chk.smt(f"{prefix}.merges", [], conj([(h, c) for _, h, c in tr.lemmas]), function=fn, replay=replay, lemma=True,
                note=f"{len(tr.lemmas)} lemmas 'equal root argument' / 'equal vector component' that justify sharing variables between code and tree")
    else:
        chk.struct(f"{prefix}.merges", True, fn, replay=replay, lemma=True)
    if val.c.eq(sym.c) and val.s.eq(sym.s):
        chk.struct(f"{prefix}.code==symbolic", True, fn, replay=replay)
    else:
        claim = z3.And(val.c == sym.c, val.s == sym.s)
        chk.smt(f"{prefix}.code==symbolic", relevant(requires + tr.hyps(), claim), claim, function=fn, replay=replay)


# =====================================================================================================
# 5. obligations
# =====================================================================================================
def ob(s: str) -> str:
    """obligation names are comma free"""
    return s.replace(", ", ";").replace(",", ";")


def _add_wd(chk: Check, prefix: str, tr: Tr, requires: list[Any], function: str, start: int = 0, replay=None) -> None:
    """e1.add_wd with comma-free obligation names (the translator's texts contain '[-1,1]')."""
    seen = set()
    for what, cond, nside in tr.wd[start:]:
        key = cond.sexpr()
        if key in seen:
            continue
        seen.add(key)
        hyps = requires + list(tr.assm) + list(tr.side[:nside])
        chk.smt(ob(f"{prefix}.wd{len(seen)}[{what.split(':')[0][:40]}]"), hyps, cond, function=function, replay=replay, note=what)


def _assumptions(chk: Check) -> None:
    chk.assume("A-arith: floating point treated as exact real arithmetic; near-threshold / highly boosted floating-point conditioning is not decided")
    chk.assume("A-batch: array expressions act independently on each event (leading axis)")
    chk.assume("A-denote: SymPy node -> SMT translation table (vlib/tr.py), cross-checked at each cover model against numpy evaluation of the real tree")
    chk.assume("requires (angles): every composite momentum q whose helicity frame is entered is time-like with E > 0 and has (q_x, q_y) != (0, 0); "
               "every momentum whose angles are taken has non-zero three-momentum (atan2(0,0) and 0/0 are a measure-zero set of events)")
    chk.assume("final-state ids are single digits (the subscript of a variable name is parsed digit by digit; true for 2..5 final states)")
    chk.assume("structural domain: the Topology objects produced by qrules.topology.create_isobar_topologies(n) and Topology.relabel_edges "
               "(node ids as qrules assigns them; final-state ids 0..n-1, intermediate ids n..2n-3); quick tier n <= 4, thorough n <= 5")
    chk.assume("structural equality of two trees over the contracted primitives (Phi, Theta, BoostZMatrix, RotationY/ZMatrix, ArrayMultiplication, "
               "ArraySum, EuclideanNorm, ThreeMomentum, Energy, InvariantMass) implies equal denotation: the contracts are functions of the arguments "
               "(C08 proves the real classes meet specs_kin.py; Phi/Theta are proved here)")
    chk.assume("normalisation used before comparing trees: ArrayMultiplication is associative (contraction), ArraySum is commutative and ArraySum(x) = x, "
               "the n_events argument of the matrix classes does not influence their per-event value")
    chk.assume("spec of the naming: the child of a node whose sorted final-state id tuple is lexicographically smaller is the helicity state "
               "(documentation of is_opposite_helicity_state: state 0 is never opposite; exactly one of two siblings is)")
    chk.assume("spec of the documented momentum: decaying child's momentum where exactly one child decays (docstring example theta_0 = Theta(p1+p2)), "
               "the helicity state's own momentum where none decays, either child's where both decay")
    chk.assume("three-body Dalitz clause: events are given in the rest frame of the decaying particle; instance-level numeric cross-check on generated "
               "events (bounded), the general statement is C19's lemma chain (A9, A10)")
    chk.assume("E2 on nested frames: the symbolic value is the denotation of the unfolded tree (doit()); its equality with the contract-level denotation "
               "is the body-meets-contract lemmas (C08, Phi/Theta here); roots are shared between code and tree under explicit 'equal argument' lemmas")
    chk.trust("z3 5.1.0 / cvc5 1.4 unsat answers")
    chk.trust("sympy.lambdify returns the function whose source inspect.getsource shows")
    chk.trust("qrules.topology: Topology.edges / Edge.originating_node_id / Edge.ending_node_id, create_isobar_topologies, relabel_edges")


def _phys(i: int):
    E, x, y, z = (z3.Real(f"p{i}_{c}") for c in "Exyz")
    return E, x, y, z


# ---- Phi / Theta: body meets contract ---------------------------------------------------------------------
def _primitives(chk: Check) -> None:
    A, L, AE = _prims()
    p = L.create_four_momentum_symbol(0)
    for cls, specf, what in ((A.Phi, SA.phi_spec, "phi"), (A.Theta, SA.theta_spec, "theta")):
        nm = cls.__name__
        fn = FA + nm + ".evaluate"
        tr = Tr(what)
        pv = tr.val(p)
        x, y, z = pv[1].re, pv[2].re, pv[3].re
        req = [x * x + y * y > 0] if cls is A.Phi else [x * x + y * y + z * z > 0]
        node = cls(p)
        sv = specf(tr, pv)
        _add_wd(chk, f"{nm}.spec", tr, req, FA + nm, replay=search)
        n_wd = len(tr.wd)
        bv = chk.guarded(f"{nm}.evaluate", lambda: tr.val(node.evaluate()), fn, replay=search)
        if bv is None or not isinstance(bv, Ang):
            if bv is not None:
                chk.struct(f"{nm}.evaluate.is_angle", False, fn, witness=type(bv).__name__, lemma=True, replay=search)
            continue
        _add_wd(chk, f"{nm}.evaluate", tr, req, fn, start=n_wd, replay=search)
        hyps = req + tr.hyps()
        chk.smt(f"{nm}.evaluate==spec", hyps, eq_all(bv, sv), function=fn, lemma=True, replay=search)
        chk.cover(f"{nm}.cover", hyps + [x != 0, y != 0, z != 0], fn, model_check=e1.cover_check(tr, bv, node))
        if cls is A.Theta:
            rho, n, _ = SA.polar_roots(tr, pv)
            chk.mustfail("selftest.Theta.cos_is_minus_pz_over_norm", hyps, bv.c == -z / n, function=fn)
            # the polar angle is in [0, pi]: sin >= 0
            chk.smt("Theta.spec.sin>=0", hyps, sv.s >= 0, function=FA + nm)
        else:
            chk.mustfail("selftest.Phi.is_shifted_by_pi", hyps, z3.And(bv.c == -sv.c, bv.s == -sv.s), function=fn)


# ---- L-align: H(q) = Bz(|q|/E) Ry(-theta_q) Rz(-phi_q) takes q to rest with the rotated q along +z -------------
def _align(chk: Check) -> None:
    A, L, AE = _prims()
    from qrules.topology import create_isobar_topologies

    fn = FA + "compute_helicity_angles"
    t = create_isobar_topologies(3)[0]
    ang, _ = real_variables(t)
    _, sang, _ = spec_variables(t)
    name = sorted(k for k in sang if k.startswith("theta") and "^" in k)[0]

    def shape_ok(tree):
        try:
            am = tree.args[0]
            bz, ry, rz, _p = am.args
            phis = list(rz.args[0].atoms(A.Phi))
            return (isinstance(am, AE.ArrayMultiplication) and isinstance(bz, L.BoostZMatrix) and isinstance(ry, L.RotationYMatrix)
                    and isinstance(rz, L.RotationZMatrix) and len(phis) == 1)
        except Exception:  # noqa: BLE001
            return False

    tree = ang.get(name)
    ok = tree is not None and shape_ok(tree)
    chk.struct("L-align.real_tree_is_AM(M1;M2;M3;p)", ok, fn, witness=str(tree)[:300], lemma=True, replay=search)
    source = "real"
    if not ok:
        tree, source = sang[name][0], "spec"
    m1, m2, m3, _p = tree.args[0].args
    qnode = list(m3.args[0].atoms(A.Phi))[0].args[0]
    tr = Tr("al")
    qE, qx, qy, qz = (z3.Real(f"q_{c}") for c in "Exyz")
    qv = [Cx(qE), Cx(qx), Cx(qy), Cx(qz)]
    tr.bind(qnode, qv)
    req = [qE > 0, qE * qE - qx * qx - qy * qy - qz * qz > 0, qx * qx + qy * qy > 0]

    def rep_align(model):
        """H(q) q on the REAL matrices (doit + lambdify) at the counter-model's q, else the property-level search."""
        if model and "q_E" in model:
            q = np.array([[float(model.get(f"q_{c}", 0.0)) for c in "Exyz"]])
            ids = fs_ids(t, root_edge(t))
            syms = sorted(qnode.atoms(sp.tensor.array.expressions.array_expressions.ArraySymbol), key=str)
            ev = {i: np.zeros((1, 4)) for i in ids}
            if syms:
                ev[int(str(syms[0].name)[1:])] = q
                try:
                    un = AE.ArrayMultiplication(m1, m2, m3, qnode).doit()
                    args = npvc.ordered_args(un)
                    out = np.asarray(sp.lambdify(args, un, "numpy", cse=True)(*[ev[int(str(a.name)[1:])] for a in args]))[0]
                    m = math.sqrt(max(q[0, 0] ** 2 - q[0, 1] ** 2 - q[0, 2] ** 2 - q[0, 3] ** 2, 0.0))
                    if not np.all(np.isfinite(out)) or np.max(np.abs(out - np.array([m, 0, 0, 0]))) > 1e-7 * (1 + abs(q[0, 0])):
                        return {"reproduced": True, "input": {"q": q[0].tolist()}, "expected": [m, 0, 0, 0], "observed": out.tolist(),
                                "what": "H(q) q on the real matrices of compute_helicity_angles"}
                except Exception as e:  # noqa: BLE001
                    return {"reproduced": True, "input": {"q": q[0].tolist()}, "observed": f"{type(e).__name__}: {e}"[:300]}
        return search(model)

    got = chk.guarded("L-align.matrices", lambda: (tr.val(m3), tr.val(m2), tr.val(m1)), fn, replay=rep_align)
    if got is None:
        return
    Rz, Ry, Bz = got
    rho, n, _ = SA.polar_roots(tr, qv)
    _add_wd(chk, "L-align.H(q)", tr, req, fn, replay=rep_align)
    hyps = req + tr.hyps()
    m = z3.Real("m_q")
    mh = [m > 0, m * m == qE * qE - qx * qx - qy * qy - qz * qz]
    v1 = matvec(Rz, qv)
    chk.smt("L-align.step1: Rz(-phi_q) q = (E; rho; 0; q_z)", hyps, eq_all(v1, [Cx(qE), Cx(rho), CZERO, Cx(qz)]), function=fn, lemma=True, replay=rep_align)
    v2 = matvec(Ry, [Cx(qE), Cx(rho), CZERO, Cx(qz)])
    chk.smt("L-align.step2: Ry(-theta_q) (E; rho; 0; q_z) = (E; 0; 0; |q|)", hyps, eq_all(v2, [Cx(qE), CZERO, CZERO, Cx(n)]), function=fn, lemma=True, replay=rep_align)
    v3 = matvec(Bz, [Cx(qE), CZERO, CZERO, Cx(n)])
    chk.smt("L-align.step3: Bz(|q|/E) (E; 0; 0; |q|) = (m_q; 0; 0; 0)", hyps + mh, eq_all(v3, [Cx(m), CZERO, CZERO, CZERO]), function=fn, lemma=True, replay=rep_align)
    rot = matvec(Ry, matvec(Rz, qv))
    chk.smt("L-align.rotated_q_points_along_+z", hyps, z3.And(rot[1].re == 0, rot[2].re == 0, rot[3].re > 0, rot[3].re * rot[3].re == qx * qx + qy * qy + qz * qz, rot[0].re == qE),
            function=fn, lemma=True, replay=rep_align)
    # composition: w1 := Rz q, w2 := Ry w1, w3 := Bz w2 (definitions); the three step lemmas are the only facts used
    w = [[Cx(z3.Real(f"w{k}_{c}")) for c in "Exyz"] for k in (1, 2, 3)]
    defs = [eq_all(w[0], v1), eq_all(w[1], matvec(Ry, w[0])), eq_all(w[2], matvec(Bz, w[1]))]
    steps = [eq_all(v1, [Cx(qE), Cx(rho), CZERO, Cx(qz)]), eq_all(v2, [Cx(qE), CZERO, CZERO, Cx(n)]), eq_all(v3, [Cx(m), CZERO, CZERO, CZERO])]
    chk.smt("L-align.H(q)q=(m_q;0;0;0)", defs + steps, eq_all(w[2], [Cx(m), CZERO, CZERO, CZERO]), function=fn, lemma=True, replay=rep_align,
            note="w3 = Bz Ry Rz q by definition; uses only the step lemmas 1-3")
    chk.cover("L-align.cover", hyps + mh + [qz != 0, qx != 0, qy != 0], fn)
    chk.mustfail("selftest.L-align.rotated_q_points_along_-z", hyps, rot[3].re < 0, function=fn)
    chk.notes.append(f"L-align proved on the {source} matrices of the three-body topology")


# ---- masses: denotation of (name, tree) pairs ---------------------------------------------------------------
def _mass_denotation(chk: Check, oname: str, name: str, tree, t) -> None:
    """m_<ids> -> tree: the tree's denotation (through the InvariantMass / ArraySum contracts) is the principal square
    root of (sum E)^2 - |sum p|^2 over exactly the ids of the subscript, for ALL real four-momenta."""
    fn = FL + "compute_invariant_masses"
    rep = replay_variable(t, name, "mass")
    try:
        _, ids, _ = parse_name(name)
    except ValueError:
        chk.struct(oname, False, fn, witness=f"unparsable name {name}", replay=rep)
        return
    tr = Tr("mass", sqrt_mode="principal")
    val = chk.guarded(oname, lambda: tr.scalar(tree), fn, replay=rep)
    if val is None:
        return
    comps = [_phys(i) for i in ids]
    E = sum(c[0] for c in comps)
    s = E * E - sum(sum(c[k] for c in comps) ** 2 for k in (1, 2, 3))
    re, im = val.re, val.imz
    claim = z3.And(re >= 0, im >= 0, re * im == 0, re * re - im * im == s)
    chk.smt(oname, tr.hyps(), claim, function=fn, replay=rep)


def _replay_keys(t):
    def rep(model):
        smas, sang, _ = spec_variables(t)
        try:
            ang, mas = real_variables(t)
        except Exception as e:  # noqa: BLE001
            return {"reproduced": True, "input": {"topology": canon(t)}, "expected": sorted(sang) + sorted(smas), "observed": f"{type(e).__name__}: {e}"[:300]}
        bad = set(ang) != set(sang) or set(mas) != set(smas)
        return {"reproduced": bool(bad), "input": {"topology": canon(t)}, "expected": sorted(sang) + sorted(smas), "observed": sorted(ang) + sorted(mas)}

    return rep


def _helpers_ok(t) -> list[str]:
    """Documentation-level contracts of the naming / tree helpers on one topology (finite check on the real functions)."""
    from ampform.helicity import decay as D
    from ampform.helicity import naming as N
    from ampform.kinematics import lorentz as L

    bad: list[str] = []

    def guard(label, thunk):
        try:
            msg = thunk()
        except Exception as e:  # noqa: BLE001
            msg = f"{type(e).__name__}: {e}"[:120]
        if msg:
            bad.append(f"{label}: {msg}")

    root = root_edge(t)
    mom = L.create_four_momentum_symbols(t)
    S = SpecTrees({i: L.create_four_momentum_symbol(i) for i in fs_ids(t, root)})
    for eid, e in t.edges.items():
        ids = fs_ids(t, eid)
        guard(f"determine_attached_final_state({eid})", lambda: None if list(D.determine_attached_final_state(t, eid)) == list(ids) else
              f"{D.determine_attached_final_state(t, eid)} != {list(ids)}")

        def mass_symbol():
            s = L.get_invariant_mass_symbol(t, eid)
            return None if s.name == "m_" + ids_label(ids) and s.is_nonnegative else f"{s}"

        guard(f"get_invariant_mass_symbol({eid})", mass_symbol)
        guard(f"get_four_momentum_sum({eid})", lambda: None if normalise(L.get_four_momentum_sum(t, mom, eid)) == normalise(S.state((), ids)) else
              f"{L.get_four_momentum_sum(t, mom, eid)}")
        if eid == root:
            continue
        sibs = [c for c in children(t, e.originating_node_id) if c != eid]
        guard(f"get_sibling_state_id({eid})", lambda: None if len(sibs) == 1 and D.get_sibling_state_id(t, eid) == sibs[0] else "not the other child")
        if len(sibs) != 1:
            continue
        sib = fs_ids(t, sibs[0])

        def opposite():
            opp = D.is_opposite_helicity_state(t, eid)
            ok = opp == (ids > sib) and opp != D.is_opposite_helicity_state(t, sibs[0]) and not (ids == (0,) and opp)
            return None if ok else f"{opp} for {ids} with sibling {sib}"

        guard(f"is_opposite_helicity_state({eid})", opposite)
        chain = []
        cur = e
        while True:
            (par,) = [i for i, pe in t.edges.items() if pe.ending_node_id == cur.originating_node_id]
            if par == root:
                break
            chain.append(fs_ids(t, par))
            cur = t.edges[par]
        sfx = suffix(ids, tuple(chain))
        guard(f"get_boost_chain_suffix({eid})", lambda: None if N.get_boost_chain_suffix(t, eid) == sfx else f"{N.get_boost_chain_suffix(t, eid)} != {sfx}")

        def symbols():
            phi, theta = N.get_helicity_angle_symbols(t, eid)
            ok = (phi.name, theta.name) == ("phi" + sfx, "theta" + sfx) and phi.is_real and theta.is_real
            return None if ok else f"{phi} {theta}"

        guard(f"get_helicity_angle_symbols({eid})", symbols)
    return bad


_HELPERS = (
    (FD + "determine_attached_final_state", "determine_attached_final_state"),
    (FL + "get_invariant_mass_symbol", "get_invariant_mass_symbol"),
    (FL + "get_four_momentum_sum", "get_four_momentum_sum"),
    (FD + "get_sibling_state_id", "get_sibling_state_id"),
    (FD + "is_opposite_helicity_state", "is_opposite_helicity_state"),
    (FN + "get_boost_chain_suffix", "get_boost_chain_suffix"),
    (FN + "get_helicity_angle_symbols", "get_helicity_angle_symbols"),
)


def _decide_angle(chk: Check, oname: str, t, name: str, real_tree, spec_trees, memo) -> None:
    fn = FA + "compute_helicity_angles"
    rep = replay_variable(t, name, "angle")
    nv = normalise(real_tree, memo)
    if any(nv == normalise(s, memo) for s in spec_trees):
        chk.struct(oname, True, fn, replay=rep)
        return
    r = rep({})
    if r.get("reproduced"):
        chk.struct(oname, False, fn, witness={k: r.get(k) for k in ("input", "expected", "observed")}, replay=rep)
        return
    # not syntactically the spec tree and no numeric difference found: decide by E1
    def thunk():
        tr = Tr("fb")
        return tr, tr.val(real_tree), [tr.val(s) for s in spec_trees]

    got = chk.guarded(oname, thunk, fn, replay=rep)
    if got is None:
        return
    tr, rv, alts = got
    hyps = tr.hyps() + [c for _, c, _ in tr.wd]
    chk.smt(oname, hyps, z3.Or(*[eq_all(rv, a) for a in alts]), function=fn, replay=rep)


def _replay_adapter(n: int, name: str):
    """Replay of a name-consistency failure on the REAL adapter: all final-state permutations of the isobar shapes are
    registered with HelicityAdapter.permutate_registered_topologies; the candidate definitions of `name` are evaluated on
    a four-momentum event and shown to differ."""

    def rep(model):
        from qrules.topology import create_isobar_topologies

        from ampform.kinematics import HelicityAdapter

        ad = HelicityAdapter(create_isobar_topologies(n))
        ad.permutate_registered_topologies()
        found: dict[Any, Any] = {}
        for t in sorted(ad.registered_topologies, key=canon):
            ang, mas = real_variables(t)
            tree = {**ang, **mas}.get(name)
            if tree is not None:
                found.setdefault(normalise(tree), (tree, canon(t)))
        if len(found) < 2:
            return {"reproduced": False, "note": f"{len(found)} definition(s) of {name} among {len(ad.registered_topologies)} registered topologies"}
        ids = list(range(n))
        evs = event_from_model(model, ids) or gen_events(ids, seed=2)
        (ta, ca), (tb, cb) = list(found.values())[:2]
        va, vb = numeric(ta, evs), numeric(tb, evs)
        kind = name.split("_")[0]
        with np.errstate(all="ignore"):
            d = _angdiff(np.real(va), np.real(vb)) if kind == "phi" else np.abs(va - vb)
        k = int(np.nanargmax(d))
        surviving = ad.create_expressions().get(sp.Symbol(name, real=True))
        if surviving is None:
            surviving = ad.create_expressions().get(sp.Symbol(name, nonnegative=True))
        return {
            "reproduced": bool(d[k] > 1e-6),
            "registered_topologies": len(ad.registered_topologies),
            "input": {f"p{i}": [float(x) for x in evs[i][k]] for i in ids},
            "definition_A": {"topology": ca, "tree": str(ta)[:160], "value": _num(va[k])},
            "definition_B": {"topology": cb, "tree": str(tb)[:160], "value": _num(vb[k])},
            "create_expressions_kept_in_this_process": ("A" if surviving is not None and normalise(surviving) == normalise(ta) else "B" if surviving is not None and normalise(surviving) == normalise(tb) else str(surviving)[:80]),
            "expected": f"one numerical meaning of {name} in one adapter",
            "observed": f"|A - B| = {float(d[k]):.6g}",
        }

    return rep


def _consistency_label(n: int, name: str) -> str:
    try:
        kind, a, chain = parse_name(name)
    except ValueError:
        return f"{n}body:?"
    if kind == "m":
        return f"{n}body"
    parent = chain[0] if chain else tuple(range(n))
    sib = tuple(i for i in parent if i not in a)
    return f"{n}body:({ids_label(a)})({ids_label(sib)})"


def _enumeration(chk: Check, n_values) -> dict[str, Any]:
    fnA = FA + "compute_helicity_angles"
    fnM = FL + "compute_invariant_masses"
    classes: dict[str, list[Any]] = {}
    enumerated: dict[int, int] = {}
    for n in n_values:
        enumerated[n] = 0
        for t in enumerate_topologies(n):
            enumerated[n] += 1
            lst = classes.setdefault(canon(t), [])
            if t not in lst:
                lst.append(t)
    memo: dict[Any, Any] = {}
    defs: dict[int, dict[str, dict[Any, Any]]] = {}
    mass_pairs: dict[Any, Any] = {}
    n_objects = 0
    for cs, objs in classes.items():
        t0 = objs[0]
        n = len(fs_ids(t0, root_edge(t0)))
        smas, sang, _meta = spec_variables(t0)
        helpers_bad: list[str] = []
        keys_bad: list[str] = []
        mass_bad: list[Any] = []
        runs = []
        for t in objs:
            n_objects += 1
            try:
                ang, mas = real_variables(t)
                helpers_bad += _helpers_ok(t)
            except Exception as e:  # noqa: BLE001
                keys_bad.append(f"{type(e).__name__}: {e}"[:200])
                continue
            runs.append((t, ang, mas))
            if set(ang) != set(sang):
                keys_bad.append(f"angle keys {sorted(set(ang) ^ set(sang))}")
            if set(mas) != set(smas):
                keys_bad.append(f"mass keys {sorted(set(mas) ^ set(smas))}")
            for name, tree in list(ang.items()) + list(mas.items()):
                defs.setdefault(n, {}).setdefault(name, {}).setdefault(normalise(tree, memo), (tree, cs, t))
            for name, tree in mas.items():
                mass_pairs.setdefault((name, tree), t)
                if name in smas and normalise(tree, memo) != normalise(smas[name], memo):
                    r = replay_variable(t, name, "mass")({})
                    if r.get("reproduced"):
                        mass_bad.append({k: r.get(k) for k in ("variable", "input", "expected", "observed")})
        for qual, short in _HELPERS:
            mine = [b for b in helpers_bad if b.startswith(short + "(")]
            chk.struct(f"helpers[{cs}].{short}", not mine, qual, witness=mine[:4], replay=_replay_helpers(objs, short))
        chk.struct(f"keys[{cs}]", not keys_bad, fnA, witness=keys_bad[:6], replay=_replay_keys(t0))
        chk.struct(f"masses[{cs}]", not mass_bad, fnM, witness=mass_bad[:3], replay=_replay_masses(objs))
        for name in sorted(sang):
            oname = ob(f"angles[{cs}]:{name}")
            present = [(t, ang[name]) for t, ang, _ in runs if name in ang]
            if not present:
                chk.struct(oname, False, fnA, witness=f"no key {name}", replay=replay_variable(t0, name, "angle"))
                continue
            # all objects of a class (they differ in node ids only) must give the same tree; decide on the first, compare the rest
            t, tree = present[0]
            same = all(normalise(tr2, memo) == normalise(tree, memo) for _, tr2 in present[1:])
            if not same:
                chk.struct(oname, False, fnA, witness="trees depend on node ids", replay=replay_variable(t0, name, "angle"))
                continue
            _decide_angle(chk, oname, t, name, tree, sang[name], memo)
    # one denotation obligation per (name, tree up to normalisation); the variant that is the spec tree carries the plain name
    _, L_, AE_ = _prims()
    seen_variants: dict[str, list[Any]] = {}
    for (name, tree), t in mass_pairs.items():
        nt = normalise(tree, memo)
        variants = seen_variants.setdefault(name, [])
        if nt in variants:
            continue
        variants.append(nt)
        try:
            _, ids_, _ = parse_name(name)
            is_spec = nt == normalise(L_.InvariantMass(SpecTrees({i: L_.create_four_momentum_symbol(i) for i in ids_}).state((), ids_)), memo)
        except ValueError:
            is_spec = False
        oname = f"masses.denotation[{name}]" if is_spec else ob(f"masses.denotation[{name}]!=spec:{nt}")
        _mass_denotation(chk, oname, name, tree, t)
    return {"classes": classes, "enumerated": enumerated, "objects": n_objects, "defs": defs, "memo": memo}


def _replay_helpers(objs, short: str):
    def rep(model):
        bad = []
        for t in objs:
            bad += [b for b in _helpers_ok(t) if b.startswith(short + "(")]
        return {"reproduced": bool(bad), "input": {"topology": canon(objs[0])}, "observed": bad[:6], "expected": "documented behaviour of the helper functions"}

    return rep


def _replay_masses(objs):
    def rep(model):
        for t in objs:
            _, mas = real_variables(t)
            for name in sorted(mas):
                r = replay_variable(t, name, "mass")(model)
                if r.get("reproduced"):
                    return r
        return {"reproduced": False}

    return rep


def _name_consistency(chk: Check, info) -> None:
    fn = FK + "create_expressions"
    memo = info["memo"]
    for n in sorted(info["defs"]):
        for name in sorted(info["defs"][n]):
            variants = list(info["defs"][n][name].values())
            oname = ob(f"name_consistency[{_consistency_label(n, name)}]:{name}")
            rep = _replay_adapter(n, name)
            if len(variants) == 1:
                chk.struct(oname, True, fn, replay=rep)
                continue
            ids = list(range(n))
            evs = gen_events(ids, seed=2)
            kind = name.split("_")[0]
            differ = None
            try:
                vals = [numeric(v[0], evs) for v in variants]
                with np.errstate(all="ignore"):
                    for a, b in itertools.combinations(range(len(vals)), 2):
                        d = _angdiff(np.real(vals[a]), np.real(vals[b])) if kind == "phi" else np.abs(vals[a] - vals[b])
                        if np.nanmax(d) > 1e-6:
                            differ = (a, b, int(np.nanargmax(d)), float(np.nanmax(d)))
                            break
            except Exception as e:  # noqa: BLE001
                differ = (0, 1, 0, f"{type(e).__name__}: {e}"[:200])
            if differ is not None:
                a, b, k, dist = differ
                chk.struct(oname, False, fn, replay=rep, witness={
                    "definitions": [{"topology": variants[i][1], "tree": str(variants[i][0])[:160]} for i in (a, b)],
                    "event": {f"p{i}": [float(x) for x in evs[i][k]] for i in ids}, "difference": dist})
                continue
            # distinct trees, numerically equal on the sample: E1

            def thunk(variants=variants):
                tr = Tr("nc")
                return tr, [tr.val(v[0]) for v in variants]

            got = chk.guarded(oname, thunk, fn, replay=rep)
            if got is None:
                continue
            tr, vs = got
            hyps = tr.hyps() + [c for _, c, _ in tr.wd]
            chk.smt(oname, hyps, z3.And(*[eq_all(vs[0], v) for v in vs[1:]]), function=fn, replay=rep)


def _adapter(chk: Check, info, n_values) -> None:
    """HelicityAdapter: permutate_registered_topologies registers exactly the final-state relabellings; create_expressions
    returns, for every name, one of the definitions some registered topology gives (which one is name consistency)."""
    from qrules.topology import create_isobar_topologies

    from ampform.kinematics import HelicityAdapter

    memo = info["memo"]
    for n in n_values:
        shapes = create_isobar_topologies(n)
        ad = HelicityAdapter(shapes)
        ad.permutate_registered_topologies()
        want = set()
        for shape in shapes:
            fs = sorted(shape.outgoing_edge_ids)
            for pf in itertools.permutations(fs):
                want.add(canon(shape.relabel_edges(dict(zip(fs, pf)))))
        got = {canon(t) for t in ad.registered_topologies}

        def rep_perm(model, n=n, want=want):
            ad2 = HelicityAdapter(create_isobar_topologies(n))
            ad2.permutate_registered_topologies()
            got2 = {canon(t) for t in ad2.registered_topologies}
            return {"reproduced": got2 != want, "input": {"n": n}, "expected": sorted(want)[:8], "observed": sorted(got2)[:8]}

        chk.struct(f"HelicityAdapter.permutate_registered_topologies[{n}body]==all_final_state_relabellings", got == want, FK + "permutate_registered_topologies",
                   witness={"missing": sorted(want - got)[:4], "extra": sorted(got - want)[:4]}, replay=rep_perm)
        exprs = ad.create_expressions()
        bad = []
        names = info["defs"].get(n, {})
        for k, v in exprs.items():
            if k.name not in names or normalise(v, memo) not in names[k.name]:
                bad.append(k.name)
        missing = sorted(set(names) - {k.name for k in exprs})

        def rep_ce(model, n=n):
            ad2 = HelicityAdapter(create_isobar_topologies(n))
            ad2.permutate_registered_topologies()
            ex = ad2.create_expressions()
            per = {}
            for t in ad2.registered_topologies:
                a, m = real_variables(t)
                for nm, tree in {**a, **m}.items():
                    per.setdefault(nm, set()).add(normalise(tree))
            wrong = sorted(k.name for k, v in ex.items() if normalise(v) not in per.get(k.name, set()))
            lost = sorted(set(per) - {k.name for k in ex})
            return {"reproduced": bool(wrong or lost), "input": {"n": n}, "observed": {"not_a_registered_definition": wrong[:6], "missing": lost[:6]}}

        chk.struct(f"HelicityAdapter.create_expressions[{n}body]==union_of_registered_definitions", not bad and not missing, FK + "create_expressions",
                   witness={"foreign": bad[:6], "missing": missing[:6]}, replay=rep_ce)


# ---- (e) three-body: helicity polar angle == Dalitz closed form ------------------------------------------------
def _dalitz(chk: Check) -> None:
    from qrules.topology import create_isobar_topologies

    from ampform.kinematics.angles import formulate_scattering_angle

    fn = FA + "formulate_scattering_angle"
    base = create_isobar_topologies(3)[0]
    fs = sorted(base.outgoing_edge_ids)
    (im,) = sorted(base.intermediate_edge_ids)
    seen = set()
    for perm in itertools.permutations((1, 2, 3)):
        t = base.relabel_edges({**dict(zip(fs, perm)), im: 0})
        cs = canon(t)
        if cs in seen:
            continue
        seen.add(cs)
        ids = fs_ids(t, root_edge(t))
        _, sang, _ = spec_variables(t)
        name = sorted(k for k in sang if k.startswith("theta") and "^" in k)[0]  # the polar angle inside the isobar's frame
        _, a, chain = parse_name(name)
        i = a[0]
        (j,) = [x for x in chain[0] if x != i]

        def run(model=None, t=t, ids=ids, name=name, i=i, j=j):
            ang, _ = real_variables(t)
            sym, closed = formulate_scattering_angle(i, j)
            worst = None
            for seed in (3, 4, 5):
                evs = gen_events(ids, seed=seed, n=24, cm=True)
                vals = {"m_0": indep_mass(ids, evs).real}
                for x in ids:
                    vals[f"m_{x}"] = indep_mass((x,), evs).real
                for pr in itertools.combinations(ids, 2):
                    vals[f"m_{pr[0]}{pr[1]}"] = indep_mass(pr, evs).real
                syms = sorted(closed.free_symbols, key=str)
                with np.errstate(all="ignore"):
                    cf = np.asarray(sp.lambdify(syms, closed.doit(), "numpy")(*[vals[s.name] for s in syms]), dtype=float)
                four = np.real(numeric(ang[name], evs))
                indep = indep_values(name, ids, evs)[0]
                with np.errstate(all="ignore"):
                    d = np.nan_to_num(np.maximum(np.abs(cf - four), np.abs(cf - indep)), nan=np.inf)
                k = int(np.argmax(d))
                if worst is None or d[k] > worst[0]:
                    worst = (float(d[k]), {f"p{x}": [float(c) for c in evs[x][k]] for x in ids}, float(four[k]), float(cf[k]), float(indep[k]))
            return worst

        try:
            worst = run()
            holds = worst[0] <= 1e-6
            wit = {"max_abs_difference": worst[0], "event": worst[1], "four_vector_route": worst[2], "closed_form": worst[3], "independent": worst[4]}
        except Exception as e:  # noqa: BLE001
            holds, wit = False, f"{type(e).__name__}: {e}"[:300]

        def rep(model, run=run, cs=cs, name=name):
            try:
                worst = run()
            except Exception as e:  # noqa: BLE001
                return {"reproduced": True, "input": {"topology": cs}, "expected": f"a key {name} and a closed form", "observed": f"{type(e).__name__}: {e}"[:300]}
            return {"reproduced": bool(worst[0] > 1e-6), "input": worst[1], "observed": {"helicity_angle_from_four_vectors": worst[2]},
                    "expected": {"formulate_scattering_angle": worst[3], "independent_boost_and_rotate": worst[4]}}

        chk.struct(ob(f"dalitz[{cs}]:{name}==theta_{i}{j}"), holds, fn, witness=wit, replay=rep, bounded=True,
                   note="instance-level: 72 generated centre-of-mass events (massless, near-threshold included); general statement: C19 lemma chain A9+A10")


# ---- (f) E2 ------------------------------------------------------------------------------------------------------
def _e2(chk: Check, info, tier: str) -> dict[str, int]:
    classes = info["classes"]
    by_n: dict[int, list[str]] = {}
    for cs, objs in classes.items():
        by_n.setdefault(len(fs_ids(objs[0], root_edge(objs[0]))), []).append(cs)
    sample = list(by_n.get(2, [])) + list(by_n.get(3, []))
    four = by_n.get(4, [])
    chain = [c for c in four if not c.startswith("4body:((")]  # a|(b|(cd)) : frames nested twice
    pair = [c for c in four if c.startswith("4body:((") and c.count("(") == 3 and "):" in c.split("|")[1]]  # (ab)(cd)
    rest = [c for c in four if c not in chain and c not in pair]
    step = 1 if tier == "thorough" else 0
    picks = chain[:1] + pair[:1] + rest[:1] + (chain[7:8] if len(chain) > 7 else [])
    if step:
        picks += chain[1:7:2] + pair[1:4] + rest[1:4] + by_n.get(5, [])[:1]
    sample += [c for c in dict.fromkeys(picks)]
    done: set[Any] = set()
    count = {"topologies": len(sample), "variables": 0}
    for cs in sample:
        t = classes[cs][0]
        try:
            ang, mas = real_variables(t)
        except Exception:  # noqa: BLE001
            continue
        for name in sorted(ang):
            tree = ang[name]
            if (name, tree) in done:
                continue
            done.add((name, tree))
            count["variables"] += 1
            for cse in (True, False):
                # without cse the generated source of a variable behind two frames is ~270 kB (6 s of interpretation each):
                # quick does it for the first sampled chain topology only, thorough for every sampled one; three frames never
                if not cse and (name.count(",") >= 2 or (name.count(",") == 1 and tier == "quick" and cs not in chain[:1])):
                    continue
                e2_angle(chk, ob(f"E2[{cs}]:{name}[cse={'on' if cse else 'off'}]"), FA + "compute_helicity_angles", name, tree, cse,
                         replay=replay_e2(t, name, cse))
        for name in sorted(mas):
            tree = mas[name]
            if (name, tree) in done:
                continue
            done.add((name, tree))
            count["variables"] += 1
            for cse in (True, False):
                tr = Tr("e2m", sqrt_mode="principal")
                val = tr.val(tree)
                p = tr.val(tree.args[0])
                cond = p[0].re * p[0].re - p[1].re * p[1].re - p[2].re * p[2].re - p[3].re * p[3].re >= 0
                npvc.code_vs_symbolic(chk, ob(f"E2[{cs}]:{name}[cse={'on' if cse else 'off'}/timelike]"), FL + "compute_invariant_masses",
                                      tree, tr, [cond], val, cse, replay=replay_e2(t, name, cse))
    return count


def replay_e2(t, name: str, cse: bool):
    def rep(model):
        ids = fs_ids(t, root_edge(t))
        ang, mas = real_variables(t)
        expr = {**ang, **mas}.get(name)
        if expr is None:
            return {"reproduced": True, "observed": f"no key {name}"}
        evs = event_from_model(model, ids)
        rec = check_variable(name, expr, ids, evs, cse) if evs is not None else None
        if rec is None:
            rec = check_variable(name, expr, ids, gen_events(ids, seed=0), cse)
        if rec is None:
            return {"reproduced": False, "note": "generated code agrees with the independent implementation"}
        return {"reproduced": True, "topology": canon(t), **rec}

    return rep


# ---- covers ----------------------------------------------------------------------------------------------------------
def _covers(chk: Check, info) -> None:
    from qrules.topology import create_isobar_topologies

    # the masses and all angle pairs of the three-body topology, momenta pinned to rationals (the solver only has to
    # produce the roots); cover_check compares the SMT denotation with numpy evaluation of the real tree at the model.
    # p1 + p2 = s (8.5, 0.3, 0.4, 1.2): rho = 0.5 s, |q| = 1.3 s, m = 8.4 s are rational (3-4-5, 5-12-13, 13-84-85), so the
    # helicity frame of (12) has rational entries and only the last level of roots is algebraic; s depends on VERIF_SEED
    t = create_isobar_topologies(3)[0]
    ids = fs_ids(t, root_edge(t))
    ang, mas = real_variables(t)
    s = 1 + chk.seed % 7
    table = {0: (30, 2, -3, 4), 1: (40, 10, -5, 7), 2: (45, -7, 9, 5)}
    pins = []
    for i in ids:
        E, x, y, z = _phys(i)
        v = table.get(i, (30 + i, 1, 2, 3))
        pins += [E == z3.RealVal(v[0] * s) / 10, x == z3.RealVal(v[1] * s) / 10, y == z3.RealVal(v[2] * s) / 10, z == z3.RealVal(v[3] * s) / 10]
    for name in sorted(mas):
        tr = Tr("cvm", sqrt_mode="principal")
        val = chk.guarded(ob(f"cover.{name}"), lambda: tr.scalar(mas[name]), FL + "InvariantMass", replay=search)
        if val is not None:
            chk.cover(ob(f"cover.masses[{canon(t)}]:{name}"), pins + tr.hyps(), FL + "compute_invariant_masses", model_check=e1.cover_check(tr, val, mas[name]))
    for name in sorted(ang):
        tr = Tr("cva")
        val = chk.guarded(ob(f"cover.{name}"), lambda: tr.val(ang[name]), FA + "compute_helicity_angles", replay=search)
        if val is not None:
            chk.cover(ob(f"cover.angles[{canon(t)}]:{name}"), pins + tr.hyps() + [c for _, c, _ in tr.wd], FA + "compute_helicity_angles",
                      model_check=e1.cover_check(tr, val, ang[name]))


def build(chk: Check) -> None:
    import time

    _assumptions(chk)
    n_values = (2, 3, 4) if chk.tier == "quick" else (2, 3, 4, 5)
    timing: dict[str, float] = {}

    def timed(label, f, *a):
        t0 = time.time()
        out = f(*a)
        timing[label] = round(time.time() - t0, 2)
        return out

    timed("primitives", _primitives, chk)
    timed("align", _align, chk)
    info = timed("enumeration", _enumeration, chk, n_values)
    timed("name_consistency", _name_consistency, chk, info)
    timed("adapter", _adapter, chk, info, n_values)
    timed("dalitz", _dalitz, chk)
    cnt = timed("e2", _e2, chk, info, chk.tier)
    timed("covers", _covers, chk, info)
    chk.extra["build_seconds"] = timing
    # engine self-test on the mass clause: dropping an id from the sum must be refuted
    A, L, AE = _prims()
    p1, p2 = L.create_four_momentum_symbol(1), L.create_four_momentum_symbol(2)
    tr = Tr("st", sqrt_mode="principal")
    v = tr.scalar(L.InvariantMass(AE.ArraySum(p1, p2)))
    E1, x1, y1, z1 = _phys(1)
    chk.mustfail("selftest.masses.m_12_is_mass_of_p1_only", tr.hyps(), v.re * v.re - v.imz * v.imz == E1 * E1 - x1 * x1 - y1 * y1 - z1 * z1,
                 function=FL + "compute_invariant_masses")
    chk.extra["structural_enumeration"] = {
        "relabelled_topologies_enumerated": info["enumerated"],
        "distinct_topology_objects": info["objects"],
        "classes_up_to_node_ids": len(info["classes"]),
        "exhaustive": True,
        "rule": "every shape of create_isobar_topologies(n) x every permutation of final-state ids x every permutation of intermediate-edge ids",
        "e2_sample": cnt,
    }
    chk.notes.append(f"enumerated {sum(info['enumerated'].values())} relabelled topologies ({info['objects']} distinct objects; {len(info['classes'])} classes up to node ids)")
