"""C17 layer (i): E3 symbolic execution of the real `HelicityModel.rename_symbols` + `__collect_symbols` over abstract models.

Abstract model of a given SHAPE (which of n pairwise distinct symbols occur where; sizes of the five mappings); the contents
are symbolic: symbol names and assumptions (`attr_name`, `attr_assumptions0`, uninterpreted: distinct symbols may share a
name), every expression, every parameter value, the rename map's keys (pairwise distinct strings) and values.
`e.xreplace(M)` is the uninterpreted, congruent XR(M, e); the dict M is embedded by an order-insensitive constructor of
its (key, value) pairs, so XR(M, e) = XR(M', e) whenever M and M' have the same pairs.
"""

from __future__ import annotations

import z3

from contracts import c17_spec as S
from contracts.e3x_sel import Ex, conj, n_warning, pc_of
from vlib.core import Check
from vlib.pyvc import Exc, Obj, Rec, SV, State, Unsupported, _HK

F = "ampform.helicity.HelicityModel.rename_symbols"
FC = "ampform.helicity.HelicityModel.__collect_symbols"

XR = z3.Function("xreplace", Obj, Obj, Obj)
mk_symbol = z3.Function("sp.Symbol", Obj, Obj, Obj)  # (name, assumptions) -> Symbol
NO_ASSUMPTIONS = z3.Const("no_assumptions", Obj)

# shape: n symbols; fs = indices free in `expression`; kv = [(key index, [indices free in its expression])];
#        pd = indices of the parameter_defaults keys; amps / comps = sizes; r = size of the rename map
SHAPES = {
    "generic[4_symbols/2_renames]": dict(n=4, fs=[0, 1, 2], kv=[(2, [3])], pd=[0, 1], amps=2, comps=2, r=2),
    "small[2_symbols/1_rename]": dict(n=2, fs=[0, 1], kv=[], pd=[0, 1], amps=1, comps=1, r=1),
    "two_kinematic_variables[3_symbols/2_renames]": dict(n=3, fs=[0, 1], kv=[(1, [2]), (2, [])], pd=[0], amps=1, comps=1, r=2),
    "three_parameters[3_symbols/2_renames]": dict(n=3, fs=[0, 1, 2], kv=[], pd=[0, 1, 2], amps=0, comps=1, r=2),
}
QUICK_SHAPES = ["generic[4_symbols/2_renames]", "small[2_symbols/1_rename]"]
ORPHAN = ("parameter_outside_expression_and_kinematics[3_symbols/1_rename]", dict(n=3, fs=[0, 1], kv=[(1, [])], pd=[0, 2], amps=1, comps=1, r=1))

ASSUMED = [
    "e.xreplace(M) = XR(M, e): the homomorphic extension of the symbol map, uninterpreted and congruent in (M, e); it depends on M through its (key, value) pairs only",
    "attrs.evolve(inst, **changes) returns a NEW instance of the real class's fields, each taken from `changes` or from `inst`, re-running the converters "
    "(which reorder keys / wrap ParameterValues but keep the mapping); frozen instances are not mutated",
    "sp.Symbol(name, **assumptions) is an injective-free constructor term mk_symbol(name, assumptions) (uninterpreted)",
    "Symbol.name / Symbol.assumptions0 / Expr.free_symbols are pure attributes; free_symbols of the abstract expressions are given by the shape (structural enumeration)",
    "HelicityModel.expression is a pure function of (intensity, amplitudes), abstracted by one opaque value",
    "logging.Logger.warning has no effect on the program state (ghost trace)",
    "private attributes under their mangled names (_HelicityModel__collect_symbols, _ParameterValues__parameters)",
]


def name_of(ex: Ex, t):
    return ex.func("attr_name", "obj", "obj")(t)


def assumptions_of(ex: Ex, t):
    return ex.func("attr_assumptions0", "obj", "obj")(t)


class Abstract:
    def __init__(self, shape: dict, tag: str):
        from ampform import helicity as H

        self.shape = shape
        ex = self.ex = Ex(tag)
        n = shape["n"]
        self.u = [SV(z3.Const(f"symbol{i}", Obj), "obj") for i in range(n)]
        self.I = z3.Const("intensity", Obj)
        self.E = z3.Const("expression", Obj)
        self.amp_k = [z3.Const(f"amplitude_key{i}", Obj) for i in range(shape["amps"])]
        self.amp_v = [z3.Const(f"amplitude_expr{i}", Obj) for i in range(shape["amps"])]
        self.comp_k = [f"component{i}" for i in range(shape["comps"])]
        self.comp_v = [z3.Const(f"component_expr{i}", Obj) for i in range(shape["comps"])]
        self.kv_v = [z3.Const(f"kinematic_expr{i}", Obj) for i in range(len(shape["kv"]))]
        self.pd_v = [z3.Const(f"parameter_value{i}", Obj) for i in range(len(shape["pd"]))]
        self.rk = [z3.Const(f"rename_key{i}", Obj) for i in range(shape["r"])]
        self.rv = [z3.Const(f"rename_value{i}", Obj) for i in range(shape["r"])]
        fs_table = {str(self.E): {_HK(self.u[i]) for i in shape["fs"]}}
        for j, (_, fs) in enumerate(shape["kv"]):
            fs_table[str(self.kv_v[j])] = {_HK(self.u[i]) for i in fs}

        def free_symbols(e, st, o):
            if str(o.t) not in fs_table:
                raise Unsupported(f"free_symbols of {o.t}")
            return set(fs_table[str(o.t)])  # a fresh set, as SymPy returns

        ex.obj_props["free_symbols"] = free_symbols
        ex.natives["_LOGGER.warning"] = n_warning
        ex.natives["obj.xreplace"] = lambda e, st, a, k: iter([(st, SV(XR(e.as_obj(a[1]), a[0].t), "obj"))])

        def n_symbol(e, st, args, kw):
            extra = set(kw) - {"**"}
            if extra or len(args) != 1:
                raise Unsupported("sp.Symbol call shape")
            yield st, SV(mk_symbol(e.as_obj(args[0]), e.as_obj(kw["**"]) if "**" in kw else NO_ASSUMPTIONS), "obj")

        ex.natives["sp.Symbol"] = n_symbol
        ex.natives["attrs.evolve"] = self.n_evolve
        ex.natives["ParameterValues.__iter__"] = lambda e, st, a, k: iter([(st, [x.v if isinstance(x, _HK) else x for x in a[0].attrs["_ParameterValues__parameters"]])])
        import sympy as sp

        for x in self.u:
            ex.sv_class[str(x.t)] = sp.Symbol
        ex.inline.add(getattr(H.HelicityModel, "_HelicityModel__collect_symbols"))
        ex.inline.add(H.ParameterValues.items)
        self.H = H
        self.self_rec = Rec("HelicityModel", {
            "intensity": SV(self.I, "obj"), "expression": SV(self.E, "obj"), "reaction_info": SV(z3.Const("reaction_info", Obj), "obj"),
            "amplitudes": {_HK(SV(self.amp_k[i], "obj")): SV(self.amp_v[i], "obj") for i in range(shape["amps"])},
            "components": {self.comp_k[i]: SV(self.comp_v[i], "obj") for i in range(shape["comps"])},
            "kinematic_variables": {_HK(self.u[k]): SV(self.kv_v[j], "obj") for j, (k, _) in enumerate(shape["kv"])},
            "parameter_defaults": Rec("ParameterValues", {"_ParameterValues__parameters": {_HK(self.u[p]): SV(self.pd_v[j], "obj") for j, p in enumerate(shape["pd"])}}, real_class=H.ParameterValues),
        }, real_class=H.HelicityModel)
        self.renames = {_HK(SV(self.rk[j], "obj")): SV(self.rv[j], "obj") for j in range(shape["r"])}
        self.requires = []
        if n > 1:
            self.requires.append(z3.Distinct(*[x.t for x in self.u]))
        if shape["amps"] > 1:
            self.requires.append(z3.Distinct(*self.amp_k))
        if shape["r"] > 1:
            self.requires.append(z3.Distinct(*self.rk))
        if shape["comps"] > 1:  # distinct Python strings
            self.requires.append(z3.Distinct(*[ex.as_obj(k) for k in self.comp_k]))

    def n_evolve(self, e, st, args, kw):
        import attrs

        inst = args[0]
        fields = [a.name for a in attrs.fields(self.H.HelicityModel)]
        unknown = [k for k in kw if k not in fields]
        if unknown or len(args) != 1:
            yield st, Exc("TypeError", (f"unexpected argument {unknown}",))
            return
        new = {}
        for f in fields:
            v = kw.get(f, inst.attrs[f])
            if f == "parameter_defaults":
                src = v.attrs["_ParameterValues__parameters"] if isinstance(v, Rec) else v
                v = Rec("ParameterValues", {"_ParameterValues__parameters": dict(src)}, real_class=self.H.ParameterValues)
            elif isinstance(v, dict):
                v = dict(v)
            new[f] = v
        yield st, Rec("HelicityModel", new, real_class=self.H.HelicityModel)

    # ---- specification ------------------------------------------------------------------------------------------
    def collected(self) -> list[int]:
        s = set(self.shape["fs"])
        for k, fs in self.shape["kv"]:
            s |= {k, *fs}
        return sorted(s)

    def sigma(self, t):
        """The by-name renaming of a symbol term (statement: Symbol(new name, **assumptions0); identity off the renamed names)."""
        nm = name_of(self.ex, t)
        hit = z3.Or(*[nm == k for k in self.rk]) if self.rk else z3.BoolVal(False)
        new = self.rv[-1] if self.rv else nm
        for k, v in list(zip(self.rk, self.rv))[-2::-1]:
            new = z3.If(nm == k, v, new)
        return z3.If(hit, mk_symbol(new, assumptions_of(self.ex, t)), t)

    def m_spec(self):
        return self.ex.as_obj({_HK(self.u[i]): SV(self.sigma(self.u[i].t), "obj") for i in self.collected()})


def map_equal(ex: Ex, got: dict, spec_pairs: list):
    """The concrete dict `got` (possibly symbolic keys) equals the map built by inserting spec_pairs in order (last wins)."""
    gk = [ex.as_obj(k) for k in got]
    gv = [ex.as_obj(v) for v in got.values()]
    if not spec_pairs:
        return z3.BoolVal(not got)
    if not got:
        return z3.BoolVal(False)

    def lookup(keys, vals, t):
        out = vals[-1]
        for k, v in list(zip(keys, vals))[-2::-1]:
            out = z3.If(k == t, v, out)
        return out

    sk, sv = [p[0] for p in spec_pairs], [p[1] for p in spec_pairs]
    cs = [z3.Distinct(*gk) if len(gk) > 1 else z3.BoolVal(True)]
    for t in sk:
        cs.append(z3.Or(*[k == t for k in gk]))
        cs.append(lookup(gk, gv, t) == lookup(sk[::-1], sv[::-1], t))  # spec: the LAST pair with that key wins
    for k in gk:
        cs.append(z3.Or(*[k == t for t in sk]))
    return z3.And(*cs)


def run_shape(chk: Check, label: str, shape: dict, orphan: bool = False) -> int:
    a = Abstract(shape, label)
    ex = a.ex
    meth = a.H.HelicityModel.rename_symbols
    st = State()
    st.pc += a.requires
    st.ghost["roots"] = {"self": a.self_rec}
    tag = f"rename_symbols[{label}]"
    try:
        outs = ex.run(meth, [a.self_rec, a.renames], st=st)
    except Unsupported as e:
        chk.struct(f"{tag}.in_supported_subset", False, F, witness=str(e), lemma=True, replay=S.search_general)
        return 0
    chk.struct(f"{tag}.in_supported_subset", True, F, lemma=True)
    m = a.m_spec()
    u = a.u
    spec = {
        "amplitudes": [(a.amp_k[i], XR(m, a.amp_v[i])) for i in range(shape["amps"])],
        "components": [(ex.as_obj(a.comp_k[i]), XR(m, a.comp_v[i])) for i in range(shape["comps"])],
        "kinematic_variables": [(a.sigma(u[k].t), XR(m, a.kv_v[j])) for j, (k, _) in enumerate(shape["kv"])],
        "parameter_defaults": [(a.sigma(u[p].t), a.pd_v[j]) for j, p in enumerate(shape["pd"])],
    }
    names_s = [name_of(ex, u[i].t) for i in a.collected()]
    n_unknown = sum([z3.If(z3.Or(*[k == nm for nm in names_s]), 0, 1) for k in a.rk])
    clauses: dict[str, list] = {k: [] for k in ("intensity", "amplitudes", "components", "kinematic_variables", "parameter_defaults", "new_instance_and_self_unchanged", "warns_once_per_unknown_name_only")}
    no_raise, drop = [], []
    before = {k: (dict(v) if isinstance(v, dict) else v) for k, v in a.self_rec.attrs.items()}
    before_pd = dict(a.self_rec.attrs["parameter_defaults"].attrs["_ParameterValues__parameters"])
    for oc in outs:
        pc = pc_of(oc.st)
        if oc.kind == "raise" or not isinstance(oc.value, Rec):
            no_raise.append(z3.Not(pc))
            continue
        new, old = oc.value, oc.st.ghost["roots"]["self"]
        clauses["intensity"].append(z3.Implies(pc, ex.as_obj(new.attrs["intensity"]) == XR(m, a.I)))
        for attr in ("amplitudes", "components", "kinematic_variables"):
            clauses[attr].append(z3.Implies(pc, map_equal(ex, new.attrs[attr], spec[attr]) if isinstance(new.attrs[attr], dict) else z3.BoolVal(False)))
        pd = new.attrs["parameter_defaults"]
        pdd = pd.attrs.get("_ParameterValues__parameters") if isinstance(pd, Rec) else None
        clauses["parameter_defaults"].append(z3.Implies(pc, map_equal(ex, pdd, spec["parameter_defaults"]) if isinstance(pdd, dict) else z3.BoolVal(False)))
        same = new is not old and all(
            (list(old.attrs[k].items()) == list(before[k].items()) and all(x is y for x, y in zip(old.attrs[k].values(), before[k].values()))) if isinstance(before[k], dict)
            else (old.attrs[k] is a.self_rec.attrs[k] or isinstance(before[k], Rec)) for k in before)
        opd = old.attrs["parameter_defaults"].attrs["_ParameterValues__parameters"]
        same = same and list(opd.items()) == list(before_pd.items()) and ex.as_obj(new.attrs["reaction_info"]).eq(ex.as_obj(a.self_rec.attrs["reaction_info"]))
        clauses["new_instance_and_self_unchanged"].append(z3.Implies(pc, z3.BoolVal(bool(same))))
        w = sum(1 for x in oc.st.trace if x == "warning")
        clauses["warns_once_per_unknown_name_only"].append(z3.Implies(pc, n_unknown == w))
        # self-test material: "the renamed symbols lose their assumptions"
        m_drop = ex.as_obj({_HK(u[i]): SV(z3.If(z3.Or(*[name_of(ex, u[i].t) == k for k in a.rk]), mk_symbol(z3.If(name_of(ex, u[i].t) == a.rk[0], a.rv[0], a.rv[-1]), NO_ASSUMPTIONS), u[i].t), "obj")
                            for i in a.collected()})
        # false whatever the code does: "dropping the assumptions makes no difference"
        drop.append(z3.Implies(pc, z3.And(ex.as_obj(new.attrs["intensity"]) == XR(m_drop, a.I), ex.as_obj(new.attrs["intensity"]) == XR(m, a.I))))
    text = {"intensity": "ens.intensity_is_XR_sigma", "amplitudes": "ens.amplitudes_values_are_XR_sigma", "components": "ens.components_values_are_XR_sigma",
            "kinematic_variables": "ens.kinematic_variables_keys_sigma_values_XR_sigma", "parameter_defaults": "ens.parameter_defaults_is_image_under_sigma_last_value_wins",
            "new_instance_and_self_unchanged": "ens.new_instance_and_self_unchanged", "warns_once_per_unknown_name_only": "ens.warns_once_per_unknown_name_only"}
    for k, cs in clauses.items():
        if orphan and k != "parameter_defaults":
            continue
        chk.smt(f"{tag}.{text[k]}", [], conj(cs) if cs else z3.BoolVal(False), function=F, replay=S.search_orphan if orphan else S.search_general, tactics=("default",))
    if not orphan:
        chk.smt(f"{tag}.ens.never_raises", [], conj(no_raise), function=F, replay=S.search_general, tactics=("default",))
        chk.struct(f"{tag}.paths>=3", len(outs) >= 3, F, witness=len(outs), lemma=True, replay=S.search_general)
    if label.startswith("small"):
        rets = [pc_of(oc.st) for oc in outs if oc.kind == "return"]
        chk.cover(f"{tag}.cover.both_symbols_renamed_to_one_name", [z3.Or(*rets), name_of(ex, u[0].t) == a.rk[0], name_of(ex, u[1].t) == a.rk[0]], function=F)
        chk.mustfail("selftest.rename_symbols.assumptions_dropped_is_not_the_spec", [], conj(drop), function=F, tactics=("default",))
    return len(outs)


def empty_map(chk: Check) -> None:
    a = Abstract(SHAPES["small[2_symbols/1_rename]"], "empty")
    st = State()
    st.ghost["roots"] = {"self": a.self_rec}
    try:
        outs = a.ex.run(a.H.HelicityModel.rename_symbols, [a.self_rec, {}], st=st)
        ok = len(outs) == 1 and outs[0].kind == "return" and outs[0].value is outs[0].st.ghost["roots"]["self"] and not outs[0].st.trace
        wit = [(o.kind, str(o.value)[:80]) for o in outs]
    except Unsupported as e:
        ok, wit = False, str(e)
    chk.struct("rename_symbols[empty_map].ens.returns_self_without_warning", ok, F, witness=wit, replay=S.search_general)


def consistency_lemmas(chk: Check) -> None:
    """well_formed(self) => well_formed(result), from 'free symbols of XR(sigma, e) = sigma[free symbols of e]'."""
    fs, p, k = (z3.Function(nm, Obj, z3.BoolSort()) for nm in ("free_in_expression", "is_parameter", "is_kinematic_variable"))
    fs2, p2, k2 = (z3.Function(nm + "_after", Obj, z3.BoolSort()) for nm in ("free_in_expression", "is_parameter", "is_kinematic_variable"))
    sig = z3.Function("sigma", Obj, Obj)
    x, y = z3.Consts("x y", Obj)
    images = []
    for old, new in ((fs, fs2), (p, p2), (k, k2)):
        images += [z3.ForAll([x], z3.Implies(old(x), new(sig(x)))), z3.ForAll([y], z3.Implies(new(y), z3.Exists([x], z3.And(old(x), sig(x) == y))))]
    p1 = z3.ForAll([x], z3.Implies(fs(x), z3.Or(p(x), k(x))))
    p2_ = z3.ForAll([x], z3.Not(z3.And(p(x), k(x))))
    no_cross_merge = z3.ForAll([x, y], z3.Implies(z3.And(p(x), k(y)), sig(x) != sig(y)))
    c = z3.Const("c", Obj)
    chk.smt("consistency.P1_preserved[free_symbols_defined]", images + [p1], z3.Implies(fs2(c), z3.Or(p2(c), k2(c))), function=F, lemma=True, replay=S.search_general, tactics=("default",))
    chk.smt("consistency.P2_preserved[requires_no_parameter_merged_with_a_kinematic_variable]", images + [p2_, no_cross_merge], z3.Not(z3.And(p2(c), k2(c))), function=F, lemma=True,
            replay=S.search_general, tactics=("default",))
    chk.mustfail("precondition.P2_is_lost_when_a_parameter_is_merged_with_a_kinematic_variable", images + [p2_], z3.Not(z3.And(p2(c), k2(c))), function=F, tactics=("default",))
    chk.notes.append("documented precondition (not a violation): a map that gives a parameter the name and assumptions of a kinematic variable merges the two key sets; the "
                     "property covers 'mapping two parameters to one name' only")


def build_e3(chk: Check) -> None:
    for t in ASSUMED:
        chk.assume(t)
    paths = 0
    for label in (list(SHAPES) if chk.tier == "thorough" else QUICK_SHAPES):
        paths += run_shape(chk, label, SHAPES[label])
    paths += run_shape(chk, ORPHAN[0], ORPHAN[1], orphan=True)
    empty_map(chk)
    consistency_lemmas(chk)
    chk.extra["e3_paths_total"] = paths
