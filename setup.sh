#!/bin/sh
# Build the overlay interpreter used by every check: Python 3.12 venv with z3-solver and cvc5
# from the offline wheelhouse, plus a .pth that adds the repository's own site-packages
# (/venv) so that `import ampform, qrules, sympy` resolve. ampform itself is imported from
# $VERIF_REPO/src (default /repo/src), which ./check puts first on PYTHONPATH.
set -e
cd "$(dirname "$0")"
if [ ! -x .venv/bin/python ] || ! .venv/bin/python -c "import z3, cvc5, sympy, qrules" 2>/dev/null; then
  rm -rf .venv
  /venv/bin/python -m venv .venv
  PIP_NO_INDEX=1 .venv/bin/python -m pip install -q --no-index --find-links /opt/veriftools/wheels z3-solver cvc5 jsonschema >/dev/null
  SP=$(.venv/bin/python -c "import site; print(site.getsitepackages()[0])")
  echo "import site; site.addsitedir('/venv/lib/python3.12/site-packages')" > "$SP/zz_repo_site.pth"
fi
.venv/bin/python -c "import z3, cvc5, sympy, qrules, jsonschema; print('overlay venv ok: z3', z3.get_version_string(), 'sympy', sympy.__version__)"
